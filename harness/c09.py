"""C09 - thermodynamic queries are pure: history, caching, batching change nothing.

proof:          coq/C09/Properties.v (theorems about coq/C09/Model.v)
                 A. composition cache of the diffusion models (HashTable + the retrieve/compute/add loop of
                    SinglePhaseModel._getFluxes): key characterisation at every precision, soundness of a
                    hit for every history of operations, switching off, clearing;
                 B. array wrappers (_process_xT_arrays, _process_TG_arrays, get* methods): batch = pointwise;
                 C. cached composition sets of GeneralThermodynamics: history independence of every answer
                    UNDER explicit hypotheses about pycalphad (start independence of the solver, ...).
correspondence: A. random operation histories on a live HashTable / DiffusionModel; the model is executed
                   inside Coq on the same histories (exact rationals for the key the theorems talk about,
                   primitive binary64 floats for the key numpy computes), verdicts compared;
                B. the public get* methods are called with every argument shape on objects whose single
                   point back ends are replaced by recorders; the recorded calls must be the model's;
                C. GeneralThermodynamics is run on a SCRIPTED pycalphad (fake Solver / calculate /
                   CompositionSet / Workspace that log what they are given); the model's state machine is
                   executed inside Coq on the same query histories with the same scripted oracle and must
                   predict every solver call (conditions, phases, state variables and lineage of every
                   composition set handed in), every answer and the content of every cache.
search:         oracles written from the property text, independent of the Coq model:
                cache: every hit must return a value stored, since the last clear and while caching was on, for
                a point within one unit of the last kept digit (at the precision configured NOW) in every
                coordinate; nothing is returned or stored while caching is off;
                SinglePhaseModel._getFluxes on a recording back end: cache off => one back-end call per node
                and exact values; cache on => every diffusivity used is the back end's value at a point within one
                unit of the last kept digit of the node;
                real pycalphad back ends (SAMPLED - this is testing, not proof): every query of a random
                history (orders, repetitions, temperature jumps, removeCache on/off, clearCache, change of
                method, several precipitate phases) must return what a fresh object returns, a batch must
                return what the single calls return, a repeated call the same value, and no call may change
                an array passed to it.
"""
import contextlib, copy, io, json, math, time, warnings
from fractions import Fraction
import numpy as np
from common import *

LEVEL = 'proof'
SITE_HT = 'DiffusionParameters.HashTable'
SITE_SP = 'SinglePhase._getFluxes'
SITE_WR = 'thermo.utils'
SITE_TH = 'Thermodynamics'

HEADER = '''From Coq Require Import ZArith QArith List Bool Floats.
Require Import Kawin.C09.Model Kawin.C09.Corr.
Import ListNotations.
'''

warnings.filterwarnings('ignore')


def quiet():
    return contextlib.redirect_stdout(io.StringIO())


# ==========================================================================================
# literals
def flit(x):
    """hexadecimal float literal of Coq (exact)"""
    x = float(x)
    if not math.isfinite(x):
        raise ValueError('non-finite float cannot be shipped')
    h = x.hex()
    return '(%s)%%float' % h if x >= 0 and not h.startswith('-') else '(-%s)%%float' % h[1:]


def flist(xs):
    return '[' + '; '.join(flit(x) for x in xs) + ']'


def zl(xs):
    return '[' + '; '.join(zlit(x) for x in xs) + ']'


def optz(v):
    return 'None' if v is None else '(Some %s)' % zlit(v)


# ==========================================================================================
# A. composition cache
def key_of(h, x, T):
    """the implementation's key as a tuple of ints (None when it is not a tuple: unrepaired code hashes)"""
    k = h._hashingFunction(np.array(x, dtype=float), T)
    if isinstance(k, tuple):
        out = []
        for v in k:
            if not math.isfinite(v):
                return None
            out.append(int(v))
        return out
    return None


def gen_cache_history(rng, quick, idx):
    """random history of operations; points come from a small pool and from perturbations of pool points at the
    scale of the current precision, so that hits, near misses and cell-boundary cases all occur"""
    e = int(rng.choice([1, 2, 3]))
    kind = str(rng.choice(['plain', 'precision', 'onoff', 'boundary', 'large_s', 'neg_s'], p=[0.3, 0.2, 0.2, 0.15, 0.1, 0.05]))
    def draw_s():
        if kind == 'large_s':
            return int(rng.choice([7, 8, 9, 10, 12, 15, 18, 22, 25, 30, 60, 200]))
        if kind == 'neg_s':
            return int(rng.choice([-3, -2, -1, 0, 1]))
        return int(rng.choice([1, 2, 3, 4, 5, 6, 7, 8]))
    s = 4
    pool = []
    for _ in range(int(rng.integers(2, 5))):
        x = [float(v) for v in rng.uniform(0.001, 0.45, e)]
        T = float(rng.choice([rng.uniform(300, 2500), float(rng.integers(300, 2500)), 2147.4, 2147.5, 3000.0, 300.0]))
        pool.append((x, T))
    ops = []
    vid = 0
    n = int(rng.integers(8, 26 if quick else 60))
    def point():
        x, T = pool[int(rng.integers(len(pool)))]
        x = list(x)
        r = rng.random()
        unit = 10.0 ** (-s)
        if r < 0.3:
            pass
        elif r < 0.55:      # within or across the cell at the current precision
            j = int(rng.integers(e + 1))
            d = float(rng.choice([0.2, 0.6, 0.95, 1.05, 2.5, -0.4, -1.2])) * unit
            if j < e:
                x[j] = abs(x[j] + d)
            else:
                T = abs(T + d)
        elif r < 0.7:       # exactly on a cell boundary (n / 10^s rounded to a float)
            j = int(rng.integers(e + 1))
            if j < e:
                x[j] = float(round(x[j] * 10.0 ** s)) * unit if abs(s) < 30 else x[j]
            else:
                T = float(round(T * 10.0 ** s)) * unit if abs(s) < 30 else T
        elif r < 0.8:       # another temperature far away, same composition
            T = float(T + rng.choice([-300, 50, 300, 1000]))
            T = abs(T) + 1.0
        elif r < 0.9:       # scaled by a power of ten (collides across precisions in the unrepaired code)
            k = int(rng.choice([-1, 1]))
            x = [v * 10.0 ** k for v in x]
            T = T * 10.0 ** k
        else:
            x = [float(v) for v in rng.uniform(0.0, 0.5, e)]
            T = float(rng.uniform(250, 3000))
        return [float(v) for v in x], float(T)
    for i in range(n):
        r = rng.random()
        if kind in ('precision', 'large_s', 'neg_s') and (i == 0 or r < 0.12):
            s = draw_s()
            ops.append({'op': 'sens', 's': s})
        elif kind == 'onoff' and r < 0.2:
            ops.append({'op': 'enable', 'b': bool(rng.random() < 0.5)})
        elif r < 0.06:
            ops.append({'op': 'clear'})
        elif r < 0.5:
            x, T = point()
            vid += 1
            ops.append({'op': 'add', 'x': x, 'T': T, 'v': vid})
        else:
            x, T = point()
            ops.append({'op': 'get', 'x': x, 'T': T})
    # always end with a few lookups of the pool
    for (x, T) in pool[:2]:
        ops.append({'op': 'get', 'x': list(x), 'T': T})
    return {'kind': kind, 'e': e, 'ops': ops, 'via': str(rng.choice(['table', 'model']))}


def run_cache_impl(case):
    """drive the live object; returns the operations annotated with what the implementation did"""
    from kawin.diffusion.DiffusionParameters import HashTable
    out = []
    err = None
    if case.get('via') == 'model':
        from kawin.diffusion import SinglePhaseModel
        with quiet():
            m = SinglePhaseModel([0, 1], 5, ['A', 'B'], ['P'])
        h = m.hashTable
        api = {'enable': m.useCache, 'clear': m.clearCache, 'sens': m.setHashSensitivity}
    else:
        h = HashTable()
        api = {'enable': h.enableCaching, 'clear': h.clearCache, 'sens': h.setHashSensitivity}
    for o in case['ops']:
        o = dict(o)
        try:
            if o['op'] == 'enable':
                api['enable'](o['b'])
            elif o['op'] == 'clear':
                api['clear']()
            elif o['op'] == 'sens':
                api['sens'](o['s'])
                o['hs'] = float(h.hash_sensitivity)
            elif o['op'] == 'add':
                o['key'] = key_of(h, o['x'], o['T'])
                h.addToHashTable(np.array(o['x'], dtype=float), o['T'], o['v'])
            else:
                o['key'] = key_of(h, o['x'], o['T'])
                r = h.retrieveFromHashTable(np.array(o['x'], dtype=float), o['T'])
                o['res'] = None if r is None else int(r)
                o['len'] = len(h.cachedData)
        except Exception as ex:
            err = '%s: %s' % (type(ex).__name__, ex)
            o['err'] = err
            out.append(o)
            break
        out.append(o)
    return out, err


def cache_term(ann):
    items = []
    for o in ann:
        if o['op'] == 'enable':
            items.append('CEnable %s' % boollit(o['b']))
        elif o['op'] == 'clear':
            items.append('CClear')
        elif o['op'] == 'sens':
            items.append('CSens %s %s' % (zlit(o['s']), flit(o['hs'])))
        elif o['op'] == 'add':
            items.append('CAdd %s %s %s %s' % (flist(o['x']), flit(o['T']), zlit(o['v']), zl(o['key'] or [])))
        else:
            items.append('CGet %s %s %s %s %s' % (flist(o['x']), flit(o['T']), optz(o['res']), natlit(o['len']), zl(o['key'] or [])))
    return 'check_cache [' + '; '.join(items) + ']'


def cache_oracle(ann):
    """independent oracle, from the property text, exact arithmetic on the float inputs.
    returns list of (clause, cls, message, index)"""
    hits = []
    enabled = True
    s = 4
    epoch = 0
    adds = {}          # value id -> (x, T, s, enabled, epoch)
    size_when_off = None
    for i, o in enumerate(ann):
        if 'err' in o:
            if o['op'] == 'sens' and o['err'].startswith(('ValueError', 'OverflowError')):
                break          # a precision the implementation refuses outright: nothing was cached wrongly
            hits.append(('no_internal_error', 'exception', 'operation %d (%s) raised %s' % (i, o['op'], o['err']), i))
            break
        if o['op'] == 'enable':
            enabled = bool(o['b'])
            size_when_off = None
        elif o['op'] == 'clear':
            epoch += 1
            size_when_off = None
        elif o['op'] == 'sens':
            # an implementation may keep or drop its entries here; what is kept must still satisfy the
            # cell test below AT THE NEW PRECISION
            s = int(o['s'])
            size_when_off = None
        elif o['op'] == 'add':
            adds[o['v']] = (o['x'], o['T'], s, enabled, epoch)
        else:
            if not enabled:
                if o['res'] is not None:
                    hits.append(('cache_disable', 'hit while caching is off',
                                 'caching is switched off but the lookup of x=%r T=%r returned stored value #%d' % (o['x'], o['T'], o['res']), i))
                if size_when_off is None:
                    size_when_off = o['len']
                elif o['len'] > size_when_off:
                    hits.append(('cache_disable', 'stored while caching is off',
                                 'caching is switched off but the table grew from %d to %d entries' % (size_when_off, o['len']), i))
                continue
            if o['res'] is None:
                continue
            if o['res'] not in adds:
                hits.append(('cache_sound', 'unknown value', 'lookup returned a value that was never stored', i))
                continue
            ax, aT, as_, aen, aep = adds[o['res']]
            if not aen:
                hits.append(('cache_disable', 'stored while caching is off',
                             'value #%d was offered while caching was off and is returned now' % o['res'], i))
                continue
            if aep != epoch:
                hits.append(('cache_sound', 'entry survived clearCache',
                             'value #%d was stored before the table was cleared: stored for x=%r T=%r, returned for x=%r T=%r' % (o['res'], ax, aT, o['x'], o['T']), i))
                continue
            if len(ax) != len(o['x']):
                hits.append(('cache_sound', 'different key', 'value stored for %d components returned for %d' % (len(ax), len(o['x'])), i))
                continue
            scale = Fraction(10) ** s
            bad = None
            for a, b in zip(list(ax) + [aT], list(o['x']) + [o['T']]):
                fa, fb = frac(a) * scale, frac(b) * scale
                if abs(fa - fb) >= 1 + Fraction(1, 2 ** 40) * max(abs(fa), abs(fb), 1):
                    bad = (a, b, 'differ by %.3g units of the last kept digit' % float(abs(fa - fb)))
                    break
                # (which of the points closer than one unit share a key depends on the rounding mode of the key:
                #  that is the business of the correspondence with the model, not of this oracle)
            if bad:
                a, b, why = bad
                cls = 'different key'
                if as_ != s:
                    cls = 'different key (entry stored at another precision)'
                elif max(abs(frac(a)), abs(frac(b))) * scale >= 2 ** 31:
                    cls = 'different key (scaled coordinate >= 2^31)'
                hits.append(('cache_sound', cls,
                             'value #%d stored for x=%r T=%r (at %d digits) was returned for x=%r T=%r at %d digits: coordinates %r and %r %s'
                             % (o['res'], ax, aT, as_, o['x'], o['T'], s, a, b, why), i))
    return hits


def shrink_cache(case, pred):
    """drop operations while the predicate keeps failing"""
    ops = list(case['ops'])
    changed = True
    while changed:
        changed = False
        for i in range(len(ops) - 1, -1, -1):
            trial = ops[:i] + ops[i + 1:]
            c = dict(case, ops=trial)
            try:
                if pred(c):
                    ops = trial
                    changed = True
            except Exception:
                pass
    return dict(case, ops=ops)


def corpus_cases(kind):
    out = []
    p = os.path.join(VERIF, 'corpus', 'C09')
    if os.path.isdir(p):
        for f in sorted(os.listdir(p)):
            if f.endswith('.json'):
                c = json.load(open(os.path.join(p, f)))
                if c.get('part') == kind:
                    c['corpus'] = f
                    out.append(c)
    return out


def part_cache(ctx):
    quick = ctx.quick
    n = 150 if quick else 1500
    cases = corpus_cases('cache') + [gen_cache_history(ctx.rng, quick, i) for i in range(n)]
    anns = []
    oracle_hits = []
    for c in cases:
        ann, err = run_cache_impl(c)
        anns.append(ann)
        ctx.hist('cache_history_kind', c.get('kind', 'corpus'))
        gets = sum(1 for o in ann if o['op'] == 'get')
        nhit = sum(1 for o in ann if o['op'] == 'get' and o.get('res') is not None)
        ctx.count({'cache': c['ops']}, nhit > 0)
        ctx.hist('cache_lookups', 'hit' if nhit else 'all miss')
        for o in c['ops']:
            if o['op'] == 'sens':
                ctx.hist('cache_precision', o['s'])
        for h in cache_oracle(ann):
            oracle_hits.append((c, h))
    ctx.sample({'cache_history': cases[-1]['ops'][:6]})
    # report oracle hits (minimised), one per (clause, cls)
    seen = set()
    for c, (clause, cls, msg, idx) in oracle_hits:
        if (clause, cls) in seen:
            continue
        seen.add((clause, cls))
        def pred(d, clause=clause, cls=cls):
            a, _ = run_cache_impl(d)
            return any(h[0] == clause and h[1] == cls for h in cache_oracle(a))
        small = shrink_cache(c, pred)
        a, _ = run_cache_impl(small)
        msgs = [h[2] for h in cache_oracle(a) if h[0] == clause and h[1] == cls]
        ctx.violation(clause, {'site': SITE_HT, 'cls': cls},
                      {'kind': 'input', 'part': 'cache', 'input': {k: small[k] for k in ('ops', 'via') if k in small},
                       'observed': msgs[0] if msgs else msg,
                       'oracle': 'independent check of every lookup against the history of additions (harness/c09.py: cache_oracle)'},
                      msgs[0] if msgs else msg)
    # correspondence inside Coq (histories that raised are reported by the oracle already)
    idxs = [i for i, a in enumerate(anns) if not any('err' in o for o in a)]
    res = ctx.coq_eval('cache', HEADER, [cache_term(anns[i]) for i in idxs], shard=12 if ctx.quick else 60)
    dis = []
    flagged = 0
    for i, r in zip(idxs, res):
        kF, kQ, logic, nfl, sc = r
        flagged += nfl
        c = cases[i]
        if kF is not None:
            dis.append((c, 'key tuple of operation %d differs from trunc(coordinate * 10^s) computed in binary64' % kF[1]))
        if kQ is not None:
            dis.append((c, 'binary64 key of operation %d differs from the exact key although no coordinate is near a cell boundary' % kQ[1]))
        if logic is not None:
            k, mres, mlen = logic[1]
            o = anns[i][k]
            dis.append((c, 'lookup %d: implementation returned %r with %d entries, model %r with %d entries'
                        % (k, o['res'], o['len'], None if mres is None else mres[1], mlen)))
        if sc is not None:
            dis.append((c, 'hash_sensitivity set by operation %d is not the float nearest to 10^s' % sc[1]))
    ctx.notes['cache_histories'] = len(cases)
    ctx.notes['cache_operations_near_cell_boundary'] = flagged
    ctx.notes['cache_disagreements'] = len(dis)
    if dis and not oracle_hits:
        c, d = dis[0]
        ctx.violation('correspondence', {'site': SITE_HT, 'cls': d.split(':')[0][:40]},
                      {'broken': {'correspondence': 'coq/C09/Model.v (cache) vs kawin/diffusion/DiffusionParameters.py HashTable', 'first_disagreement': d},
                       'part': 'cache', 'input': {k: c[k] for k in ('ops', 'via') if k in c}, 'disagreements': len(dis)},
                      'cache model and implementation disagree (%d histories), e.g. %s' % (len(dis), d), no_input=True)
    return len(dis), len(oracle_hits)


# ==========================================================================================
# B. array wrappers
_TH = {}


def therm(system, method='tangent', fresh=False):
    """real thermodynamics objects of the shipped test databases"""
    from kawin.thermo import BinaryThermodynamics, MulticomponentThermodynamics, GeneralThermodynamics
    import kawin.tests.datasets as D
    key = (system, method)
    if not fresh and key in _TH:
        return _TH[key]
    with quiet():
        if system == 'ALZR':
            t = BinaryThermodynamics(D.ALZR_TDB, ['AL', 'ZR'], ['FCC_A1', 'AL3ZR'], drivingForceMethod=method)
        elif system == 'NICRAL':
            t = MulticomponentThermodynamics(D.NICRAL_TDB, ['NI', 'CR', 'AL'], ['FCC_A1', 'FCC_L12'], drivingForceMethod=method)
        elif system == 'NICRAL_DIFF':
            t = MulticomponentThermodynamics(D.NICRAL_TDB_DIFF, ['NI', 'CR', 'AL'], ['FCC_A1', 'FCC_L12'], drivingForceMethod=method)
        elif system == 'ALMGSI':
            t = MulticomponentThermodynamics(D.ALMGSI_DB, ['AL', 'MG', 'SI'],
                                             ['FCC_A1', 'MGSI_B_P', 'MG5SI6_B_DP', 'B_PRIME_L', 'U1_PHASE', 'U2_PHASE'], drivingForceMethod=method)
        elif system == 'FECRNI':
            t = GeneralThermodynamics(D.FECRNI_DB, ['FE', 'CR', 'NI'], ['FCC_A1', 'BCC_A2'], drivingForceMethod=method)
        else:
            raise ValueError(system)
    if not fresh:
        _TH[key] = t
    return t


def gen_shape_case(rng, binary, counter):
    """argument shapes for (x, T); values are distinct small integers (exact as floats)"""
    def ids(n):
        out = list(range(counter[0], counter[0] + n))
        counter[0] += n
        return out
    e = 1 if binary else int(rng.choice([2, 2, 3]))
    N = int(rng.choice([1, 1, 2, 3, 5]))
    if binary:
        xk = str(rng.choice(['scalar', 'vec', 'mat_N_1', 'mat_1_N']))
        if xk == 'scalar':
            x = ('sc', ids(1)[0])
        elif xk == 'vec':
            x = ('vec', ids(N))
        elif xk == 'mat_N_1':
            x = ('mat', [[v] for v in ids(N)])
        else:
            x = ('mat', [ids(N)])
    else:
        xk = str(rng.choice(['vec', 'mat', 'mat1']))
        if xk == 'vec':
            x = ('vec', ids(e))
        elif xk == 'mat1':
            x = ('mat', [ids(e)])
        else:
            x = ('mat', [ids(e) for _ in range(N)])
    nx = 1 if x[0] == 'sc' else (len(x[1]) if (x[0] == 'vec' and binary) else 1 if x[0] == 'vec' else
                                  (len(x[1][0]) if (binary and len(x[1]) == 1) else len(x[1])))
    tk = str(rng.choice(['scalar', 'len1', 'same', 'other'], p=[0.35, 0.15, 0.35, 0.15]))
    if tk == 'scalar':
        T = ('sc', ids(1)[0])
    elif tk == 'len1':
        T = ('vec', ids(1))
    elif tk == 'same':
        T = ('vec', ids(nx))
    else:
        T = ('vec', ids(int(rng.choice([2, 3, 4]))))
    return {'binary': binary, 'x': x, 'T': T}


def t_pattern(rng, vals):
    """a temperature array over up to three distinct values a, b, c"""
    a, b, c = vals
    pats = [[a, b, a], [a, a, b], [b, a, a], [a, b, b, a], [a, b, c, a], [b, a, c, a, b], [a, b, a, b], [a, a, a], [c, b, a], [a, c, b, c, a]]
    return list(pats[int(rng.integers(len(pats)))])


def np_arg(a):
    if a[0] == 'sc':
        return float(a[1])
    return np.array(a[1], dtype=float)


def coq_arr2(a):
    if a[0] == 'sc':
        return '(Sc2 %s)' % zlit(a[1])
    if a[0] == 'vec':
        return '(Vec2 %s)' % zl(a[1])
    return '(Mat2 [%s])' % '; '.join(zl(r) for r in a[1])


def coq_arr1(a):
    if a[0] == 'sc':
        return '(Sc1 %s)' % zlit(a[1])
    return '(Vec1 %s)' % zl(a[1])


def toint(v):
    v = float(v)
    assert v == int(v)
    return int(v)


def part_wrappers(ctx):
    from kawin.thermo.utils import _process_xT_arrays, _process_TG_arrays
    quick = ctx.quick
    rng = ctx.rng
    counter = [1]
    terms, descr = [], []
    pyfail = []
    n = 120 if quick else 1200
    # --- the two helpers themselves
    for i in range(n):
        c = gen_shape_case(rng, bool(rng.random() < 0.5), counter)
        xa, Ta = np_arg(c['x']), np_arg(c['T'])
        xb = copy.deepcopy(xa); Tb = copy.deepcopy(Ta)
        try:
            xs, Ts = _process_xT_arrays(xa, Ta, c['binary'])
            impl = 'Some ([%s], %s)' % ('; '.join(zl([toint(v) for v in r]) for r in xs), zl([toint(v) for v in Ts]))
            if np.ndim(xs) != 2 or np.ndim(Ts) != 1 or len(xs) != len(Ts):
                pyfail.append((c, 'processed arrays have shapes %r and %r' % (np.shape(xs), np.shape(Ts))))
        except ValueError:
            impl = 'None'
        if not (np.array_equal(xa, xb) and np.array_equal(Ta, Tb)):
            pyfail.append((c, '_process_xT_arrays changed its arguments'))
        terms.append('check_xT %s %s %s (%s)' % (boollit(c['binary']), coq_arr2(c['x']), coq_arr1(c['T']), impl))
        descr.append(('_process_xT_arrays', c))
        ctx.count({'wrap': [c['binary'], c['x'], c['T']]}, True)
        ctx.hist('wrapper_x_shape', c['x'][0] + ('' if c['x'][0] != 'mat' else '_%dx%d' % (min(len(c['x'][1]), 2), min(len(c['x'][1][0]), 2))))
        ctx.hist('wrapper_T_shape', c['T'][0] + ('' if c['T'][0] == 'sc' else str(min(len(c['T'][1]), 3))))
    for i in range(n // 2):
        c = gen_shape_case(rng, True, counter)      # reuse the generator: T / gExtra are the 1-d parts
        T = c['T']
        g = gen_shape_case(rng, True, counter)['T']
        try:
            Ts, gs = _process_TG_arrays(np_arg(T), np_arg(g))
            impl = 'Some (%s, %s)' % (zl([toint(v) for v in Ts]), zl([toint(v) for v in gs]))
        except ValueError:
            impl = 'None'
        terms.append('check_TG %s %s (%s)' % (coq_arr1(T), coq_arr1(g), impl))
        descr.append(('_process_TG_arrays', {'T': T, 'g': g}))
    # --- the public queries with recording single-point back ends
    calls = []
    def rec_df(xi, Ti, precPhase, removeCache, lpsc):
        calls.append(([toint(v) for v in np.atleast_1d(xi)], toint(Ti)))
        return float(len(calls)), np.array([float(len(calls))] * max(1, len(np.atleast_1d(xi))))
    def rec_d(xi, Ti, removeCache=True, phase=None):
        calls.append(([toint(v) for v in np.atleast_1d(xi)], toint(Ti)))
        return np.array(float(len(calls)))
    objs = {True: therm('ALZR', fresh=True), False: therm('NICRAL', fresh=True)}
    for t in objs.values():
        t._drivingForce = rec_df
        t._interdiffusivitySingle = rec_d
        t._tracerDiffusivitySingle = rec_d
    for i in range(n):
        binary = bool(rng.random() < 0.5)
        c = gen_shape_case(rng, binary, counter)
        if not binary and c['x'][0] != 'sc':
            # compositions of the ternary must have e - 1 = 2 entries
            rows = [c['x'][1]] if c['x'][0] == 'vec' else c['x'][1]
            if any(len(r) != 2 for r in rows):
                continue
        which = str(rng.choice(['getDrivingForce', 'getInterdiffusivity', 'getTracerDiffusivity']))
        del calls[:]
        xa, Ta = np_arg(c['x']), np_arg(c['T'])
        xb = copy.deepcopy(xa); Tb = copy.deepcopy(Ta)
        try:
            out = getattr(objs[binary], which)(xa, Ta)
            impl = 'Some [%s]' % '; '.join('(%s, %s)' % (zl(x), zlit(T)) for x, T in calls)
            first = out[0] if which == 'getDrivingForce' else out
            got = [float(v) for v in np.atleast_1d(first)]
            want = [float(k + 1) for k in range(len(calls))]
            if got != want:
                pyfail.append((dict(c, query=which), 'entry i of the result is not what the single-point call i returned: %r vs %r' % (got, want)))
        except ValueError:
            impl = 'None'
        if not (np.array_equal(xa, xb) and np.array_equal(Ta, Tb)):
            pyfail.append((dict(c, query=which), '%s changed its arguments' % which))
        terms.append('check_calls_xT %s %s %s (%s)' % (boollit(binary), coq_arr2(c['x']), coq_arr1(c['T']), impl))
        descr.append((which, c))
        ctx.count({'wrapq': [which, binary, c['x'], c['T']]}, True)
        ctx.hist('wrapper_query', which)
    # --- interfacial composition wrappers
    icalls = []
    def rec_icb(T, gExtra, precPhase):
        g = np.atleast_1d(gExtra)
        icalls.append((toint(T), [toint(v) for v in g]))
        return np.squeeze(np.array(g, dtype=float) + 0.5), np.squeeze(np.array(g, dtype=float) + 0.25)
    def rec_icm(x, T, gExtra, precPhase):
        icalls.append((toint(T), toint(gExtra)))
        return np.array([float(gExtra), 0.5, 0.5]), np.array([float(gExtra), 0.25, 0.25])
    objs[True]._interfacialComposition = rec_icb
    objs[False]._interfacialComposition = rec_icm
    for i in range(n // 2):
        binary = bool(rng.random() < 0.6)
        T = gen_shape_case(rng, True, counter)['T']
        g = gen_shape_case(rng, True, counter)['T']
        if rng.random() < 0.3 and T[0] == 'vec' and len(T[1]) > 1:
            T = ('vec', [T[1][0]] * len(T[1]))           # equal temperatures: the batched path
        elif rng.random() < 0.5:
            # temperature arrays of every pattern: repeated values, non-monotone, first == last with other values inside
            T = ('vec', t_pattern(rng, [counter[0], counter[0] + 1, counter[0] + 2]))
            counter[0] += 3
            n_ = len(T[1])
            g = ('vec', list(range(counter[0], counter[0] + n_))) if rng.random() < 0.8 else g
            counter[0] += n_
        del icalls[:]
        Ta, ga = np_arg(T), np_arg(g)
        Tb, gb = copy.deepcopy(Ta), copy.deepcopy(ga)
        try:
            if binary:
                out = objs[True].getInterfacialComposition(Ta, ga)
                impl = 'Some [%s]' % '; '.join('(%s, %s)' % (zlit(t), zl(gs)) for t, gs in icalls)
                flat = [v for t, gs in icalls for v in gs]
                got = [float(v) for v in np.atleast_1d(out[0])]
                if got != [v + 0.5 for v in flat]:
                    pyfail.append(({'T': T, 'g': g, 'query': 'getInterfacialComposition'}, 'result is not the concatenation of the back-end results'))
                # every (T_i, g_i) must be evaluated at its own temperature, in order
                Tl = [T[1]] if T[0] == 'sc' else list(T[1]); gl = [g[1]] if g[0] == 'sc' else list(g[1])
                nn = max(len(Tl), len(gl))
                want_pairs = list(zip(Tl * (nn if len(Tl) == 1 else 1), gl * (nn if len(gl) == 1 else 1)))
                have_pairs = [(t, gv) for t, gs in icalls for gv in gs]
                if have_pairs != want_pairs:
                    pyfail.append(({'T': T, 'g': g, 'query': 'getInterfacialComposition'},
                                   'getInterfacialComposition evaluates entry: (T, gExtra) pairs %r were evaluated as %r' % (want_pairs, have_pairs)))
            else:
                out = objs[False].getInterfacialComposition([0.1, 0.1], Ta, ga)
                impl = 'Some [%s]' % '; '.join('(%s, %s)' % (zlit(t), zlit(g0)) for t, g0 in icalls)
        except (ValueError, IndexError):
            impl = 'None'
        if not (np.array_equal(Ta, Tb) and np.array_equal(ga, gb)):
            pyfail.append(({'T': T, 'g': g}, 'getInterfacialComposition changed its arguments'))
        terms.append('%s %s %s (%s)' % ('check_calls_IC' if binary else 'check_calls_ICm', coq_arr1(T), coq_arr1(g), impl))
        descr.append(('getInterfacialComposition(%s)' % ('binary' if binary else 'multicomponent'), {'T': T, 'g': g}))
        ctx.count({'wrapic': [binary, T, g]}, True)
    res = ctx.coq_eval('wrap', HEADER, terms, shard=30 if ctx.quick else 150)
    bad = [(d, t) for d, t, r in zip(descr, terms, res) if r is not True]
    ctx.notes['wrapper_cases'] = len(terms)
    ctx.sample({'wrapper_case': {'function': descr[-1][0], 'arguments': descr[-1][1]}})
    ctx.notes['wrapper_disagreements'] = len(bad)
    for c, msg in pyfail[:1]:
        ctx.violation('batch_is_pointwise', {'site': SITE_WR, 'cls': msg.split(':')[0][:50]},
                      {'kind': 'input', 'part': 'wrappers', 'input': c, 'observed': msg}, msg)
    if bad:
        (name, c), t = bad[0]
        ctx.violation('correspondence', {'site': SITE_WR, 'cls': name},
                      {'broken': {'correspondence': 'coq/C09/Model.v (wrappers) vs %s' % name, 'term': t}, 'part': 'wrappers',
                       'input': c, 'disagreements': len(bad)},
                      'wrapper model and implementation disagree on %s (%d cases), e.g. x=%r T=%r' % (name, len(bad), c.get('x'), c.get('T')), no_input=True)
    return len(bad)


# ==========================================================================================
# E. the cache in use: SinglePhaseModel._getFluxes on a recording back end
class RecTherm:
    """closed-form diffusivity, injective in (x, T): the value identifies the point it was computed at"""
    def __init__(self):
        self.calls = []
    def clearCache(self):
        pass
    @staticmethod
    def f(x, T):
        x = np.atleast_1d(np.array(x, dtype=float))
        if len(x) == 1:
            return 1e-14 * (1 + x[0] + T / 1e4)
        return 1e-14 * np.array([[1 + x[0] + T / 1e4, 0.1 * x[1]], [0.2 * x[0], 2 + x[1] + T / 1e4]])
    def getInterdiffusivity(self, x, T, phase=None):
        self.calls.append(([float(v) for v in np.atleast_1d(x)], float(T)))
        return self.f(x, T)


def same_cell(p, q, s):
    """exact test from the property text: two points that round to the same key at s digits agree in every coordinate
    to within one unit of the last kept digit (whatever the rounding mode of the key)"""
    scale = Fraction(10) ** s
    for a, b in zip(list(p[0]) + [p[1]], list(q[0]) + [q[1]]):
        fa, fb = frac(a) * scale, frac(b) * scale
        if abs(fa - fb) >= 1 + Fraction(1, 2 ** 40) * max(abs(fa), abs(fb), 1):
            return False
    return len(p[0]) == len(q[0])


def run_singlephase(case):
    """returns list of (clause, cls, message)"""
    from kawin.diffusion import SinglePhaseModel
    els = ['A', 'B'] if case['e'] == 1 else ['A', 'B', 'C']
    st = RecTherm()
    hits = []
    with quiet():
        m = SinglePhaseModel([0, 1e-3], case['N'], els, ['P'], thermodynamics=st)
        if case['Tgrad'] == 0:
            m.setTemperature(case['T0'])
        else:
            g, T0 = case['Tgrad'], case['T0']
            m.setTemperatureFunction(lambda z, t: T0 + g * z + t)
        for k, e in enumerate(els[1:]):
            m.setCompositionLinear(case['xl'][k], case['xr'][k], e)
        m.setup()
    used = []
    real_retrieve = m.hashTable.retrieveFromHashTable
    def logging_retrieve(x, T):
        r = real_retrieve(x, T)
        used.append(([float(v) for v in np.atleast_1d(x)], float(T), r))
        return r
    m.hashTable.retrieveFromHashTable = logging_retrieve
    s, on = 4, True
    events = []          # for the execution of cached_nodes inside Coq
    computed = []        # back-end points since the last clear, computed while caching was on
    computed_off = []    # ... while caching was off (must never come back)
    t = 0.0
    for st_op in case['steps']:
        kind = st_op['op']
        if kind == 'sens':
            m.setHashSensitivity(st_op['s']); s = st_op['s']      # kept entries must pass the cell test at the new precision
            events.append(('sens', s))
        elif kind == 'use':
            m.useCache(st_op['b']); on = st_op['b']
            events.append(('use', on))
        elif kind == 'clear':
            m.clearCache(); computed = []; computed_off = []
            events.append(('clear',))
        elif kind == 'perturb':
            m.x = np.clip(m.x + st_op['dx'] * np.sin(np.arange(m.x.size).reshape(m.x.shape) * 1.7 + st_op['ph']), 1e-6, 0.45)
        elif kind == 'time':
            t += st_op['dt']
        else:
            del used[:]
            n0 = len(st.calls)
            size0 = len(m.hashTable.cachedData)
            xin = m.x.copy()
            fl = m._getFluxes(t, [m.x])
            if not np.array_equal(xin, m.x):
                hits.append(('arguments_unchanged', 'mutation', '_getFluxes changed the composition array it was given'))
            new_calls = st.calls[n0:]
            T = m.temperatureParameters(m.z, t)
            if len(used) != m.N:
                hits.append(('cache_sound', 'lookups per node', '%d lookups for %d nodes' % (len(used), m.N)))
                continue
            vals = []
            srcs = []
            k = 0
            for i, (x, Ti, r) in enumerate(used):
                node = ([float(v) for v in m.x[:, i]], float(T[i]))
                if (x, Ti) != node:
                    hits.append(('cache_sound', 'lookup point', 'node %d looked up %r instead of its own composition and temperature %r' % (i, (x, Ti), node)))
                if r is None:
                    if k >= len(new_calls) or new_calls[k] != node:
                        hits.append(('cache_sound', 'backend point', 'node %d: the back end was not queried at the node' % i))
                        v = None
                    else:
                        v = st.f(*node)
                        (computed if on else computed_off).append(node)
                        srcs.append(node)
                    k += 1
                else:
                    v = r
                    if not on:
                        hits.append(('cache_disable', 'hit while caching is off', 'node %d received a stored value although useCache(False) was called' % i))
                    else:
                        src = [q for q in computed if np.array_equal(np.asarray(st.f(*q)), np.asarray(r))]
                        if src:
                            srcs.append(src[0])
                        if not src and any(np.array_equal(np.asarray(st.f(*q)), np.asarray(r)) for q in computed_off):
                            hits.append(('cache_disable', 'stored while caching is off', 'node %d received a value that was computed while caching was off' % i))
                        elif not src:
                            hits.append(('cache_sound', 'unknown value', 'node %d received a value that the back end did not compute since the table was emptied' % i))
                        elif not any(same_cell(q, node, s) for q in src):
                            q = src[0]
                            hits.append(('cache_sound', 'different key',
                                         'node %d at x=%r T=%r received the diffusivity computed at x=%r T=%r (%d digits kept)' % (i, node[0], node[1], q[0], q[1], s)))
                vals.append(v)
            if len(srcs) == m.N:
                events.append(('flux', [([float(v) for v in m.x[:, i]], float(T[i])) for i in range(m.N)], srcs, len(m.hashTable.cachedData)))
            else:
                events.append(('stop',))
            if not on:
                if len(new_calls) != m.N:
                    hits.append(('cache_disable', 'backend calls', 'caching is off but the back end was called %d times for %d nodes' % (len(new_calls), m.N)))
                if len(m.hashTable.cachedData) > size0:
                    hits.append(('cache_disable', 'stored while caching is off', 'caching is off but the table grew from %d to %d' % (size0, len(m.hashTable.cachedData))))
            if k != len(new_calls):
                hits.append(('cache_sound', 'backend calls', '%d back-end calls for %d misses' % (len(new_calls), k)))
            # the fluxes must be those of the diffusivities the nodes received
            if all(v is not None for v in vals):
                d = np.array(vals)
                dmid = (d[1:] + d[:-1]) / 2
                dxdz = (m.x[:, 1:] - m.x[:, :-1]) / m.dz
                ref = np.zeros((len(m.elements), m.N + 1))
                if len(m.elements) == 1:
                    ref[0, 1:-1] = -dmid * dxdz
                else:
                    for i in range(m.N - 1):
                        ref[:, i + 1] = -dmid[i] @ dxdz[:, i]
                if not np.allclose(fl[:, 1:-1], ref[:, 1:-1], rtol=1e-12, atol=0):
                    hits.append(('cache_sound', 'fluxes', 'the fluxes are not those of the diffusivities handed to the nodes'))
    return hits, events


def nodes_term(events):
    items = []
    for ev in events:
        if ev[0] == 'sens':
            items.append('NSens %s' % zlit(ev[1]))
        elif ev[0] == 'use':
            items.append('NUse %s' % boollit(ev[1]))
        elif ev[0] == 'clear':
            items.append('NClear')
        elif ev[0] == 'flux':
            pl = lambda l: '[' + '; '.join('(%s, %s)' % (flist(x), flit(T)) for x, T in l) + ']'
            items.append('NFlux %s %s %s' % (pl(ev[1]), pl(ev[2]), natlit(ev[3])))
        else:
            break
    return 'check_nodes [' + '; '.join(items) + ']'


def gen_singlephase(rng, quick):
    e = int(rng.choice([1, 2]))
    steps = []
    n = int(rng.integers(4, 10))
    for i in range(n):
        r = rng.random()
        if r < 0.15:
            steps.append({'op': 'sens', 's': int(rng.choice([2, 3, 4, 5, 6, 7, 8, 10]))})
        elif r < 0.3:
            steps.append({'op': 'use', 'b': bool(rng.random() < 0.5)})
        elif r < 0.35:
            steps.append({'op': 'clear'})
        elif r < 0.55:
            steps.append({'op': 'perturb', 'dx': float(10 ** rng.uniform(-9, -2)), 'ph': float(rng.uniform(0, 6))})
        elif r < 0.65:
            steps.append({'op': 'time', 'dt': float(10 ** rng.uniform(-6, 2))})
        else:
            steps.append({'op': 'flux'})
    steps.append({'op': 'flux'})
    xl = [float(v) for v in rng.uniform(0.01, 0.2, e)]
    xr = list(xl) if rng.random() < 0.3 else [float(v) for v in rng.uniform(0.01, 0.2, e)]     # flat profiles: nodes share compositions
    return {'part': 'singlephase', 'e': e, 'N': int(rng.integers(3, 12)), 'T0': float(rng.choice([900.0, 1173.15, 2200.0, float(rng.uniform(500, 2500))])),
            'Tgrad': float(rng.choice([0, 0, 1e3, 1e5, 3e5])), 'xl': xl, 'xr': xr, 'steps': steps}


def part_singlephase(ctx):
    n = 60 if ctx.quick else 600
    cases = corpus_cases('singlephase') + [gen_singlephase(ctx.rng, ctx.quick) for _ in range(n)]
    seen = set()
    nh = 0
    terms = []
    for c in cases:
        hits, events = run_singlephase(c)
        terms.append(nodes_term(events))
        ctx.count({'sp': c}, any(st['op'] == 'flux' for st in c['steps']))
        ctx.hist('singlephase_components', c['e'] + 1)
        nh += len(hits)
        for clause, cls, msg in hits:
            if (clause, cls) in seen:
                continue
            seen.add((clause, cls))
            ctx.violation(clause, {'site': SITE_SP, 'cls': cls},
                          {'kind': 'input', 'part': 'singlephase', 'input': c, 'observed': msg,
                           'oracle': 'every diffusivity a node receives is traced to the back-end call that produced it (harness/c09.py: run_singlephase)'}, msg)
    res = ctx.coq_eval('nodes', HEADER, terms, shard=8 if ctx.quick else 40)
    bad = [(c, r) for c, r in zip(cases, res) if r[0] is not None]
    ctx.notes['singlephase_runs'] = len(cases)
    ctx.sample({'singlephase_run': cases[-1]})
    ctx.notes['singlephase_oracle_hits'] = nh
    ctx.notes['singlephase_runs_stopped_at_a_cell_boundary'] = sum(r[1] for r in res)
    ctx.notes['singlephase_disagreements'] = len(bad)
    if bad and not nh:
        c, r = bad[0]
        ev, node = r[0][1]
        ctx.violation('correspondence', {'site': SITE_SP, 'cls': 'cached_nodes'},
                      {'broken': {'correspondence': 'coq/C09/Model.v cached_nodes vs kawin/diffusion/SinglePhase.py _getFluxes', 'event': ev, 'node': node},
                       'part': 'singlephase', 'input': c, 'disagreements': len(bad)},
                      'the diffusivity loop does not behave like cached_nodes (%d runs), e.g. event %d node %d' % (len(bad), ev, node), no_input=True)


# ==========================================================================================
# D. SAMPLING of the real pycalphad-backed objects (testing, not proof)
RTOL = 1e-8          # fresh vs warmed results agree to ~1e-9 (solver tolerance); stale caches show at 1e-5 or more
RTOL_DIFF = 1e-7     # diffusivities (and curvature factors / growth rates built on them) amplify the solver's convergence noise: up to 1.2e-8 observed
RTOL_CURVDF = 1e-5   # 'curvature' driving force = (x - xM) d2G/dx2 (xP - xM): second derivatives, up to 9e-7 observed between cold and warm starts
RTOL_DILUTE = 5e-6   # Al-Mg-Si: the equilibrium matrix holds 1e-5..1e-4 solute; curvature factors there carry 5e-7 of solver noise
def rtol_of(q, method=None, system=None):
    if q['q'] == 'DF' and method == 'curvature':
        return RTOL_CURVDF
    if system == 'ALMGSI' and q['q'] in ('CURV', 'GROW', 'IMP'):
        return RTOL_DILUTE
    return RTOL_DIFF if q['q'] in ('ID', 'TD', 'CURV', 'GROW', 'IMP') else RTOL      # all of these contain mobilities
SYSTEMS = {
    'ALZR': {'binary': True, 'prec': ['AL3ZR'], 'matrix': ['FCC_A1'], 'methods': ['tangent', 'approximate', 'sampling', 'curvature'],
             'x': [(0.002, 0.02)], 'und': [(1e-4, 4e-4)], 'T': (500.0, 850.0), 'queries': ['DF', 'DF', 'IC', 'ID', 'TD'], 'batch': ['IC', 'IC', 'DF', 'ID', 'TD']},
    'NICRAL': {'binary': False, 'prec': ['FCC_L12'], 'matrix': ['DIS_FCC_A1'], 'methods': ['tangent', 'approximate', 'sampling', 'curvature'],
               'x': [(0.05, 0.1), (0.1, 0.12)], 'und': [(0.05, 0.1), (0.03, 0.085)], 'T': (950.0, 1150.0), 'queries': ['DF', 'DF', 'ID', 'TD', 'CURV', 'GROW', 'IMP', 'ICM'],
               'batch': ['ICM', 'DF', 'ID', 'TD', 'GROW'], 'far': [(0.005, 0.03), (0.005, 0.04)],
               'far_gamma': [(0.1, 0.2), (0.03, 0.08)], 'near_solvus': [(0.07, 0.13), (0.08, 0.105)], 'T_wide': (900.0, 1250.0)},
    'ALMGSI': {'binary': False, 'prec': ['MGSI_B_P', 'MG5SI6_B_DP', 'B_PRIME_L', 'U1_PHASE', 'U2_PHASE'], 'matrix': ['FCC_A1'],
               'methods': ['tangent', 'sampling'], 'x': [(0.003, 0.01), (0.003, 0.01)], 'und': [(1e-4, 6e-4), (1e-4, 6e-4)], 'T': (420.0, 520.0),
               'queries': ['DF', 'DF', 'DF', 'GROW', 'ID', 'TD'], 'batch': ['DF', 'GROW', 'ID', 'TD'], 'far': [(1e-5, 2e-4), (1e-5, 2e-4)]},
    'FECRNI': {'binary': False, 'prec': [], 'matrix': ['FCC_A1', 'BCC_A2'], 'methods': ['tangent'],
               'x': [(0.1, 0.3), (0.05, 0.2)], 'T': (1100.0, 1500.0), 'queries': ['ID', 'TD'], 'batch': ['ID', 'TD']},
}


def norm_result(r):
    """query result -> list of float arrays / None"""
    if r is None:
        return [None]
    if isinstance(r, tuple):           # includes namedtuples
        return [None if v is None else np.array(v, dtype=float) for v in r]
    return [np.array(r, dtype=float)]


DF_FLOOR = 1000.0     # J/mol: a driving force is a difference of chemical-potential terms of 1e4..1e5 J/mol; its noise does not shrink with it


def floors_of(q):
    k = q.get('kind', q['q']) if q['q'] == 'batch' else q['q']
    return [DF_FLOOR, 0.0] if k == 'DF' else None


def same_result(a, b, rtol=RTOL, floors=None):
    """returns (ok, worst relative difference); floors[i] = smallest magnitude field i is compared against"""
    if len(a) != len(b):
        return False, float('inf')
    worst = 0.0
    for fi, (u, v) in enumerate(zip(a, b)):
        if u is None or v is None:
            if (u is None) != (v is None):
                return False, float('inf')
            continue
        if u.shape != v.shape:
            return False, float('inf')
        if u.size == 0:
            continue
        if not (np.all(np.isfinite(u)) and np.all(np.isfinite(v))):
            if not np.array_equal(np.isnan(u), np.isnan(v)):
                return False, float('inf')
            u, v = np.nan_to_num(u), np.nan_to_num(v)
        sc = max(float(np.max(np.abs(u))), float(np.max(np.abs(v))))
        if floors is not None and fi < len(floors):
            sc = max(sc, floors[fi])
        if sc == 0:
            continue
        worst = max(worst, float(np.max(np.abs(u - v))) / sc)
    return worst <= rtol, worst


def do_query(th, q, rm=None):
    """one public query; arrays are passed as numpy arrays so that in-place changes are visible.
    returns (normalised result, list of (argument name, before, after))"""
    rm = q.get('rm', False) if rm is None else rm
    k = q['q']
    args = {}
    def arr(name, v):
        a = np.array(v, dtype=float)
        args[name] = (a, a.copy())
        return a
    ph = q.get('ph')
    with quiet():
        if k == 'DF':
            r = th.getDrivingForce(arr('x', q['x']), arr('T', q['T']), precPhase=ph, removeCache=rm)
        elif k == 'ID':
            r = th.getInterdiffusivity(arr('x', q['x']), arr('T', q['T']), removeCache=rm, phase=ph)
        elif k == 'TD':
            r = th.getTracerDiffusivity(arr('x', q['x']), arr('T', q['T']), removeCache=rm, phase=ph)
        elif k == 'IC':
            r = th.getInterfacialComposition(arr('T', q['T']), arr('g', q['g']), precPhase=ph)
        elif k == 'ICM':
            r = th.getInterfacialComposition(arr('x', q['x']), arr('T', q['T']), arr('g', q['g']), precPhase=ph)
        elif k == 'CURV':
            r = th.curvatureFactor(arr('x', q['x']), arr('T', q['T']), precPhase=ph, removeCache=rm, computeSearchDir=bool(q.get('csd', False)))
        elif k == 'GROW':
            r = th.getGrowthAndInterfacialComposition(arr('x', q['x']), arr('T', q['T']), q['dG'], arr('R', q['R']), arr('g', q['g']),
                                                      precPhase=ph, removeCache=rm)
        elif k == 'IMP':
            r = th.impingementFactor(arr('x', q['x']), arr('T', q['T']), precPhase=ph, removeCache=rm)
        else:
            raise ValueError(k)
    changed = [(n, b.tolist(), a.tolist()) for n, (a, b) in args.items() if not np.array_equal(a, b)]
    res = norm_result(r)
    if k == 'CURV' and len(res) == 6 and res[2] is not None:
        # gba = inv(d2G_beta) d2G_alpha is dimensionless, O(1) for solution phases; for a stoichiometric precipitate the rank test
        # in _curvatureFactorFromEq is a knife edge and gba comes out as exact zeros or as 1e-14 noise: both mean zero
        res[2] = np.where(np.abs(res[2]) < 1e-8, 0.0, res[2])
    return res, changed


def gen_query(rng, system, pool):
    S = SYSTEMS[system]
    k = str(rng.choice(S['queries']))
    # points: a small pool (revisits, so that repetitions and returns after a temperature jump occur) or a new point
    r = rng.random()
    if pool and r < 0.35:
        x, T = pool[int(rng.integers(len(pool)))]
    elif pool and r < 0.55:
        # a temperature that differs from an earlier one by a relative 1e-9 .. 1e-4 (small time steps of a slow ramp, finite
        # differences in T): whatever is cached per temperature must be keyed by the exact temperature
        x, T = pool[int(rng.integers(len(pool)))]
        T = float(T * (1.0 + float(rng.choice([-1, 1])) * 10 ** rng.uniform(-9, -4)))
        if rng.random() < 0.5:
            x = [float(rng.uniform(lo, hi)) for lo, hi in S['x']]
        pool.append((x, T))
    else:
        x = [float(rng.uniform(lo, hi)) for lo, hi in S['x']]
        if k == 'DF' and 'und' in S and rng.random() < 0.35:
            # undersaturated matrix: the driving force is negative, a legitimate answer of the driving-force query
            # (solute contents below 1e-4 are avoided: there the solver's convergence noise exceeds 1e-8 of the driving force)
            x = [float(rng.uniform(lo, hi)) for lo, hi in S['und']]
        T = float(rng.uniform(*S['T']))
        pool.append((x, T))
    q = {'q': k, 'x': x[0] if S['binary'] else x, 'T': T, 'rm': bool(rng.random() < 0.3)}
    if k in ('DF', 'IC', 'ICM', 'CURV', 'GROW', 'IMP'):
        q['ph'] = str(rng.choice(S['prec']))
    if k in ('ID', 'TD'):
        q['ph'] = str(rng.choice(S['matrix'])) if len(S['matrix']) > 1 else None
    if k in ('IC', 'ICM'):
        n = int(rng.choice([1, 2, 4]))
        q['g'] = [float(v) for v in rng.uniform(0, 3000 if k == 'ICM' else 30000, n)]
        if k == 'IC':
            del q['x']
            if rng.random() < 0.3:
                q['T'] = [T + 5.0 * i for i in range(n)]
    if k == 'GROW':
        n = int(rng.choice([1, 3]))
        q['R'] = [float(v) for v in 10 ** rng.uniform(-9.5, -8, n)]
        q['g'] = [float(v) for v in rng.uniform(50, 2000, n)]
        q['dG'] = float(rng.uniform(200, 3000))
    return q


def gen_batch(rng, system):
    """one batched call with a temperature array of some pattern (repeated values, non-monotone, first == last with other
    values inside, ...); it is compared entry by entry with the single-point evaluations"""
    S = SYSTEMS[system]
    k = str(rng.choice(S['batch']))
    Tv = sorted(float(rng.uniform(*S['T'])) for _ in range(3))
    if rng.random() < 0.35:       # nearly equal temperatures in one array
        Tv = [Tv[0], float(Tv[0] * (1 + 10 ** rng.uniform(-9, -4))), float(Tv[0] * (1 - 10 ** rng.uniform(-9, -4)))]
    Ts = t_pattern(rng, [Tv[int(i)] for i in rng.permutation(3)])
    n = len(Ts)
    newx = lambda: [float(rng.uniform(lo, hi)) for lo, hi in S['x']]
    q = {'q': 'batch', 'kind': k, 'T': Ts, 'rm': bool(rng.random() < 0.3)}
    if k in ('DF', 'ID', 'TD'):
        xs = [newx() for _ in range(n)] if rng.random() < 0.6 else [newx()] * n
        if k == 'DF' and 'und' in S and rng.random() < 0.4:
            xs = list(xs)
            xs[int(rng.choice([0, 0, n - 1]))] = [float(rng.uniform(lo, hi)) for lo, hi in S['und']]      # an undersaturated entry
        q['x'] = [x[0] for x in xs] if S['binary'] else xs
        q['ph'] = str(rng.choice(S['prec'])) if k == 'DF' else (str(rng.choice(S['matrix'])) if len(S['matrix']) > 1 else None)
    elif k == 'IC':
        q['g'] = [float(v) for v in rng.uniform(0, 15000, n)] if rng.random() < 0.8 else [float(rng.uniform(0, 15000))] * n
        q['ph'] = str(rng.choice(S['prec']))
    elif k == 'ICM':
        q['x'] = newx()
        q['g'] = [float(v) for v in rng.uniform(0, 3000, n)]
        q['ph'] = str(rng.choice(S['prec']))
    elif k == 'GROW':
        q['x'] = newx()
        q['T'] = Ts[0]
        R = [float(v) for v in 10 ** rng.uniform(-9.5, -8, 3)]
        g = [float(v) for v in rng.uniform(50, 2000, 3)]
        idx = t_pattern(rng, [0, 1, 2])
        q['R'] = [R[i] for i in idx]
        q['g'] = [g[i] for i in idx]
        q['dG'] = float(rng.uniform(200, 3000))
        q['ph'] = str(rng.choice(S['prec']))
    return q


def batch_singles(q):
    """the single-point queries a batched call stands for"""
    k = q['kind']
    out = []
    n = len(q['R']) if k == 'GROW' else len(q['T'])
    for j in range(n):
        s1 = {'q': k, 'ph': q.get('ph'), 'rm': True}
        if k in ('DF', 'ID', 'TD'):
            s1.update(x=q['x'][j], T=q['T'][j])
        elif k == 'IC':
            s1.update(T=q['T'][j], g=q['g'][j])
        elif k == 'ICM':
            s1.update(x=q['x'], T=q['T'][j], g=q['g'][j])
        else:
            s1.update(x=q['x'], T=q['T'], R=q['R'][j], g=q['g'][j], dG=q['dG'])
        out.append(s1)
    return out


def gen_purity_history(rng, system, quick):
    S = SYSTEMS[system]
    method = str(rng.choice(S['methods']))
    ops, pool = [], []
    n = int(rng.integers(6, 12 if quick else 24))
    for i in range(n):
        r = rng.random()
        if r < 0.05:
            ops.append({'q': 'clear'})
        elif r < 0.12 and len(S['methods']) > 1:
            ops.append({'q': 'method', 'm': str(rng.choice(S['methods']))})
        elif r < 0.27:
            ops.append(gen_batch(rng, system))
        else:
            ops.append(gen_query(rng, system, pool))
    ops.append(gen_batch(rng, system))
    return {'part': 'purity', 'system': system, 'method': method, 'history': ops}


def gen_curv_history(rng, system, quick):
    """curvature / growth queries that mix removeCache=True and False, at points inside the two-phase region and FAR outside
    it (no tie-line: an object without history answers None)"""
    S = SYSTEMS[system]
    ops, pool = [], []
    ph = str(rng.choice(S['prec']))
    for i in range(int(rng.integers(5, 10 if quick else 18))):
        far = rng.random() < 0.35
        k = str(rng.choice(['CURV', 'GROW']))
        if far:
            wide = 'far_gamma' in S and rng.random() < 0.5       # Cr-rich single-phase gamma, wider temperature window
            x = [float(rng.uniform(lo, hi)) for lo, hi in (S['far_gamma'] if wide else S['far'])]
            T = float(rng.uniform(*(S['T_wide'] if wide else S['T'])))
        elif pool and rng.random() < 0.4:
            x, T = pool[int(rng.integers(len(pool)))]
        else:
            x = [float(rng.uniform(lo, hi)) for lo, hi in S['x']]
            T = float(rng.uniform(*S['T']))
            pool.append((x, T))
        q = {'q': k, 'x': x, 'T': T, 'ph': ph if rng.random() < 0.8 else str(rng.choice(S['prec'])),
             'rm': bool(rng.random() < (0.85 if far else 0.4))}
        if far:
            q['far'] = True
            if k == 'CURV' and rng.random() < 0.6:
                q['csd'] = True          # the query works out its own search direction (nested driving-force query)
        if k == 'GROW':
            m = int(rng.choice([1, 3]))
            q['R'] = [float(v) for v in 10 ** rng.uniform(-9.5, -8, m)]
            q['g'] = [float(v) for v in rng.uniform(50, 2000, m)]
            q['dG'] = float(rng.uniform(200, 3000))
        ops.append(q)
        if far and rng.random() < 0.8:
            # what a removeCache=True curvature query leaves behind must not show in the next driving force
            rr = rng.random()
            if 'near_solvus' in S and rr < 0.5:
                xs_ = [float(rng.uniform(lo, hi)) for lo, hi in S['near_solvus']]; T_ = float(rng.uniform(1100.0, 1250.0))
            else:
                xs_ = [float(rng.uniform(lo, hi)) for lo, hi in (S['und'] if rr < 0.75 else S['x'])]; T_ = float(rng.uniform(*S['T']))
            ops.append({'q': 'DF', 'x': xs_, 'T': T_, 'ph': q['ph'], 'rm': bool(rng.random() < 0.7)})
    return {'part': 'purity', 'system': system, 'method': 'tangent', 'history': ops}


class RefObject:
    """reference answers: a second object whose caches are dropped before every query (clearCache), validated
    against truly fresh objects on a budget"""
    def __init__(self, system, method):
        self.system, self.method = system, method
        self.obj = therm(system, method, fresh=True)
    def answer(self, q, method):
        if method != self.method:
            self.obj.setDrivingForceMethod(method)
            self.method = method
        self.obj.clearCache()
        if hasattr(self.obj, '_curvature_outputs'):
            from kawin.thermo.MultiTherm import CurvatureOutput
            self.obj._curvature_outputs = {p: CurvatureOutput() for p in self.obj.phases[1:]}
        return do_query(self.obj, q, rm=True)[0]


def run_purity(case, ref=None, budget_fresh=0):
    """run one history on a warmed object; every answer is compared with the reference.
    returns (hits [(clause, cls, message, index)], stats)"""
    system = case['system']
    warm = therm(system, case['method'], fresh=True)
    method = case['method']
    if ref is None:
        ref = RefObject(system, method)
    hits = []
    worst = 0.0
    nq = 0
    ood = 0
    answered = []
    for i, q in enumerate(case['history']):
        if q['q'] == 'clear':
            warm.clearCache()
            continue
        if q['q'] == 'method':
            warm.setDrivingForceMethod(q['m'])
            method = q['m']
            continue
        if q['q'] == 'batch':
            nq += 1
            k = q['kind']
            blabel = k + (' ' + method if k == 'DF' else '')
            singles = [ref.answer(s1, method) for s1 in batch_singles(q)]
            def out_of_range(want):
                if k in ('GROW',) and all(v is None for v in want):
                    return True
                if k == 'DF' and want[0] is None:
                    return True
                return k in ('IC', 'ICM') and want[0] is not None and bool(np.any(np.asarray(want[0]) < 0))
            skip = [out_of_range(w_) for w_ in singles]       # entries outside the stable range are not compared
            if all(skip):
                ood += 1
                continue
            bq = dict(q, q=k)
            try:
                bres, changed = do_query(warm, bq)
            except Exception as ex:
                hits.append(('no_internal_error', blabel + ' batch', 'batched query %d %r raised %s: %s' % (i, bq, type(ex).__name__, ex), i))
                break
            for name, before, after in changed:
                hits.append(('arguments_unchanged', '%s %s' % (k, name), 'batched query %d (%s) changed its argument %s from %r to %r' % (i, k, name, before, after), i))
            n_ = len(singles)
            for j, want in enumerate(singles):
                if skip[j]:
                    continue
                part = [None if a is None else (np.array(a[j]) if (a.ndim >= 1 and a.shape[0] == n_) else a) for a in bres]
                ok, w = same_result(part, [None if a is None else np.array(a) for a in want], rtol_of(bq, method, system), floors_of(bq))
                if not ok:
                    hits.append(('batch_is_pointwise', blabel,
                                 'entry %d of the batched call %d %r is %s, the single-point evaluation %r gives %s (relative difference %.3g)'
                                 % (j, i, {a: b for a, b in q.items() if a != 'q'}, short(part), batch_singles(q)[j], short(want), w), i))
                    break
                worst = max(worst, w)
            continue
        label = q['q'] + (' ' + method if q['q'] == 'DF' else '')
        try:
            got, changed = do_query(warm, q)
        except Exception as ex:
            hits.append(('no_internal_error', label, 'query %d %r raised %s: %s' % (i, q, type(ex).__name__, ex), i))
            break
        nq += 1
        for name, before, after in changed:
            hits.append(('arguments_unchanged', '%s %s' % (q['q'], name),
                         'query %d (%s) changed its argument %s from %r to %r' % (i, q['q'], name, before, after), i))
        want = ref.answer(q, method)
        # domain of the statement: points where the precipitate is stable.  Outside it kawin deliberately falls back
        # on the previous tie-line (curvature factors) or on another method (approximate / curvature driving force)
        # The statement quantifies over histories of queries IN THE STABLE RANGE (precipitate stable at the point).
        # A history ends at its first query outside it.
        outside = False
        if q['q'] in ('CURV', 'GROW', 'IMP') and all(v is None for v in want):
            outside = True
        if q['q'] == 'IMP' and not outside:
            # since 6b0eeda an object without a valid equilibrium answers 0 (no nucleation) instead of None: the point is outside
            # the stable range exactly when the curvature query of a fresh object has no answer there
            wc = ref.answer(dict(q, q='CURV'), method)
            if all(v is None for v in wc):
                outside = True
        if q['q'] in ('CURV', 'GROW') and not outside:
            # degenerate reference equilibrium: pycalphad's global minimiser pinned a solute of the matrix at its lower bound
            # (e.g. Al-Mg-Si at 421 K: x_Si = 2.5e-13); such a point has no usable tie-line, the history ends there
            ceq = want[4] if q['q'] == 'CURV' else want[3]
            if ceq is not None and np.any(np.abs(np.asarray(ceq, dtype=float)) < 1e-9):
                outside = True
        if q['q'] == 'DF' and want[0] is None:
            outside = True            # (a negative driving force is a regular answer: compared, and the history goes on)
        if q['q'] in ('IC', 'ICM') and want[0] is not None and np.any(np.asarray(want[0]) < 0):
            outside = True
        if outside:
            ood += 1
            if not (q.get('far') and q.get('rm') and q['q'] in ('CURV', 'GROW')):
                break
            # removeCache=True asks for an answer that owes nothing to cached equilibria: far outside the two-phase region it
            # is None on an object without history and must be None here too (compared below; the history goes on)
        ok, w = same_result(got, want, rtol_of(q, method, system), floors_of(q))
        if ok:
            worst = max(worst, w)
        else:
            hits.append(('history_independent', label,
                         'query %d %r on the warmed object returned %s, a fresh object returns %s (relative difference %.3g)'
                         % (i, {k: v for k, v in q.items()}, short(got), short(want), w), i))
        if budget_fresh > 0 and q['q'] != 'GROW':
            budget_fresh -= 1
            fresh = therm(system, method, fresh=True)
            tf = do_query(fresh, q, rm=True)[0]
            ok2, w2 = same_result(want, tf, rtol_of(q, method, system), floors_of(q))
            if not ok2:
                hits.append(('history_independent', 'clearCache ' + label,
                             'query %d %r: an object after clearCache() returns %s, a newly built object %s' % (i, q, short(want), short(tf)), i))
        # repeat the call: same answer
        try:
            again, _ = do_query(warm, q)
            ok3, w3 = same_result(got, again, rtol_of(q, method, system), floors_of(q))
            if not ok3:
                hits.append(('repeat_same', label, 'query %d %r returned %s and, repeated, %s' % (i, q, short(got), short(again)), i))
            else:
                worst = max(worst, w3)
        except Exception as ex:
            hits.append(('no_internal_error', label, 'repeated query %d raised %s' % (i, ex), i))
        if q['q'] in ('DF', 'ID', 'TD') and not isinstance(q['T'], list):
            answered.append((q, got, method))
    # batch = pointwise: the points of the history with the same kind / phase / method, in one call
    groups = {}
    for q, got, m in answered:
        if m == method:
            groups.setdefault((q['q'], q.get('ph')), []).append((q, got))
    for (k, ph), lst in groups.items():
        if len(lst) < 2:
            continue
        lst = lst[:4]
        bq = {'q': k, 'ph': ph, 'x': [q['x'] for q, _ in lst], 'T': [q['T'] for q, _ in lst], 'rm': False}
        try:
            bres, changed = do_query(warm, bq)
        except Exception as ex:
            hits.append(('no_internal_error', k + ' batch', 'batched query %r raised %s: %s' % (bq, type(ex).__name__, ex), len(case['history'])))
            continue
        for name, before, after in changed:
            hits.append(('arguments_unchanged', '%s %s' % (k, name), 'batched %s changed its argument %s' % (k, name), len(case['history'])))
        for j, (q, got) in enumerate(lst):
            part = [None if a is None else a[j] for a in bres]
            ok, w = same_result([None if a is None else np.array(a) for a in part], got, rtol_of(bq, method, system), floors_of(bq))
            if not ok:
                hits.append(('batch_is_pointwise', k + (' ' + method if k == 'DF' else ''),
                             'point %d of the batched %s call %r returned %s, alone it returned %s' % (j, k, bq, short(part), short(got)), len(case['history'])))
                break
            worst = max(worst, w)
    return classify_start_dependence(case, hits), {'queries': nq, 'worst': worst, 'out_of_domain': ood}


KF_START = 'DF tangent (Ni-Cr-Al gamma-prime, T > 1150 K or x_Cr > 0.1 in the kept-cache history: start-dependent parallel tangent)'


def classify_start_dependence(case, hits):
    """OPEN FINDING on the unchanged tree (known_findings.d/C09.json, C09-tangent-start-dependent): with cached composition sets kept
    (removeCache=False, the default) the parallel-tangent solve of the ordered gamma-prime phase is started from the set of the previous
    query and, outside the window T <= 1150 K, x_Cr <= 0.1, frequently ends in another solution.  Hits of exactly that kind get their
    own class; everything else (removeCache=True queries, other systems / methods, histories inside the window) keeps the generic one."""
    if case['system'] != 'NICRAL':
        return hits
    def wide(op):
        if op.get('q') not in ('DF', 'batch') or (op.get('q') == 'batch' and op.get('kind') != 'DF'):
            return False
        Ts = np.ravel(np.asarray(op['T'], dtype=float))
        xs = np.atleast_2d(np.asarray(op['x'], dtype=float))
        return bool(np.any(Ts > 1150.0) or np.any(xs[:, 0] > 0.1))
    out = []
    H = case['history']
    for clause, cls, msg, idx in hits:
        if cls == 'DF tangent' and clause in ('history_independent', 'repeat_same', 'batch_is_pointwise'):
            op = H[idx] if idx < len(H) else {'q': 'batch', 'kind': 'DF', 'rm': False}
            kept = not op.get('rm', False)
            # removeCache=True only keeps THIS query from storing its sets: it still starts from the set an earlier
            # removeCache=False driving-force query of the phase left behind
            for o in reversed(H[:min(idx, len(H))]):
                if o.get('q') in ('clear', 'method'):
                    break
                if (o.get('q') == 'DF' or (o.get('q') == 'batch' and o.get('kind') == 'DF')) and o.get('ph') == op.get('ph', o.get('ph')):
                    kept = kept or not o.get('rm', False)
                    break
            # the finding is "the solve started from the kept set ends in ANOTHER solution": the two answers are then grossly
            # different (other sign, or a factor above 5) - also, rarely, inside the window above (thorough tier, 1 of 12000)
            import re as _re
            vals = [float(v) for v in _re.findall(r'\(\[(-?[0-9][0-9.eE+-]*)\]', msg)[:2]]
            gross = len(vals) == 2 and (vals[0] * vals[1] < 0 or max(abs(vals[0]), abs(vals[1])) > 5 * min(abs(vals[0]), abs(vals[1])))
            if kept and (any(wide(o) for o in H[:idx + 1]) or gross):
                cls = KF_START
        out.append((clause, cls, msg, idx))
    return out


def short(r):
    out = []
    for a in r:
        if a is None:
            out.append('None')
        else:
            a = np.asarray(a, dtype=float).ravel()
            out.append('[' + ', '.join('%.10g' % v for v in a[:4]) + (', ...]' if a.size > 4 else ']'))
    return '(' + ', '.join(out) + ')'


def shrink_purity(case, clause, cls):
    """drop operations of the history while the same violation is still reported"""
    ops = list(case['history'])
    def fails(h):
        try:
            hits, _ = run_purity(dict(case, history=h))
        except Exception:
            return False
        return any(x[0] == clause and x[1] == cls for x in hits)
    i = len(ops) - 1
    tries = 0
    while i >= 0 and tries < 40:
        trial = ops[:i] + ops[i + 1:]
        tries += 1
        if trial and fails(trial):
            ops = trial
        i -= 1
    return dict(case, history=ops)


def part_purity(ctx):
    quick = ctx.quick
    plan = {'ALZR': 20, 'NICRAL': 8, 'ALMGSI': 5, 'FECRNI': 3} if quick else {'ALZR': 150, 'NICRAL': 60, 'ALMGSI': 30, 'FECRNI': 20}
    cases = corpus_cases('purity')
    for system, k in plan.items():
        cases += [gen_purity_history(ctx.rng, system, quick) for _ in range(k)]
    for system, k in ({'NICRAL': 5, 'ALMGSI': 4} if quick else {'NICRAL': 40, 'ALMGSI': 30}).items():
        cases += [gen_curv_history(ctx.rng, system, quick) for _ in range(k)]
    refs = {}
    seen = set()
    worst = 0.0
    nq = 0
    t_sys = {}
    fresh_budget = {s: (2 if quick else 12) for s in SYSTEMS}
    for c in cases:
        t0 = time.time()
        key = c['system']
        if key not in refs:
            refs[key] = RefObject(c['system'], c['method'])
        b = min(fresh_budget[key], 1)
        fresh_budget[key] -= b
        hits, st = run_purity(c, refs[key], budget_fresh=b)
        t_sys[key] = t_sys.get(key, 0) + time.time() - t0
        worst = max(worst, st['worst'])
        nq += st['queries']
        ctx.notes['purity_queries_outside_stable_range'] = ctx.notes.get('purity_queries_outside_stable_range', 0) + st['out_of_domain']
        ctx.count({'purity': c}, st['queries'] > 1)
        ctx.hist('purity_system', c['system'])
        for q in c['history']:
            ctx.hist('purity_query', q['q'] if q['q'] != 'batch' else 'batch ' + q['kind'])
            if q['q'] == 'batch' and isinstance(q['T'], list):
                Tq = q['T']
                ctx.hist('batch_T_pattern', 'all equal' if len(set(Tq)) == 1 else 'first == last, others inside' if Tq[0] == Tq[-1]
                         else 'repeated values' if len(set(Tq)) < len(Tq) else 'distinct, non-monotone' if Tq != sorted(Tq) and Tq != sorted(Tq, reverse=True) else 'distinct, monotone')
            if q.get('far'):
                ctx.hist('curvature_far_outside', 'removeCache=%s' % q['rm'])
        ctx.cov['traces_validated_against_impl'] += 1
        for clause, cls, msg, idx in hits:
            if (clause, cls) in seen:
                continue
            seen.add((clause, cls))
            small = dict(c, history=c['history'][:idx + 1]) if idx < len(c['history']) else c
            if not c.get('corpus'):
                small = shrink_purity(small, clause, cls)
                h2, _ = run_purity(small)
                m2 = [x[2] for x in h2 if x[0] == clause and x[1] == cls]
                msg = m2[0] if m2 else msg
            ctx.violation(clause, {'site': SITE_TH, 'cls': cls},
                          {'kind': 'input', 'part': 'purity', 'input': {k: small[k] for k in ('system', 'method', 'history')},
                           'observed': msg, 'oracle': 'every answer of the warmed object is compared with the answer of an object without history, '
                           'the repeated call and the batched call (relative tolerance %g, %g for diffusivities; harness/c09.py: run_purity)' % (RTOL, RTOL_DIFF)}, msg)
    ctx.notes['purity_histories'] = len(cases)
    ctx.sample({'purity_history': {k: cases[-1][k] for k in ('system', 'method', 'history')}})
    ctx.notes['purity_queries'] = nq
    ctx.notes['purity_worst_relative_difference_accepted'] = worst
    ctx.notes['purity_time_per_system_s'] = {k: round(v, 1) for k, v in t_sys.items()}


# ==========================================================================================
# C. cached composition sets: GeneralThermodynamics on a scripted pycalphad vs the model's state machine
METHODS = {'tangent': 'Tangent', 'sampling': 'Sampling', 'approximate': 'Approx'}


def gen_scripted_history(rng, quick):
    nph = 5
    xs = [int(v) for v in rng.choice(np.arange(0, 56), int(rng.integers(2, 6)), replace=False)]
    Ts = [int(v) for v in rng.choice(np.arange(600, 640), int(rng.integers(1, 4)), replace=False)]
    if rng.random() < 0.5:
        # temperatures that differ by a relative 1e-7 .. 1e-5: caches keyed by temperature must compare exactly
        Ts = [6000000 + t for t in Ts]
    m0 = str(rng.choice(list(METHODS)))
    ops = []
    if rng.random() < 0.4:
        # curvature-factor histories: few phases, removeCache on and off, points with a tie-line (x % 4 in {0, 2}), without
        # (x % 4 in {1, 3}), with a failing equilibrium (x % 7 == 3) and where the solver drops the precipitate (x % 5 == 1)
        allx = np.arange(0, 140)
        good = [int(v) for v in allx if v % 4 in (0, 2) and v % 7 not in (3, 5) and v % 5 != 1]
        pool = [int(rng.choice(good)), int(rng.choice(good)),
                int(rng.choice([v for v in allx if v % 7 == 3])), int(rng.choice([v for v in allx if v % 5 == 1 and v % 7 not in (3, 5)])),
                int(rng.choice([v for v in allx if v % 4 == 1 and v % 7 not in (3, 5)]))]
        phs_ = [1, 2] if rng.random() < 0.5 else [1]
        for i in range(int(rng.integers(5, 14 if quick else 30))):
            r = rng.random()
            if r < 0.05:
                ops.append({'q': 'clear'})
            else:
                k = 'CURV' if r < 0.85 else str(rng.choice(['DF', 'ID']))
                x = pool[int(rng.integers(0, 2))] if rng.random() < 0.5 else int(rng.choice(pool))
                ops.append({'q': k, 'x': x, 'T': int(rng.choice(Ts)), 'p': int(rng.choice(phs_)) if k != 'ID' else 0, 'rm': bool(rng.random() < 0.5)})
        return {'part': 'scripted', 'method': m0, 'history': ops}
    for i in range(int(rng.integers(5, 14 if quick else 30))):
        r = rng.random()
        if r < 0.05:
            ops.append({'q': 'clear'})
        elif r < 0.13:
            ops.append({'q': 'method', 'm': str(rng.choice(list(METHODS)))})
        else:
            k = str(rng.choice(['DF', 'DF', 'DF', 'ID', 'TD', 'CURV', 'CURV']))
            p = int(rng.integers(1, nph + 1)) if k in ('DF', 'CURV') else int(rng.integers(0, nph + 1))
            if rng.random() < 0.5:
                p = 1 if k in ('DF', 'CURV') else 0
            ops.append({'q': k, 'x': int(rng.choice(xs)), 'T': int(rng.choice(Ts)), 'p': p, 'rm': bool(rng.random() < 0.3)})
    return {'part': 'scripted', 'method': m0, 'history': ops}


def totuple(t):
    """parsed Coq tree -> ('N', tag, (kids...))"""
    if isinstance(t, tuple) and len(t) == 3 and t[0] == 'N':
        return ('N', int(t[1]), tuple(totuple(k) for k in t[2]))
    raise ValueError('not a tree: %r' % (t,))


def norm_state(t):
    """association lists of the state in a canonical order"""
    tag, kids = t[1], t[2]
    return ('N', tag, tuple(('N', k[1], tuple(sorted(k[2])) if k[1] in (41, 43, 44, 45, 46) else k[2]) for k in kids))


def run_scripted_impl(case):
    """the real GeneralThermodynamics on the scripted pycalphad; returns per query (answer, state)"""
    import c09_fake as F
    from kawin.thermo import MulticomponentThermodynamics
    import kawin.tests.datasets as D
    with quiet():
        th = MulticomponentThermodynamics(D.ALMGSI_DB, ['AL', 'MG', 'SI'], ['FCC_A1', 'MGSI_B_P', 'MG5SI6_B_DP', 'B_PRIME_L', 'U1_PHASE', 'U2_PHASE'],
                                   drivingForceMethod=case['method'])
    out = []
    with F.scripted(th) as w, quiet():
        for q in case['history']:
            try:
                if q['q'] == 'clear':
                    th.clearCache(); a = F.N(53)
                elif q['q'] == 'method':
                    th.setDrivingForceMethod(q['m']); a = F.N(53)
                else:
                    x, T, ph = [float(q['x']), 0.5], float(q['T']), th.phases[q['p']]
                    if q['q'] == 'DF':
                        a = F.answer_tree('DF', th.getDrivingForce(x, T, precPhase=ph, removeCache=q['rm']))
                    elif q['q'] == 'CURV':
                        a = F.answer_tree('CURV', th.curvatureFactor(x, T, precPhase=ph, removeCache=q['rm']))
                    elif q['q'] == 'ID':
                        a = F.answer_tree('ID', th.getInterdiffusivity(x, T, removeCache=q['rm'], phase=ph))
                    else:
                        a = F.answer_tree('TD', th.getTracerDiffusivity(x, T, removeCache=q['rm'], phase=ph))
                out.append((a, F.state_tree(th)))
            except Exception as ex:
                out.append((('ERR', '%s: %s' % (type(ex).__name__, ex)), None))
                break
        world = w
        # predictions are compared inside the world (ids): return a closure
        def judge(model_rows):
            F.W[0] = world
            try:
                dis = []
                for i, ((ia, ist), (ma, ms)) in enumerate(zip(out, model_rows)):
                    q = case['history'][i]
                    if isinstance(ia, tuple) and ia[0] == 'ERR':
                        dis.append('query %d %r: implementation raised %s' % (i, q, ia[1])); break
                    if isinstance(ia, tuple) and ia[0] == 'DF':
                        exp = F.expected_df(ma)
                        if exp is None or exp == 'unbuilt' or abs(exp[0] - ia[1]) > 1e-6 * max(1, abs(exp[0])) or exp[1] != ia[2]:
                            dis.append('query %d %r: implementation returned (%r, %r), model predicts %r' % (i, q, ia[1], ia[2], exp)); break
                    elif ia != ma:
                        dis.append('query %d %r: implementation answered %r, model %r' % (i, q, ia, ma)); break
                    if norm_state(ist) != norm_state(ms):
                        a, b = norm_state(ist), norm_state(ms)
                        which = [n for n, u, v in zip(('_compset_cache_df', '_matrix_cs', '_points_cache', '_diffusivity_cache', '_compset_cache_curvature', '_curvature_outputs'), a[2], b[2]) if u != v]
                        dis.append('after query %d %r the caches %s differ: implementation %r, model %r' % (i, q, which, [u for u, v in zip(a[2], b[2]) if u != v][0], [v for u, v in zip(a[2], b[2]) if u != v][0]))
                        break
                if len(out) != len(model_rows) and not dis:
                    dis.append('history of %d queries, implementation completed %d' % (len(model_rows), len(out)))
                return dis
            finally:
                F.W[0] = None
    return out, judge, world.calls


def scripted_term(case):
    qs = []
    for q in case['history']:
        if q['q'] == 'clear':
            qs.append('QClear')
        elif q['q'] == 'method':
            qs.append('QMethod %s' % METHODS[q['m']])
        else:
            c = {'DF': 'QDF', 'ID': 'QInter', 'TD': 'QTracer', 'CURV': 'QCurv'}[q['q']]
            qs.append('%s %s %s %s %s' % (c, zlit(q['x']), zlit(q['T']), natlit(q['p']), boollit(q['rm'])))
    return 's_trace (obj_init %s) [%s]' % (METHODS[case['method']], '; '.join(qs))


def part_scripted(ctx):
    n = 40 if ctx.quick else 400
    cases = corpus_cases('scripted') + [gen_scripted_history(ctx.rng, ctx.quick) for _ in range(n)]
    runs = [run_scripted_impl(c) for c in cases]
    res = ctx.coq_eval('scripted', HEADER, [scripted_term(c) for c in cases], shard=4 if ctx.quick else 16)
    dis = []
    ncalls = 0
    for c, (out, judge, calls), rows in zip(cases, runs, res):
        model_rows = [(totuple(a), totuple(st)) for a, st in rows]
        d = judge(model_rows)
        ncalls += calls
        nontriv = sum(1 for q in c['history'] if q['q'] in ('DF', 'ID', 'TD', 'CURV')) > 2
        ctx.count({'scripted': c}, nontriv)
        ctx.hist('scripted_method', c['method'])
        ctx.cov['traces_validated_against_impl'] += 1
        for q in c['history']:
            ctx.hist('scripted_query', q['q'])
        if d:
            dis.append((c, d[0]))
    ctx.notes['scripted_histories'] = len(cases)
    ctx.notes['scripted_solver_calls'] = ncalls
    ctx.notes['scripted_disagreements'] = len(dis)
    if cases:
        ctx.sample({'scripted_history': cases[-1]})
    if dis:
        c, d = dis[0]
        ctx.violation('correspondence', {'site': SITE_TH, 'cls': 'scripted pycalphad'},
                      {'broken': {'correspondence': 'coq/C09/Model.v (part C) vs kawin/thermo/Thermodynamics.py + LocalEquilibrium.py on a scripted pycalphad',
                                  'first_disagreement': d}, 'part': 'scripted', 'input': c, 'disagreements': len(dis)},
                      'cache state machine and implementation disagree (%d histories), e.g. %s' % (len(dis), d[:600]), no_input=True)
    return len(dis)


# ==========================================================================================
# ==========================================================================================
# F. no call modifies the arrays passed to it: every public query, every array-capable argument, every aliasing layout
LAYOUTS_1D = ['plain', '0d', 'slice', 'negstride', 'column', 'f32', 'i64']
LAYOUTS_2D = ['plain', 'slice', 'transposed', 'fortran', 'negstride', 'colslice']


def build_arg(spec):
    """spec = {'values': nested list, 'layout': ...} -> (array to pass, base array whose memory it shares).
    Every layout except the dtype ones is a float64 VIEW that np.atleast_1d / atleast_2d / .T pass on without copying."""
    v = spec['values']
    lay = spec['layout']
    a = np.array(v, dtype=np.float64)
    if lay == 'f32':
        arr = np.array(v, dtype=np.float32); return arr, arr
    if lay == 'i64':
        arr = np.array(v, dtype=np.int64); return arr, arr
    if lay == '0d' or a.ndim == 0:
        arr = np.array(a.reshape(-1)[0] if a.size == 1 else a); return arr, arr
    if lay == 'plain':
        return a, a
    if a.ndim == 1:
        n = len(a)
        if lay == 'slice':
            base = np.full(2 * n + 1, 0.5); view = base[1::2]
        elif lay == 'negstride':
            base = np.full(n, 0.5); view = base[::-1]
        elif lay == 'column':
            base = np.full((n, 3), 0.5); view = base[:, 1]
        else:
            return a, a
        view[...] = a
        return view, base
    r, c = a.shape
    if lay == 'slice':
        base = np.full((r + 2, c), 0.5); view = base[1:-1]
    elif lay == 'transposed':
        base = np.full((c, r), 0.5); view = base.T
    elif lay == 'fortran':
        base = np.asfortranarray(np.full((r, c), 0.5)); view = base
    elif lay == 'negstride':
        base = np.full((r, c), 0.5); view = base[::-1]
    elif lay == 'colslice':
        base = np.full((r, 2 * c), 0.5); view = base[:, ::2]
    else:
        return a, a
    view[...] = a
    return view, base


def bits(a):
    return (str(a.dtype), a.shape, a.tobytes())


def describe_change(name, before, arr):
    b = np.frombuffer(before[2], dtype=before[0]).reshape(before[1]) if before[1] != () else np.frombuffer(before[2], dtype=before[0])
    a = np.asarray(arr)
    if b.shape != a.shape:
        return '%s changed shape' % name
    idx = [i for i in np.ndindex(a.shape) if a[i].tobytes() != b[i].tobytes()] if a.shape != () else [()]
    return '%s%r: %r -> %r' % (name, tuple(idx[0]), (b[idx[0]] if a.shape != () else b.reshape(-1)[0]).item(), (a[idx[0]] if a.shape != () else a.reshape(-1)[0]).item())


MUT_QUERIES = {
    # query -> (argument names in call order, which are arrays)
    '_process_xT_arrays': ['x', 'T'], '_process_TG_arrays': ['T', 'g'], '_process_x': ['x'],
    'getDrivingForce': ['x', 'T'], 'getInterdiffusivity': ['x', 'T'], 'getTracerDiffusivity': ['x', 'T'],
    'getInterfacialComposition': ['T', 'g'], 'getInterfacialComposition_multi': ['x', 'T', 'g'],
    'curvatureFactor': ['x', 'T'], 'impingementFactor': ['x', 'T'], 'getGrowthAndInterfacialComposition': ['x', 'T', 'R', 'g'],
    'computeMobility': ['x', 'T'], 'computeHomogenizationFunction': ['x', 'T'],
    'HashTable.add_retrieve': ['x', 'T'],
}


def mut_call(system, query, specs, recorders):
    """perform one call; returns list of (argument, description of the change); exceptions of the call are not the subject here
    (an argument must be left alone also by a call that fails)"""
    from kawin.thermo.utils import _process_xT_arrays, _process_TG_arrays, _process_x
    built = {n: build_arg(sp) for n, sp in specs.items()}
    before = {n: (bits(arr), bits(base)) for n, (arr, base) in built.items()}
    A = {n: arr for n, (arr, base) in built.items()}
    binary = SYSTEMS[system]['binary'] if system in SYSTEMS else True
    err = None
    try:
        with quiet():
            if query == '_process_xT_arrays':
                _process_xT_arrays(A['x'], A['T'], binary)
            elif query == '_process_TG_arrays':
                _process_TG_arrays(A['T'], A['g'])
            elif query == '_process_x':
                _process_x(A['x'], 2 if binary else 3)
            elif query == 'HashTable.add_retrieve':
                from kawin.diffusion.DiffusionParameters import HashTable
                h = HashTable()
                h.addToHashTable(A['x'], float(np.ravel(A['T'])[0]), 1)
                h.retrieveFromHashTable(A['x'], float(np.ravel(A['T'])[0]))
            else:
                th = mut_object(system, recorders)
                ph = SYSTEMS[system]['prec'][0] if SYSTEMS[system]['prec'] else None
                if query in ('getDrivingForce',):
                    th.getDrivingForce(A['x'], A['T'], precPhase=ph)
                elif query == 'getInterdiffusivity':
                    th.getInterdiffusivity(A['x'], A['T'])
                elif query == 'getTracerDiffusivity':
                    th.getTracerDiffusivity(A['x'], A['T'])
                elif query == 'getInterfacialComposition':
                    th.getInterfacialComposition(A['T'], A['g'], precPhase=ph)
                elif query == 'getInterfacialComposition_multi':
                    th.getInterfacialComposition(A['x'], A['T'], A['g'], precPhase=ph)
                elif query == 'curvatureFactor':
                    th.curvatureFactor(A['x'], A['T'], precPhase=ph, removeCache=True)
                elif query == 'impingementFactor':
                    th.impingementFactor(A['x'], A['T'], precPhase=ph, removeCache=True)
                elif query == 'getGrowthAndInterfacialComposition':
                    th.getGrowthAndInterfacialComposition(A['x'], A['T'], 900.0, A['R'], A['g'], precPhase=ph, removeCache=True)
                elif query == 'computeMobility':
                    from kawin.diffusion.DiffusionParameters import computeMobility, HashTable
                    computeMobility(th, A['x'], A['T'], HashTable())
                elif query == 'computeHomogenizationFunction':
                    import importlib
                    HP = importlib.import_module('kawin.diffusion.HomogenizationParameters')
                    from kawin.diffusion.DiffusionParameters import HashTable
                    HP.computeHomogenizationFunction(th, A['x'], A['T'], HP.HomogenizationParameters(), HashTable())
                else:
                    raise ValueError(query)
    except Exception as ex:
        err = '%s: %s' % (type(ex).__name__, str(ex)[:120])
    changed = []
    for n, (arr, base) in built.items():
        if bits(arr) != before[n][0]:
            changed.append((n, describe_change(n, before[n][0], arr)))
        elif bits(base) != before[n][1]:
            changed.append((n, '%s: memory of the array it is a view of was changed' % n))
    return changed, err


_MUT_OBJ = {}


def mut_object(system, recorders):
    """thermodynamics object; with recorders=True the single-point back ends are replaced (no pycalphad evaluation), so that
    hundreds of layouts can be passed through the public wrappers"""
    key = (system, recorders)
    if key in _MUT_OBJ:
        return _MUT_OBJ[key]
    th = therm(system, fresh=True)
    if recorders:
        n = th.numElements
        th._drivingForce = lambda xi, Ti, p, rm, l: (1.0, np.ones(max(1, n - 1)))
        th._interdiffusivitySingle = lambda xi, Ti, removeCache=True, phase=None: np.array(1.0)
        th._tracerDiffusivitySingle = lambda xi, Ti, removeCache=True, phase=None: np.ones(n)
        if SYSTEMS[system]['binary']:
            th._interfacialComposition = lambda T, g, p: (np.squeeze(np.atleast_1d(g) * 0 + 0.5), np.squeeze(np.atleast_1d(g) * 0 + 0.25))
        else:
            th._interfacialComposition = lambda x, T, g, p: (np.ones(n), np.ones(n))
            th._getCompositionSetsEq = lambda *a, **k: None
    _MUT_OBJ[key] = th
    return th


X_EXTREMES = [0.0, -0.0, 1e-12, 5e-324, 1e-10, 1.0]


def gen_mut_case(rng, real):
    """one call: a query, and for each array-capable argument values (including the extremes the API accepts: exact 0, -0, values
    below 1e-10, 1, repeated values) and an aliasing layout"""
    system = str(rng.choice(['ALZR', 'NICRAL'] if not real else ['ALZR', 'NICRAL', 'FECRNI']))
    S = SYSTEMS[system]
    binary = S['binary']
    if binary:
        qs = ['_process_xT_arrays', '_process_TG_arrays', '_process_x', 'getDrivingForce', 'getInterdiffusivity', 'getTracerDiffusivity',
              'getInterfacialComposition', 'computeMobility', 'HashTable.add_retrieve']
    elif system == 'NICRAL':
        qs = ['_process_xT_arrays', '_process_x', 'getDrivingForce', 'getInterdiffusivity', 'getTracerDiffusivity', 'getInterfacialComposition_multi',
              'curvatureFactor', 'impingementFactor', 'getGrowthAndInterfacialComposition', 'computeMobility', 'computeHomogenizationFunction',
              'HashTable.add_retrieve']
    else:
        qs = ['getInterdiffusivity', 'getTracerDiffusivity', 'computeMobility', 'computeHomogenizationFunction']
    if real:
        qs = [q for q in qs if not q.startswith(('_process', 'HashTable'))]
    query = str(rng.choice(qs))
    single = query in ('curvatureFactor', 'impingementFactor', 'getGrowthAndInterfacialComposition', 'getInterfacialComposition_multi', '_process_x', 'HashTable.add_retrieve')
    N = 1 if single else int(rng.choice([1, 2, 3, 4]))
    e = 1 if binary else 2
    def comp():
        row = [float(rng.uniform(lo, hi)) for lo, hi in S['x']]
        k = rng.random()
        if k < 0.55:
            j = int(rng.integers(e))
            row[j] = float(rng.choice(X_EXTREMES if not real else [0.0, -0.0, 1e-12, 5e-324]))
        elif k < 0.65:
            row = [0.0] * e
        return row
    rows = [comp() for _ in range(N)]
    if N > 1 and rng.random() < 0.3:
        rows[-1] = list(rows[0])                  # repeated values
    specs = {}
    names = MUT_QUERIES[query]
    if 'x' in names:
        if binary:
            shape = str(rng.choice(['vec', 'col', 'row', '0d'])) if not single else str(rng.choice(['vec', '0d']))
            flat = [r[0] for r in rows]
            if shape == '0d' or (single and shape == 'vec' and rng.random() < 0.5):
                specs['x'] = {'values': flat[0], 'layout': '0d'}
                rows = rows[:1]
            elif shape == 'vec':
                specs['x'] = {'values': flat, 'layout': str(rng.choice([l for l in LAYOUTS_1D if l not in ('0d', 'i64')]))}
            elif shape == 'col':
                specs['x'] = {'values': [[v] for v in flat], 'layout': str(rng.choice(LAYOUTS_2D))}
            else:
                specs['x'] = {'values': [flat], 'layout': str(rng.choice(LAYOUTS_2D))}
        else:
            if len(rows) == 1 and rng.random() < 0.6:
                specs['x'] = {'values': rows[0], 'layout': str(rng.choice([l for l in LAYOUTS_1D if l not in ('0d', 'i64')]))}
            else:
                specs['x'] = {'values': rows, 'layout': str(rng.choice(LAYOUTS_2D))}
    n = len(rows)
    T0 = float(rng.uniform(*S['T']))
    def vec(vals, allow0d=True):
        vals = list(vals)
        if len(vals) == 1 and allow0d and rng.random() < 0.5:
            return {'values': vals[0], 'layout': '0d'}
        return {'values': vals, 'layout': str(rng.choice([l for l in LAYOUTS_1D if l != '0d']))}
    if 'T' in names:
        if query in ('getInterfacialComposition', 'getInterfacialComposition_multi', '_process_TG_arrays'):
            m = int(rng.choice([1, 2, 3]))
            Ts = [T0] * m if rng.random() < 0.6 else [float(int(T0)) + 10.0 * i for i in range(m)]
            specs['T'] = vec(Ts)
            gs = [float(rng.choice([0.0, -0.0, 100.0, 100.0, 2500.0, 1e-12])) for _ in range(m)]
            specs['g'] = vec(gs)
        else:
            Ts = [float(int(T0))] * n if rng.random() < 0.5 else [float(int(T0)) + 10.0 * (i % 2) for i in range(n)]
            specs['T'] = vec(Ts if rng.random() < 0.7 else Ts[:1])
    if 'R' in names:
        m = int(rng.choice([1, 3]))
        specs['R'] = vec([float(rng.choice([1e-9, 1e-9, 3e-9, 5e-10])) for _ in range(m)])
        specs['g'] = vec([float(rng.choice([0.0, -0.0, 500.0, 500.0, 1500.0])) for _ in range(m)])
    for sp in specs.values():         # integer / float32 layouts need representable values
        if sp['layout'] == 'i64':
            sp['values'] = [int(v) for v in sp['values']] if isinstance(sp['values'], list) else int(sp['values'])
    return {'part': 'mutation', 'system': system, 'query': query, 'args': specs, 'real': bool(real)}


def part_nonmutation(ctx):
    quick = ctx.quick
    cases = corpus_cases('mutation')
    cases += [gen_mut_case(ctx.rng, False) for _ in range(500 if quick else 5000)]
    cases += [gen_mut_case(ctx.rng, True) for _ in range(50 if quick else 500)]
    seen = set()
    nerr = 0
    t_real = 0.0
    for c in cases:
        t0 = time.time()
        changed, err = mut_call(c['system'], c['query'], c['args'], recorders=not c.get('real'))
        if c.get('real'):
            t_real += time.time() - t0
        nerr += 1 if err else 0
        ctx.count({'mut': c}, any(isinstance(sp['values'], list) for sp in c['args'].values()))
        ctx.hist('nonmutation_query', c['query'] + (' (pycalphad)' if c.get('real') else ''))
        for n, sp in c['args'].items():
            ctx.hist('nonmutation_layout', '%s %s' % (n, sp['layout']))
        for name, what in changed:
            cls = '%s %s' % (c['query'], name)
            if cls in seen:
                continue
            seen.add(cls)
            small = shrink_mut(c, name)
            ctx.violation('arguments_unchanged', {'site': SITE_TH, 'cls': cls},
                          {'kind': 'input', 'part': 'mutation', 'input': small,
                           'call': render_call(small), 'observed': what,
                           'oracle': 'bitwise comparison (dtype, shape, bytes; for views also the memory they share) of every array argument before and after the call'},
                          '%s modified its argument %s (%s): %s' % (c['query'], name, what, render_call(small)))
    ctx.notes['nonmutation_calls'] = len(cases)
    ctx.notes['nonmutation_calls_that_raised'] = nerr
    ctx.notes['nonmutation_time_pycalphad_s'] = round(t_real, 1)
    ctx.sample({'nonmutation_call': render_call(cases[-1])})


def render_call(c):
    def r(sp):
        return 'np.array(%r)%s' % (sp['values'], '' if sp['layout'] == 'plain' else ' as %s' % sp['layout'])
    return '%s[%s%s](%s)' % (c['query'], c['system'], '' if c.get('real') else ', recording back ends', ', '.join('%s=%s' % (n, r(sp)) for n, sp in c['args'].items()))


def shrink_mut(c, name):
    """simplify: plain layouts for the other arguments, then fewer rows, while the same argument is still modified"""
    def fails(d):
        ch, _ = mut_call(d['system'], d['query'], d['args'], recorders=not d.get('real'))
        return any(n == name for n, _ in ch)
    cur = c
    for n in c['args']:
        if n != name and cur['args'][n]['layout'] not in ('plain', '0d'):
            d = copy.deepcopy(cur); d['args'][n]['layout'] = 'plain'
            try:
                if fails(d):
                    cur = d
            except Exception:
                pass
    d = copy.deepcopy(cur)
    if d['args'][name]['layout'] not in ('plain', '0d'):
        d['args'][name]['layout'] = 'plain'
        try:
            if fails(d):
                cur = d
        except Exception:
            pass
    return cur


# ==========================================================================================
# G. calling conventions: the same points passed as Python scalars, numpy scalars, 0-d arrays, lists, tuples, 1-d arrays, of float
#    or integer dtype, with optional arguments omitted / by keyword / positional, must reach the single-point back ends as the same
#    points with the same options, and return the same values
CONV_REC = []


def conv_object(system):
    """object whose single-point back ends record the exact values and options they receive"""
    key = ('conv', system)
    if key in _MUT_OBJ:
        return _MUT_OBJ[key]
    th = therm(system, fresh=True)
    n = th.numElements
    fl = lambda v: [float(u) for u in np.ravel(np.asarray(v, dtype=float))]
    def df(xi, Ti, precPhase, removeCache, lpsc):
        CONV_REC.append(('_drivingForce', fl(xi), float(Ti), precPhase, bool(removeCache)))
        return float(Ti) + 1000.0 * sum(fl(xi)), np.array(fl(xi)[:max(1, n - 1)]) * 0.5 + 0.25
    def idf(xi, Ti, removeCache=True, phase=None):
        CONV_REC.append(('_interdiffusivitySingle', fl(xi), float(Ti), phase, bool(removeCache)))
        return np.array(float(Ti) * 1e-17 + sum(fl(xi)) * 1e-14)
    def tdf(xi, Ti, removeCache=True, phase=None):
        CONV_REC.append(('_tracerDiffusivitySingle', fl(xi), float(Ti), phase, bool(removeCache)))
        return np.full(n, float(Ti) * 1e-17 + sum(fl(xi)) * 1e-14)
    th._drivingForce = df
    th._interdiffusivitySingle = idf
    th._tracerDiffusivitySingle = tdf
    if SYSTEMS[system]['binary']:
        def ic(T, g, precPhase):
            CONV_REC.append(('_interfacialComposition', float(T), fl(g), precPhase))
            g = np.atleast_1d(np.asarray(g, dtype=float))
            return np.squeeze(g * 1e-9 + float(T) * 1e-7), np.squeeze(g * 0 + 0.25)
        th._interfacialComposition = ic
    else:
        def icm(x, T, g, precPhase):
            CONV_REC.append(('_interfacialComposition', fl(x), float(T), float(g), precPhase))
            return np.array([float(g) * 1e-9 + float(T) * 1e-7] * n), np.full(n, 0.25)
        def eq(x, T, precPhase, cache=None):
            CONV_REC.append(('_getCompositionSetsEq', fl(x), float(T), precPhase))
            return np.ones(n), None, None            # matrix only: the two-phase search is entered
        th._interfacialComposition = icm
        th._getCompositionSetsEq = eq
    _MUT_OBJ[key] = th
    return th


def conv_value(v, style):
    """the value v (float, list of floats, list of lists) in one of the conventions"""
    if isinstance(v, list) and v and isinstance(v[0], list):
        return {'list': v, 'tuple': tuple(tuple(r) for r in v), 'arr': np.array(v, dtype=float),
                'arr_f32': np.array(v, dtype=np.float32)}[style]
    if isinstance(v, list):
        return {'list': list(v), 'tuple': tuple(v), 'arr': np.array(v, dtype=float), 'arr_f32': np.array(v, dtype=np.float32),
                'list_int': [int(u) for u in v], 'arr_int': np.array([int(u) for u in v], dtype=np.int64)}[style]
    return {'pyfloat': float(v), 'npfloat': np.float64(v), '0d': np.array(float(v)), 'list1': [float(v)], 'tuple1': (float(v),),
            'arr1': np.array([float(v)]), 'arr1_f32': np.array([v], dtype=np.float32),
            'pyint': int(v), 'npint': np.int64(int(v)), '0d_int': np.array(int(v)), 'arr1_int': np.array([int(v)], dtype=np.int64),
            'list1_int': [int(v)]}[style]


def conv_styles(v, allow_wrap=True):
    integral = lambda u: float(u) == int(u)
    if isinstance(v, list) and v and isinstance(v[0], list):
        return ['list', 'tuple', 'arr', 'arr_f32']
    if isinstance(v, list):
        st = ['list', 'tuple', 'arr', 'arr_f32']
        if all(integral(u) for u in v):
            st += ['list_int', 'arr_int']
        return st
    st = ['pyfloat', 'npfloat', '0d'] + (['list1', 'tuple1', 'arr1', 'arr1_f32'] if allow_wrap else [])
    if integral(v):
        st += ['pyint', 'npint', '0d_int'] + (['arr1_int', 'list1_int'] if allow_wrap else [])
    return st


def gen_conv_case(rng):
    """a query, its points (values exactly representable in float32, temperatures not whole kelvins, Gibbs-Thomson energies
    whole numbers) and its options"""
    system = str(rng.choice(['ALZR', 'NICRAL']))
    binary = SYSTEMS[system]['binary']
    qs = ['getDrivingForce', 'getInterdiffusivity', 'getTracerDiffusivity', 'getInterfacialComposition'] if binary else \
         ['getDrivingForce', 'getInterdiffusivity', 'getTracerDiffusivity', 'getInterfacialComposition_multi', 'curvatureFactor',
          'impingementFactor', 'getGrowthAndInterfacialComposition']
    q = str(rng.choice(qs))
    xv = [0.0625, 0.09375, 0.125, 0.03125, 0.0078125]
    Tv = [1073.5, 1050.25, 998.75, 1100.0, 900.0]
    gv = [0.0, 50.0, 100.0, 200.0, 1000.0]
    single = q in ('curvatureFactor', 'impingementFactor', 'getGrowthAndInterfacialComposition', 'getInterfacialComposition_multi')
    N = 1 if single else int(rng.choice([1, 1, 2, 3]))
    pt = lambda: float(rng.choice(xv)) if binary else [float(rng.choice(xv)), float(rng.choice(xv))]
    c = {'part': 'conventions', 'system': system, 'query': q, 'rm': str(rng.choice(['default', 'True', 'False'])),
         'ph': str(rng.choice(['default', 'explicit']))}
    if q in ('getInterfacialComposition', 'getInterfacialComposition_multi'):
        m = int(rng.choice([1, 1, 2, 3]))
        c['g'] = [float(rng.choice(gv)) for _ in range(m)] if m > 1 else float(rng.choice(gv))
        k = rng.random()
        c['T'] = float(rng.choice(Tv)) if (k < 0.6 or m == 1) else ([float(rng.choice(Tv))] * m if k < 0.8 else [float(rng.choice(Tv)) for _ in range(m)])
        if q == 'getInterfacialComposition_multi':
            c['x'] = pt()
    else:
        pts = [pt() for _ in range(N)]
        c['x'] = pts[0] if N == 1 else pts
        c['T'] = float(rng.choice(Tv)) if (N == 1 or rng.random() < 0.5) else [float(rng.choice(Tv)) for _ in range(N)]
        if q == 'getGrowthAndInterfacialComposition':
            m = int(rng.choice([1, 3]))
            c['R'] = [float(rng.choice([1.0, 2.0, 4.0])) * 2.0 ** -30 for _ in range(m)] if m > 1 else 2.0 ** -30
            c['g'] = [float(rng.choice(gv)) for _ in range(m)] if m > 1 else float(rng.choice(gv))
            c['dG'] = 900.0
        if q == 'curvatureFactor':
            c['csd'] = bool(rng.random() < 0.5)
    return c


def conv_call(c, styles, optstyle, record=True, th=None):
    """perform the call of case c with the given convention per argument; returns (recorded back-end calls, output, error)"""
    system, q = c['system'], c['query']
    th = conv_object(system) if th is None else th
    ph_def = th.phases[1] if len(th.phases) > 1 else None
    a = {n: conv_value(c[n], styles[n]) for n in styles}
    rm = {'default': None, 'True': True, 'False': False}[c['rm']]
    # options: omitted / keyword / positional
    if q in ('getDrivingForce', 'curvatureFactor', 'impingementFactor'):
        pos = [a['x'], a['T']]; opt = [('precPhase', ph_def if c['ph'] == 'explicit' else None), ('removeCache', rm)]
        if q == 'curvatureFactor':
            opt += [('searchDir', None), ('computeSearchDir', True if c.get('csd') else None)]
        if q == 'impingementFactor':
            opt += [('searchDir', None)]
    elif q in ('getInterdiffusivity', 'getTracerDiffusivity'):
        pos = [a['x'], a['T']]; opt = [('removeCache', rm), ('phase', th.phases[0] if c['ph'] == 'explicit' else None)]
    elif q == 'getInterfacialComposition':
        pos = [a['T']]; opt = [('gExtra', a['g']), ('precPhase', ph_def if c['ph'] == 'explicit' else None)]
    elif q == 'getInterfacialComposition_multi':
        pos = [a['x'], a['T']]; opt = [('gExtra', a['g']), ('precPhase', ph_def if c['ph'] == 'explicit' else None)]
    else:
        pos = [a['x'], a['T'], c['dG'], a['R'], a['g']]; opt = [('precPhase', ph_def if c['ph'] == 'explicit' else None), ('removeCache', rm), ('searchDir', None)]
    defaults = {'precPhase': None, 'removeCache': {'getDrivingForce': False, 'curvatureFactor': False, 'impingementFactor': False,
                                                   'getGrowthAndInterfacialComposition': False}.get(q, True),
                'phase': None, 'searchDir': None, 'computeSearchDir': False, 'gExtra': 0}
    args, kwargs = list(pos), {}
    if optstyle == 'positional':
        vals = [(defaults[n] if v is None else v) for n, v in opt]
        # trailing options that are at their default may be left out
        args += vals
    elif optstyle == 'keyword':
        kwargs = {n: (defaults[n] if v is None else v) for n, v in opt}
    else:   # omitted where the default is meant, keyword otherwise
        kwargs = {n: v for n, v in opt if v is not None and not (n == 'gExtra' and np.ndim(v) == 0 and float(v) == 0 and optstyle == 'omitted0')}
        if optstyle == 'omitted0':
            kwargs = {n: v for n, v in kwargs.items() if not (n == 'gExtra' and np.size(v) == 1 and float(np.ravel(v)[0]) == 0)}
    name = 'getInterfacialComposition' if q == 'getInterfacialComposition_multi' else q
    del CONV_REC[:]
    err, out = None, None
    try:
        with quiet():
            r = getattr(th, name)(*args, **kwargs)
        out = norm_result(r)
    except Exception as ex:
        err = '%s: %s' % (type(ex).__name__, str(ex)[:150])
    return list(CONV_REC), out, err


def conv_render(c, styles, optstyle):
    return '%s[%s](%s; options %s, removeCache=%s, phase %s%s)' % (c['query'], c['system'], ', '.join('%s=%r as %s' % (n, c[n], styles[n]) for n in styles),
                                                              optstyle, c['rm'], c['ph'], ', computeSearchDir=True' if c.get('csd') else '')


def conv_compare(c, ref, got):
    """ref / got = (recorded calls, output, error); returns a message or None"""
    if (ref[2] is None) != (got[2] is None):
        return 'one convention raises (%s), the other does not (%s)' % (got[2], ref[2])
    if ref[2] is not None:
        return None
    if ref[0] != got[0]:
        k = next((i for i, (u, v) in enumerate(zip(ref[0], got[0])) if u != v), min(len(ref[0]), len(got[0])))
        return 'back-end call %d is %r, with the reference convention it is %r' % (k, got[0][k] if k < len(got[0]) else None, ref[0][k] if k < len(ref[0]) else None)
    ok, w = same_result(got[1], ref[1], 1e-12)
    if not ok:
        return 'returned %s, with the reference convention %s' % (short(got[1]), short(ref[1]))
    return None


def part_conventions(ctx):
    rng = ctx.rng
    n = 80 if ctx.quick else 800
    cases = corpus_cases('conventions') + [gen_conv_case(rng) for _ in range(n)]
    seen = set()
    ncalls = 0
    argnames = lambda c: [k for k in ('x', 'T', 'g', 'R') if k in c]
    for c in cases:
        names = argnames(c)
        single_T = c['query'] in ('getGrowthAndInterfacialComposition',)
        ref_styles = {k: ('arr' if isinstance(c[k], list) else 'pyfloat') for k in names}
        ref = conv_call(c, ref_styles, 'keyword')
        ncalls += 1
        ctx.count({'conv': c}, True)
        ctx.hist('conventions_query', c['query'])
        # (1) removeCache given by the caller must reach every nested single-point query; precipitate / matrix phase too
        for rm_opt in ('default', 'True', 'False'):
          for csd_opt in ((False, True) if c['query'] == 'curvatureFactor' else (c.get('csd', False),)):
            c2 = dict(c, rm=rm_opt)
            if c['query'] == 'curvatureFactor':
                c2['csd'] = csd_opt
            ref2 = conv_call(c2, ref_styles, str(rng.choice(['keyword', 'positional', 'omitted'])))
            ncalls += 1
            want_rm = {'default': {'getDrivingForce': False, 'curvatureFactor': False, 'impingementFactor': False,
                                   'getGrowthAndInterfacialComposition': False}.get(c['query'], True), 'True': True, 'False': False}[rm_opt]
            if ref2[2] is not None:
                continue
            for k, call in enumerate(ref2[0]):
                if call[0] in ('_drivingForce', '_interdiffusivitySingle', '_tracerDiffusivitySingle') and call[4] != want_rm:
                    cls = '%s removeCache not forwarded' % c['query']
                    if cls not in seen:
                        seen.add(cls)
                        msg = ('%s was called with removeCache=%s but its nested query %s ran with removeCache=%s: %s'
                               % (c['query'], want_rm, call[0], call[4], conv_render(c2, ref_styles, 'keyword')))
                        ctx.violation('cache_discarded', {'site': SITE_TH, 'cls': cls},
                                      {'kind': 'input', 'part': 'conventions', 'input': dict(c2, styles=ref_styles, optstyle='keyword'), 'observed': msg}, msg)
        # (2) every other convention must do the same
        for trial in range(6 if ctx.quick else 10):
            styles = {}
            for k in names:
                st = conv_styles(c[k], allow_wrap=not (single_T and k == 'T'))
                styles[k] = str(rng.choice(st))
            optstyle = str(rng.choice(['keyword', 'positional', 'omitted', 'omitted0']))
            got = conv_call(c, styles, optstyle)
            ncalls += 1
            for k in names:
                ctx.hist('conventions_style', styles[k])
            ctx.hist('conventions_options', optstyle)
            msg = conv_compare(c, ref, got)
            if msg:
                bad = [k for k in names if styles[k] != ref_styles[k]]
                # which argument's convention matters? try them one at a time
                culprit = None
                for k in bad:
                    st1 = dict(ref_styles); st1[k] = styles[k]
                    if conv_compare(c, ref, conv_call(c, st1, 'keyword')):
                        culprit = (k, styles[k]); styles, optstyle = st1, 'keyword'
                        break
                cls = '%s %s' % (c['query'], ('%s of %s' % (culprit[0], 'integer dtype' if 'int' in culprit[1] else 'float32' if 'f32' in culprit[1] else 'another container type'))
                                 if culprit else 'options ' + optstyle)
                if cls in seen:
                    continue
                seen.add(cls)
                full = '%s: %s' % (conv_render(c, styles, optstyle), conv_compare(c, ref, conv_call(c, styles, optstyle)) or msg)
                ctx.violation('batch_is_pointwise', {'site': SITE_TH, 'cls': 'convention: ' + cls},
                              {'kind': 'input', 'part': 'conventions', 'input': dict(c, styles=styles, optstyle=optstyle), 'observed': full,
                               'oracle': 'the same points and options in another calling convention (reference: float64 arrays / Python floats, options by keyword)'},
                              'the answer depends on how the arguments are passed: ' + full)
    ctx.notes['conventions_cases'] = len(cases)
    ctx.notes['conventions_calls'] = ncalls
    # (3) the same with real pycalphad, a few calls: integer / list / omitted conventions against float arrays
    real = [('NICRAL', 'getInterfacialComposition_multi', {'x': [0.08, 0.1], 'T': 1073.65, 'g': [50.0, 100.0, 200.0]}, {'x': 'list', 'T': 'pyfloat', 'g': 'list_int'}),
            ('NICRAL', 'getInterfacialComposition_multi', {'x': [0.08, 0.1], 'T': 1073.65, 'g': 0.0}, {'x': 'arr', 'T': '0d', 'g': 'pyint'}),
            ('ALZR', 'getInterfacialComposition', {'T': 700.35, 'g': [1000.0, 5000.0]}, {'T': 'npfloat', 'g': 'arr_int'}),
            ('ALZR', 'getDrivingForce', {'x': [0.004, 0.008], 'T': [673.15, 700.65]}, {'x': 'tuple', 'T': 'list'}),
            ('NICRAL', 'getDrivingForce', {'x': [0.08, 0.1], 'T': 1073.65}, {'x': 'tuple', 'T': 'arr1'}),
            ('NICRAL', 'getInterdiffusivity', {'x': [[0.08, 0.1], [0.085, 0.1]], 'T': [1073.65, 1078.15]}, {'x': 'list', 'T': 'tuple'})]
    if not ctx.quick:
        real = real * 1
    for system, q, vals, styles in real:
        c = dict(vals, part='conventions', system=system, query=q, rm='default', ph='default', real=True)
        th = therm(system, fresh=True)
        names = argnames(c)
        ref_styles = {k: ('arr' if isinstance(c[k], list) else 'pyfloat') for k in names}
        ref = conv_call(c, ref_styles, 'keyword', th=th)
        th.clearCache()
        got = conv_call(c, styles, 'omitted0', th=th)
        ref, got = ([], ref[1], ref[2]), ([], got[1], got[2])
        if ref[2] is None and got[2] is None:
            ok, w = same_result(got[1], ref[1], 1e-7)
            if not ok and ('real ' + q) not in seen:
                seen.add('real ' + q)
                full = '%s returned %s, with float arrays %s' % (conv_render(c, styles, 'omitted0'), short(got[1]), short(ref[1]))
                ctx.violation('batch_is_pointwise', {'site': SITE_TH, 'cls': 'convention (pycalphad): ' + q},
                              {'kind': 'input', 'part': 'conventions', 'input': dict(c, styles=styles, optstyle='omitted0'), 'observed': full},
                              'the answer depends on how the arguments are passed: ' + full)
        ctx.count({'convreal': [system, q]}, True)


def coqchk(ctx):
    """thorough tier: independent re-check of the compiled property file and its whole closure"""
    import subprocess, re
    cmd = ['timeout', '1200', 'coqchk', '-silent', '-o', '-R', COQ, 'Kawin', '-R', ctx.build, 'KawinRun', 'KawinRun.Properties']
    r = subprocess.run(cmd, capture_output=True, text=True, cwd=ctx.build)
    out = r.stdout + r.stderr
    axioms = re.findall(r'^\s{4}(Coq\.[A-Za-z_0-9\.]+)\s*$', out.split('* Axioms:')[1].split('* Constants')[0], re.M) if '* Axioms:' in out else []
    ctx.notes['coqchk'] = {'returncode': r.returncode, 'axioms_in_the_loaded_libraries': axioms}
    std = {'Coq.Logic.FunctionalExtensionality.functional_extensionality_dep', 'Coq.Reals.ClassicalDedekindReals.sig_not_dec',
           'Coq.Reals.ClassicalDedekindReals.sig_forall_dec', 'Coq.Logic.Classical_Prop.classic'}
    bad = [a for a in axioms if a not in std]
    if r.returncode != 0 or bad or out.count('<none>') < 3:
        ctx.violation('coqchk', {'site': 'coq/C09', 'cls': 'coqchk'}, {'broken': {'coqchk': out[-1500:], 'unexpected_axioms': bad}},
                      'coqchk does not accept the compiled property file (exit %d, unexpected axioms %r)' % (r.returncode, bad), no_input=True)


def run(ctx):
    ctx.cov['rule'] = (
        'cache: random histories of enable/disable, clear, change of precision (digits -3..200), additions and lookups on a live '
        'HashTable or through the DiffusionModel API, 1-3 components, points from a small pool and perturbed at the scale of the current '
        'precision (inside / across / exactly on a cell boundary, other temperatures, scaled by 10); non-trivial when a lookup hits. '
        'wrappers: every argument shape (scalar, (N,), (N,1), (1,N), (N,e), lengths 1 / N / mismatched) for _process_xT_arrays, '
        '_process_TG_arrays and the public get* methods with recording back ends. singlephase: SinglePhaseModel._getFluxes on a '
        'recording back end under random useCache / setHashSensitivity / clearCache / composition drift / time steps. scripted: random '
        'query histories (driving force by three methods, diffusivities, 6 phases, removeCache, clearCache, method changes, scripted '
        'equilibrium failures and one-phase / miscibility-gap global equilibria) on the real GeneralThermodynamics over a scripted '
        'pycalphad; non-trivial when more than two value queries. purity (SAMPLING of the real back ends): random query histories on '
        'Al-Zr, Ni-Cr-Al, Al-Mg-Si, Fe-Cr-Ni; non-trivial when more than one query was answered inside the stable range. '
        'Distinct by hash of the exact input.')
    axioms, failed = ctx.prove(['C09/Properties.v'])
    t0 = time.time()
    nd, nh = part_cache(ctx)
    if nd and not nh:
        # the implementation no longer behaves like the model: search harder with the independent oracle
        more = [gen_cache_history(ctx.rng, ctx.quick, i) for i in range(1500)]
        found = []
        for c in more:
            ann, _ = run_cache_impl(c)
            ctx.cov['evaluations'] += 1
            found += [(c, h) for h in cache_oracle(ann)]
            if found:
                break
        for c, (clause, cls, msg, idx) in found[:1]:
            ctx.violation(clause, {'site': SITE_HT, 'cls': cls},
                          {'kind': 'input', 'part': 'cache', 'input': {k: c[k] for k in ('ops', 'via')}, 'observed': msg}, msg)
    ctx.notes['time_cache_s'] = round(time.time() - t0, 1)
    t0 = time.time()
    part_wrappers(ctx)
    ctx.notes['time_wrappers_s'] = round(time.time() - t0, 1)
    t0 = time.time()
    part_singlephase(ctx)
    ctx.notes['time_singlephase_s'] = round(time.time() - t0, 1)
    t0 = time.time()
    part_conventions(ctx)
    ctx.notes['time_conventions_s'] = round(time.time() - t0, 1)
    t0 = time.time()
    part_nonmutation(ctx)
    ctx.notes['time_nonmutation_s'] = round(time.time() - t0, 1)
    t0 = time.time()
    part_scripted(ctx)
    ctx.notes['time_scripted_s'] = round(time.time() - t0, 1)
    t0 = time.time()
    part_purity(ctx)
    ctx.notes['time_purity_s'] = round(time.time() - t0, 1)
    if not ctx.quick:
        coqchk(ctx)
    for t in failed:
        ctx.violation(t, {'site': 'coq/C09/Properties.v', 'cls': 'proof'},
                      {'broken': {'theorem': t, 'file': 'coq/C09/Properties.v'}},
                      'theorem %s no longer checks' % t, no_input=True)
    ctx.assumptions += [
        'history independence of the pycalphad-backed values (part C) is proved under the hypotheses start_independent, solver_keeps_phases, '
        'global_is_local about pycalphad; these and the purity of the real values are only SAMPLED (random query histories on four shipped '
        'databases, warmed vs history-free vs newly built objects, repeated and batched calls, relative tolerance %g (%g for diffusivities), points where the precipitate is stable)' % (RTOL, RTOL_DIFF),
        'argument non-mutation is checked by the harness on every public query (numpy aliasing is not expressible in the pure model)',
        'the cache key of the theorems is trunc(v * 10^s) on the exact rational value of the inputs; numpy computes the product in binary64: the two keys '
        'are compared for every operation inside Coq and may differ only for coordinates within 2^-48 relative of a cell boundary (counted in '
        'cache_operations_near_cell_boundary); the cache logic is compared on the binary64 keys exactly',
        'binary64 overflow of coordinate * 10^s (precisions beyond ~305 digits) is outside the model',
        'the hand-written models coq/C09/Model.v are tied to the code only through these correspondences (cache histories, recorded wrapper calls, scripted-pycalphad traces)']
    ctx.cov['trusted_base'] += ['Coq 8.16.1 kernel and vm_compute (primitive binary64 floats for the numpy key, correspondence only)',
                                'hand-written model coq/C09/Model.v + correspondence drivers coq/C09/Corr.v, harness/c09.py, harness/c09_fake.py (scripted pycalphad)',
                                'float literal transport (float.hex) and output parser in harness/common.py',
                                'pycalphad, the TDB databases and numpy themselves (sampled, not modelled)']


def replay(ctx, obj):
    part = obj.get('part')
    if part == 'cache':
        c = obj['input']
        ann, err = run_cache_impl(c)
        hits = cache_oracle(ann)
        for h in hits:
            print('replay:', h[:3])
        print('replay: %d oracle violations on this history' % len(hits))
        return 1 if hits else 0
    if part == 'singlephase':
        hits, _ = run_singlephase(obj['input'])
        for h in hits:
            print('replay:', h)
        print('replay: %d oracle violations on this run' % len(hits))
        return 1 if hits else 0
    if part == 'purity':
        hits, st = run_purity(obj['input'])
        for h in hits:
            print('replay:', h[:3])
        print('replay: %d oracle violations on this history (%d queries)' % (len(hits), st['queries']))
        return 1 if hits else 0
    if part == 'conventions':
        c = obj['input']
        th = therm(c['system'], fresh=True) if c.get('real') else None
        names = [k for k in ('x', 'T', 'g', 'R') if k in c]
        ref_styles = {k: ('arr' if isinstance(c[k], list) else 'pyfloat') for k in names}
        ref = conv_call(c, ref_styles, 'keyword', th=th)
        if th is not None:
            th.clearCache()
        got = conv_call(c, c['styles'], c['optstyle'], th=th)
        if th is not None:
            ref, got = ([], ref[1], ref[2]), ([], got[1], got[2])
        msg = conv_compare(c, ref, got)
        print('replay: %s -> %s' % (conv_render(c, c['styles'], c['optstyle']), msg or 'same as the reference convention'))
        want = {'default': None, 'True': True, 'False': False}[c['rm']]
        lost = [call for call in got[0] if call[0] in ('_drivingForce', '_interdiffusivitySingle', '_tracerDiffusivitySingle') and want is not None and call[4] != want]
        for call in lost:
            print('replay: nested query %s ran with removeCache=%s' % (call[0], call[4]))
        return 1 if (msg or lost) else 0
    if part == 'mutation':
        c = obj['input']
        changed, err = mut_call(c['system'], c['query'], c['args'], recorders=not c.get('real'))
        for n, what in changed:
            print('replay: %s modified its argument %s' % (render_call(c), what))
        print('replay: %d modified arguments%s' % (len(changed), ' (the call raised %s)' % err if err else ''))
        return 1 if changed else 0
    if part == 'scripted':
        c = obj['input']
        out, judge, calls = run_scripted_impl(c)
        rows = ctx.coq_eval('replay_scripted', HEADER, [scripted_term(c)])[0]
        d = judge([(totuple(a), totuple(st)) for a, st in rows])
        for x in d:
            print('replay:', x[:500])
        print('replay: %d disagreements between model and implementation on this history' % len(d))
        return 1 if d else 0
    print('replay: nothing to replay for part %r' % part)
    return 1
