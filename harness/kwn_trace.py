"""Run precipitation models and record, per accepted step, what the properties C01/C02/C03 talk
about.  Observation uses public extension points (iterator wrapper as solverType, coupling-model
callback) plus an instance-level wrapper around `_calcMassBalance` that copies its arguments and
results (no change to the kawin source)."""
import copy, io, contextlib, signal, os
import numpy as np
import stubs


class RunTimeout(Exception):
    """a run exceeded its wall-clock budget (normal runs take seconds)"""


class Trace:
    def __init__(self):
        self.steps = []          # per accepted step: dict
        self.mb_calls = []       # every _calcMassBalance call: inputs + outputs
        self.meta = {}


def _snap_state(m):
    """state of the model between steps (what the next step starts from)"""
    P = len(m.phases)
    s = {
        'n': int(m.pData.n),
        'time': float(m.pData.time[m.pData.n]),
        'bounds': [m.PBM[p].PSDbounds.copy() for p in range(P)],
        'size': [m.PBM[p].PSDsize.copy() for p in range(P)],
        'psd': [m.PBM[p].PSD.copy() for p in range(P)],
        'bins': [int(m.PBM[p].bins) for p in range(P)],
        'xbeta': [None if m.PSDXbeta[p] is None else np.array(m.PSDXbeta[p], dtype=float).copy() for p in range(P)] if hasattr(m, 'PSDXbeta') else None,
        'rdfi': np.array(m.RdrivingForceIndex).copy(),
        'dissIdx': np.array(m.dissolutionIndex).copy(),
        'growth': [np.array(g, dtype=float).copy() for g in m.growth] if hasattr(m, 'growth') else None,
        'slice': {k: np.array(getattr(m.pData, k)[m.pData.n]).copy() for k in m.pData.ATTRIBUTES},
        'lengths': {k: len(getattr(m.pData, k)) for k in m.pData.ATTRIBUTES},
        'vmA': float(m.matrixParameters.volume.Vm),
        'vmB': [float(m.precipitateParameters[p].volume.Vm) for p in range(P)],
        'volFactor': [float(m.precipitateParameters[p].nucleation.volumeFactor) for p in range(P)],
    }
    return s


def instrument(m, trace, real_iter):
    """attach recorders to model m; returns the iterator wrapper to pass as solverType"""
    orig_mb = m._calcMassBalance

    def mb(t, x, Y):
        n = m.pData.n
        rec = {
            'n': int(n), 't': float(t),
            'x': [np.array(xp, dtype=float).copy() for xp in x],
            'size': [m.PBM[p].PSDsize.copy() for p in range(len(m.phases))],
            'psd': [m.PBM[p].PSD.copy() for p in range(len(m.phases))],
            'xbeta': [np.array(m.PSDXbeta[p], dtype=float).copy() for p in range(len(m.phases))],
            'prevVolFrac': np.array(m.pData.volFrac[n]).copy(),
            'prevFconc': np.array(m.pData.fconc[n]).copy(),
            'x0': np.array(m.pData.composition[0]).copy(),
            'compIn': np.array(Y.composition[0]).copy(),
            'vmA': float(m.matrixParameters.volume.Vm),
            'vmB': [float(m.precipitateParameters[p].volume.Vm) for p in range(len(m.phases))],
            'volFactor': [float(m.precipitateParameters[p].nucleation.volumeFactor) for p in range(len(m.phases))],
        }
        out = orig_mb(t, x, Y)
        rec['out'] = {k: np.array(getattr(out, k)[0]).copy() for k in ('precipitateDensity', 'Ravg', 'volFrac', 'fconc', 'composition')}
        trace.mb_calls.append(rec)
        return out
    m._calcMassBalance = mb

    state = {'prev': None, 'cur_step': None}

    def on_step(rec):
        state['cur_step'] = rec
    itw = stubs.IterWrap(m, real_iter, on_step=on_step)

    def obs(model):
        st = _snap_state(model)
        step = {'after': st, 'before': state['prev'], 'iter': state['cur_step'],
                'mb_last': len(trace.mb_calls) - 1}
        trace.steps.append(step)
        state['prev'] = st
        state['cur_step'] = None

    itw_observer = stubs.StepObserver(obs)
    m.addCouplingModel(itw_observer)

    def prime():
        # state before the first step (after setup)
        m.setup()
        state['prev'] = _snap_state(m)
    itw.prime = prime
    itw.state = state
    itw.observer = itw_observer
    return itw


def run_binary(cfg, rng=None):
    """cfg: dict(phases, x0, T, gamma(s), bins, site(s), vratio, adaptive, iterator ('euler'|'rk4'),
    segments (list of durations), constraints, maxsteps)"""
    from kawin.solver.Iterators import ExplicitEulerIterator, RK4Iterator
    m = stubs.make_binary_model(phases=cfg.get('phases', ('B1',)), x0=cfg.get('x0', 2e-2), T=cfg.get('T', 700.),
                                gamma=cfg.get('gamma', 0.15), gammas=cfg.get('gammas'), bins=cfg.get('bins', (1e-10, 1e-8, 75, 50, 100)),
                                site=cfg.get('site', 'dislocations'), sites=cfg.get('sites'), vratio=cfg.get('vratio', 1.0),
                                adaptive=cfg.get('adaptive', True), constraints=cfg.get('constraints'), therm=cfg.get('therm'))
    if 'infinite' in cfg:
        for p in m.phases:
            m.setInfinitePrecipitateDiffusivity(cfg['infinite'], phase=p)
    if cfg.get('psdrecord'):
        m.setPSDrecording(True)
    tr = Trace()
    tr.meta = dict(cfg)
    tr.meta.pop('therm', None)
    real = ExplicitEulerIterator if cfg.get('iterator', 'euler') == 'euler' else RK4Iterator
    itw = instrument(m, tr, real)
    itw.prime()

    def state_reset(model):
        # after model.reset() the run starts again from the initial state (coupling models are kept)
        model.setup()
        itw.state['prev'] = _snap_state(model)
    maxsteps = cfg.get('maxsteps', 3000)

    class Cap:
        """stop the run after maxsteps accepted steps (a stopping condition object)"""
        def __init__(self):
            self.k = 0
    limit = float(os.environ.get('KAWIN_RUN_LIMIT', cfg.get('limit', 240)))

    def _alarm(signum, frame):
        raise RunTimeout('run %s still going after %.0f s (%d steps recorded)' % (cfg.get('name'), limit, len(tr.steps)))
    old = signal.signal(signal.SIGALRM, _alarm)
    signal.setitimer(signal.ITIMER_REAL, limit)
    try:
        with contextlib.redirect_stdout(io.StringIO()):
            between = cfg.get('between', [])
            for k, seg in enumerate(cfg.get('segments', [1e3])):
                if k > 0 and k - 1 < len(between):
                    # operations on the model between two solve calls: list of (method name, args)
                    for (meth, args) in between[k - 1]:
                        if meth == 'reset':
                            m.reset()
                            state_reset(m)
                        else:
                            getattr(m, meth)(*args)
                m.solve(seg, solverType=itw, verbose=False)
                if len(tr.steps) >= maxsteps:
                    break
    finally:
        signal.setitimer(signal.ITIMER_REAL, 0)
        signal.signal(signal.SIGALRM, old)
    tr.model = m
    return tr
