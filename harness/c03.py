"""C03 - precipitation runs are well formed for every configuration and survive faults.

proof:          coq/C03/Properties.v (time stamps via the C05 clock, update never negative for any fluxes / iterator,
                stored classes 0 or >= 1, fractions / radii / composition bounds, trajectory theorem, fault fall-backs with
                result type Ok | Err, binary lookup index, binary growth denominators, getDt = minimum) and
                coq/C03/run/Bridge.v (sixteen aligned histories) about the text that harness/c03_translate.py regenerates
                from kawin/precipitation/PrecipitationParameters.py on EVERY run (build/C03/Gen.v).
tie:            (a) translator for PrecipitationData (ATTRIBUTES, reset fields, appendToArrays / copySlice / setSlice);
                (b) correspondence: recorded steps of fault-scripted runs (closed-form binary and ternary backends behind a
                wrapper passed to setThermodynamics) are re-executed by the exact-rational instance of coq/C03/Model.v
                inside Coq (coq/C03/Corr.v): new distribution, recorded statistics and composition, stored distribution,
                lookup-table post-processing, binary growth rate, growth / nucleation fall-back branches, getDt.
search:         the well-formedness predicate of the property text (c03_runs.check_state) evaluated after every accepted
                step of corpus inputs, enumerated single faults and random configurations x fault schedules.
"""
import os, json, hashlib, time, itertools
from concurrent.futures import ProcessPoolExecutor
import numpy as np
from common import *
import c03_runs as R
import c03_translate as TR

LEVEL = 'proof'
SITE = 'KWNEuler/KWNBase run'

HEADER = '''From Coq Require Import String.
From Coq Require Import QArith List ZArith Bool Arith.
Require Import Kawin.Common.Ops Kawin.Common.Vec Kawin.Common.Out Kawin.C07.Model Kawin.C01.Model Kawin.C01.Corr
               Kawin.C02.Model Kawin.C03.Model Kawin.C03.Corr.
Import ListNotations.
Open Scope Q_scope.
'''
RT = '(1 # 68719476736)'        # 2^-36

SITES = ['bulk', 'dislocations', 'grain boundaries', 'grain edges', 'grain corners']
SHAPES = ['sphere', 'needle', 'plate', 'cubic']
XB = {'B1': [0.25], 'B2': [0.5], 'B3': [0.2], 'T1': [0.20, 0.05], 'T2': [0.10, 0.15], 'T3': [0.25, 0.02]}


# ------------------------------------------------------------------------------------------
# configurations
def gen_cfg(rng, quick=True):
    sysk = str(rng.choice(['binary', 'ternary'], p=[0.7, 0.3]))
    pool = ['B1', 'B2', 'B3'] if sysk == 'binary' else ['T1', 'T2', 'T3']
    P = int(rng.choice([1, 2, 3], p=[0.55, 0.3, 0.15]))
    phases = [str(x) for x in rng.choice(pool, P, replace=False)]
    c = {'sys': sysk, 'phases': phases}
    if sysk == 'binary':
        c['x0'] = float(10 ** rng.uniform(-3, -0.7)) if rng.random() < 0.9 else float(rng.uniform(0.2, 0.6))
    else:
        c['x0'] = [float(10 ** rng.uniform(-3, -1)), float(10 ** rng.uniform(-3, -1))]
    tk = str(rng.choice(['iso', 'hot', 'up', 'down', 'table'], p=[0.5, 0.1, 0.15, 0.1, 0.15]))
    dur = float(10 ** rng.uniform(0, 4))
    if tk == 'iso':
        c['T'] = {'kind': 'iso', 'T': float(rng.uniform(500, 1100))}
    elif tk == 'hot':
        c['T'] = {'kind': 'iso', 'T': float(rng.uniform(1500, 3000))}
    elif tk == 'up':
        c['T'] = {'kind': 'linear', 'T0': float(rng.uniform(500, 800)), 'rate': float(rng.uniform(100, 2500) / dur), 'Tmax': 3000.0}
    elif tk == 'down':
        c['T'] = {'kind': 'linear', 'T0': float(rng.uniform(900, 2600)), 'rate': -float(rng.uniform(100, 2000) / dur), 'Tmin': 400.0}
    else:
        h = dur / 3600
        c['T'] = {'kind': 'table', 'times': [0.0, 0.3 * h, 0.6 * h, h], 'temps': [float(rng.uniform(500, 2600)) for _ in range(4)]}
    c['Tkind'] = tk
    c['sites'] = [str(rng.choice(SITES)) for _ in range(P)]
    # grain-boundary type sites need gbEnergy / (2 gamma) below 1 / 0.866 / 0.816 (kawin validates this): gamma >= 0.2 with the default 0.3
    c['gammas'] = [float(rng.uniform(0.2, 0.45)) if c['sites'][i].startswith('grain') else float(rng.uniform(0.05, 0.4)) for i in range(P)]
    c['shapes'] = []
    for i in range(P):
        if c['sites'][i] in ('bulk', 'dislocations') and rng.random() < 0.4:
            c['shapes'].append([str(rng.choice(SHAPES[1:])), float(rng.uniform(1.0, 5.0))])
        else:
            c['shapes'].append(['sphere', 1])
    c['vratio'] = float(rng.choice([1.0, rng.uniform(0.5, 2.0)]))
    cmin = float(10 ** rng.uniform(-10, -9.3))
    nb = int(rng.integers(10, 121))
    minb = int(rng.integers(5, nb + 1))
    maxb = int(rng.integers(nb, 2 * nb + 1))
    c['bins'] = [cmin, float(cmin * 10 ** rng.uniform(0.5, 2.5)), nb, minb, maxb]
    c['adaptive'] = bool(rng.random() < 0.6)
    cons = {}
    for k in ('checkTemperature', 'checkPSD', 'checkRcrit', 'checkNucleation', 'checkVolumePre'):
        if rng.random() < 0.25:
            cons[k] = bool(rng.random() < 0.5)
    if rng.random() < 0.3:
        cons['maxVolumeChange'] = float(10 ** rng.uniform(-5, -1))
    if rng.random() < 0.3:
        cons['dtScale'] = float(10 ** rng.uniform(-4, 0))
    if rng.random() < 0.2:
        cons['minRadius'] = float(10 ** rng.uniform(-10.5, -9))
    if rng.random() < 0.2:
        cons['minComposition'] = float(rng.choice([0.0, 1e-8, 1e-5]))
    if rng.random() < 0.2:
        cons['maxDissolution'] = float(10 ** rng.uniform(-4, -0.3))
    if rng.random() < 0.2:
        cons['maxTempChange'] = float(10 ** rng.uniform(-1, 1.5))
    if rng.random() < 0.2:
        cons['minNucleateDensity'] = float(10 ** rng.uniform(-12, 3))
    c['constraints'] = cons
    c['iterator'] = str(rng.choice(['euler', 'rk4'], p=[0.75, 0.25]))
    nseg = int(rng.choice([1, 2, 3], p=[0.6, 0.3, 0.1]))
    w = rng.dirichlet(np.ones(nseg))
    c['segments'] = [float(dur * x) for x in w]
    c['minDtFrac'] = float(rng.choice([1e-8, 1e-8, 1e-6, 1e-4, 1e-3]))
    c['maxDtFrac'] = float(rng.choice([1.0, 0.1, 0.01]))
    c['maxsteps'] = 500 if quick else 3000
    c['infinite'] = bool(rng.random() < 0.8)
    c['betaFunc'] = int(rng.choice([1, 2]))
    c['effDiff'] = bool(rng.random() < 0.8)
    c['recordPSD'] = bool(rng.random() < 0.2)
    c['grainSize'] = float(10 ** rng.uniform(-1, 2))
    c['dislocationDensity'] = float(10 ** rng.uniform(11, 16))
    fk = str(rng.choice(['none', 'single', 'burst', 'random'], p=[0.3, 0.25, 0.25, 0.2]))
    kinds = ['df', 'dfn', 'ic', 'icp'] if sysk == 'binary' else ['df', 'dfn', 'gr']
    if fk == 'single':
        c['faults'] = [[str(rng.choice(kinds)), int(rng.integers(0, 60))]]
    elif fk == 'burst':
        k = str(rng.choice(kinds))
        a = int(rng.integers(0, 80))
        n = int(rng.integers(2, 40))
        c['faults'] = [[k, i] for i in range(a, a + n)]
    elif fk == 'random':
        pr = float(rng.uniform(0.02, 0.5))
        c['faults'] = [[k, i] for k in kinds for i in range(0, 400) if rng.random() < pr]
    else:
        c['faults'] = []
    c['faultkind'] = fk
    # display names different from the database phase names (parameter-object constructor), other calling conventions of the setters
    if rng.random() < 0.3:
        c['names'] = ['%s / display %d' % (ph, i) for i, ph in enumerate(phases)]
    if rng.random() < 0.3:
        c['conv'] = str(rng.choice(['int', 'tuple', 'array', 'npscalar', 'zerod']))
    return c


BASES = {
    'binary': dict(sys='binary', phases=['B1'], x0=2e-2, T={'kind': 'iso', 'T': 700.0}, gammas=[0.15], segments=[3.0], minDtFrac=1e-3,
                   iterator='euler', maxsteps=80),
    'binary2': dict(sys='binary', phases=['B1', 'B2'], x0=3e-2, T={'kind': 'linear', 'T0': 680.0, 'rate': 15.0, 'Tmax': 900.0}, gammas=[0.15, 0.12],
                    segments=[3.0], minDtFrac=1e-3, iterator='euler', maxsteps=80, betaFunc=2, constraints={'maxTempChange': 0.5}),
    'ternary': dict(sys='ternary', phases=['T1'], x0=[0.02, 0.01], T={'kind': 'iso', 'T': 700.0}, gammas=[0.15], segments=[3.0], minDtFrac=1e-3,
                    iterator='euler', maxsteps=80),
    # kawin's own test systems on the pycalphad-backed thermodynamics (Al-Zr binary, Ni-Al-Cr ternary)
    'alzr': dict(sys='alzr', phases=['AL3ZR'], x0=4e-3, T={'kind': 'iso', 'T': 723.15}, gammas=[0.1], lattice=0.405e-9, segments=[100.0], minDtFrac=1e-6,
                 iterator='euler', maxsteps=30),
    'nicral': dict(sys='nicral', phases=['FCC_L12'], x0=[0.098, 0.083], T={'kind': 'iso', 'T': 1073.0}, gammas=[0.023], lattice=0.352e-9, sites=['bulk'],
                   bulkN0=1e30, segments=[10.0], minDtFrac=1e-6, iterator='euler', maxsteps=30),
    'ternary-rk4': dict(sys='ternary', phases=['T1', 'T2'], x0=[0.02, 0.02], T={'kind': 'iso', 'T': 720.0}, gammas=[0.15, 0.14], segments=[1.0],
                        minDtFrac=1e-3, iterator='rk4', maxsteps=60),
}


def enumerated_faults(quick):
    """all single faults at the first calls of every kind (the calls of the first ~50 steps), on four base configurations"""
    out = []
    K = 50 if quick else 150
    for name, kinds in (('binary', ['df', 'ic', 'icp']), ('binary2', ['df', 'dfn', 'ic', 'icp']), ('ternary', ['df', 'gr']), ('ternary-rk4', ['df', 'gr']),
                        ('alzr', ['df', 'ic', 'icp']), ('nicral', ['df', 'gr'])):
        step = 1 if name in ('binary', 'ternary') else (3 if name in ('binary2', 'ternary-rk4') else 4)
        for k in kinds:
            top = min(K, 12) if (k in ('ic', 'icp') and name in ('binary', 'alzr')) else (min(K, 28) if name in ('alzr', 'nicral') else K)
            for i in range(0, top, step):
                c = dict(BASES[name])
                c['faults'] = [[k, i]]
                c['name'] = '%s:%s@%d' % (name, k, i)
                out.append(c)
    return out


SNAP_CFGS = [
    dict(BASES['binary'], name='snap-binary-euler', segments=[40.0], maxsteps=400, faults=[['df', 5], ['df', 40], ['ic', 2]], minDtFrac=1e-4),
    dict(sys='binary', phases=['B1', 'B2'], x0=3e-2, T={'kind': 'iso', 'T': 720.0}, gammas=[0.15, 0.12], segments=[20.0, 20.0], minDtFrac=1e-4,
         iterator='euler', maxsteps=400, vratio=0.8, bins=[1e-10, 2e-9, 40, 30, 60], name='snap-binary-2phase-vratio', faults=[['ic', 5], ['ic', 6], ['df', 30]]),
    # the interfacial composition of the size classes added during the run is -1 (no result), molar volumes differ: the sentinel
    # entries stay in the table behind valid ones
    dict(BASES['binary'], name='snap-binary-missing-added-classes', segments=[300.0], maxsteps=400, minDtFrac=1e-4, vratio=1.25, faults=[['ic', 2], ['icp', 3]],
         bins=[1e-10, 1e-9, 30, 20, 60], snap_stride=29),
    dict(BASES['binary2'], name='snap-binary-ramp-partial-results', segments=[6.0], maxsteps=200, minDtFrac=1e-4, vratio=1.25,
         faults=[['icp', i] for i in (1, 3, 5, 7, 9, 12, 15)] + [['ic', 11]]),
    dict(sys='binary', phases=['B1'], x0=2e-2, T={'kind': 'linear', 'T0': 690.0, 'rate': 40.0, 'Tmax': 2600.0}, gammas=[0.15], segments=[60.0], minDtFrac=1e-4,
         iterator='euler', maxsteps=500, name='snap-binary-ramp-out-of-field', faults=[], constraints={'maxTempChange': 5.0}),
    dict(sys='binary', phases=['B1'], x0=2e-2, T={'kind': 'iso', 'T': 700.0}, gammas=[0.15], segments=[2.0], minDtFrac=1e-4,
         iterator='rk4', maxsteps=150, name='snap-binary-rk4', faults=[['df', 11]], betaFunc=2),
    # up-quench above the solvus while nucleating: the driving force turns negative at a step with a large recorded rate
    dict(BASES['binary'], name='snap-binary-upquench', T={'kind': 'table', 'times': [0.0, 0.005, 0.0051, 2.0], 'temps': [700.0, 700.0, 1400.0, 1400.0]},
         segments=[19.0], minDtFrac=1e-4, maxsteps=700, faults=[], nuc_stride=13, snap_stride=91),
    dict(BASES['alzr'], name='snap-alzr', maxsteps=40, faults=[['df', 9], ['icp', 1]]),
    dict(BASES['nicral'], name='snap-nicral', maxsteps=40, faults=[['gr', 4], ['gr', 5], ['df', 12], ['gr', 20]]),
    dict(BASES['ternary'], name='snap-ternary-euler', segments=[40.0], maxsteps=300, minDtFrac=1e-4,
         faults=[['gr', i] for i in (1, 2, 9, 10, 11, 60)] + [['df', 4], ['dfn', 33]]),
    dict(BASES['ternary-rk4'], name='snap-ternary-rk4', segments=[2.0], maxsteps=80, minDtFrac=1e-4, faults=[['gr', i] for i in range(6, 30, 5)] + [['df', 17]]),
]


# ------------------------------------------------------------------------------------------
def _worker(args):
    cfg, snapshots = args
    t = time.time()
    try:
        r = R.run_cfg(cfg, snapshots=snapshots, keep_model=False)
    except Exception as e:          # the harness itself failed: reported as such
        import traceback
        r = {'err': 'HARNESS %s: %s' % (type(e).__name__, e), 'errtype': 'harness', 'where': traceback.format_exc()[-600:], 'issues': [], 'steps': 0,
             'capped': False, 'first_bad_step': None, 'log': []}
    r.pop('log', None)
    r['wall'] = time.time() - t
    return r


def _scen_worker(args):
    kind, cfgs = args
    try:
        return R.scenario(kind, cfgs)
    except Exception as e:
        import traceback
        return [('harness', 'harness', 'scenario %s: %s: %s %s' % (kind, type(e).__name__, e, traceback.format_exc()[-400:]))]


def scenario_sets(quick):
    """(a) equivalence classes: the same physical configuration given through the other constructor with display names that differ
    from the database phase names, and through other calling conventions of the public setters - all runs of a class must record
    identical histories; (b) backend-internal equilibrium failures on the pycalphad-backed ternary system (first equilibria, single
    later ones, bursts), each on a fresh backend object; (c) one object run, reset() and run again; two objects advanced alternately"""
    classes = []
    for bn in ('binary', 'binary2', 'ternary', 'ternary-rk4', 'alzr', 'nicral'):
        base = dict(BASES[bn], faults=[], name='equiv:%s:plain' % bn)
        if bn in ('alzr', 'nicral'):
            base['fresh_backend'] = True
        members = [base, dict(base, names=['%s (display %d)' % (ph, i) for i, ph in enumerate(base['phases'])], name='equiv:%s:display-names' % bn)]
        for cv in (('int', 'tuple', 'array', 'npscalar', 'zerod') if bn in ('binary', 'ternary') or not quick else ('tuple', 'npscalar')):
            members.append(dict(base, conv=cv, name='equiv:%s:conv-%s' % (bn, cv)))
        members.append(dict(base, names=list(members[1]['names']), faults=[['df', 3]], name='equiv:%s:display-names+fault' % bn, noequiv=True))
        classes.append(members)
    eq = []
    N = dict(BASES['nicral'], maxsteps=40, faults=[])
    for k in list(range(0, 12)) + list(range(12, 120, 5 if quick else 2)):
        eq.append(dict(N, eqfaults=[k], name='eqfault:single@%d' % k))
    for burst in ([0, 1, 2], list(range(0, 8)), list(range(41, 47)), list(range(20, 31)), list(range(3, 120, 4)), list(range(60, 100))):
        eq.append(dict(N, eqfaults=burst, name='eqfault:burst@%d+%d' % (burst[0], len(burst))))
    B = dict(BASES['binary'], segments=[20.0, 20.0], minDtFrac=1e-3, faults=[])
    T = dict(BASES['ternary'], segments=[15.0, 25.0], minDtFrac=1e-3, faults=[])
    B2 = dict(BASES['binary2'], segments=[4.0, 2.0], minDtFrac=1e-3, faults=[])
    scen = [('rerun', [B]), ('rerun', [T]), ('rerun', [B2]), ('interleave', [B, T]), ('interleave', [B, dict(B, x0=3e-2, gammas=[0.13])]),
            ('interleave', [dict(B2, names=['one', 'two']), B2])]
    return classes, eq, scen


def run_many(cfgs, snapshots=False, workers=12):
    if not cfgs:
        return []
    with ProcessPoolExecutor(max_workers=workers) as ex:
        return list(ex.map(_worker, [(c, snapshots) for c in cfgs], chunksize=1))


def cfg_key(c):
    return {k: v for k, v in c.items() if k not in ('name',)}


def comp_class(cfg):
    """is the alloy richer in some solute than one of its precipitate phases (then the matrix composition is not bounded
    by the alloy composition: theorem C03_composition_le_initial / C03_composition_upper_refuted)"""
    x0 = np.atleast_1d(cfg['x0'])
    for ph in cfg['phases']:
        if ph not in XB:
            continue
        xb = XB[ph]
        if any(x0[e] > xb[e] for e in range(len(xb))):
            return 'alloy richer in solute than a precipitate phase'
    return 'composition'


def violations_of(cfg, r):
    """(clause, cls, message) list of one run result"""
    out = []
    if r.get('err'):
        if r.get('errtype') == 'harness':
            out.append(('harness', 'harness', r['err'] + ' ' + str(r.get('where'))))
        else:
            out.append(('no_internal_error', '%s in %s' % (r.get('errtype'), r.get('where')), 'run ended with %s (in %s) after %d accepted steps' % (r['err'], r.get('where'), r['steps'])))
    seen = set()
    for (clause, cls, msg) in list(r.get('first_bad_issues') or []) + list(r['issues']):
        if clause == 'composition_bounded' and cls == 'composition':
            cls = comp_class(cfg)
        if clause == 'finite':
            cls = 'non-finite history'
        if (clause, cls) in seen:
            continue
        seen.add((clause, cls))
        out.append((clause, cls, msg + (' [first at step %s]' % r['first_bad_step'] if r.get('first_bad_step') else '')))
    return out


def shrink(cfg, clause, cls, budget=14):
    """smaller configuration with the same violation: drop faults, shorten, drop options"""
    def fails(c):
        r = _worker((c, False))
        return any(v[0] == clause and v[1] == cls for v in violations_of(c, r)), r
    cur = dict(cfg)
    ok, r = fails(cur)
    if not ok:
        return cfg, None
    tries = 0
    cands = []
    if cur.get('faults'):
        cands.append(('faults', []))
        if len(cur['faults']) > 1:
            cands.append(('faults', cur['faults'][:1]))
            cands.append(('faults', cur['faults'][:len(cur['faults']) // 2]))
    if r.get('first_bad_step'):
        cands.append(('maxsteps', int(r['first_bad_step']) + 1))
    if len(cur.get('segments', [])) > 1:
        cands.append(('segments', [float(sum(cur['segments']))]))
    for k, v in (('recordPSD', False), ('constraints', {}), ('shapes', [['sphere', 1]] * len(cur['phases'])), ('iterator', 'euler'),
                 ('adaptive', True), ('infinite', True), ('betaFunc', 1), ('effDiff', True), ('maxDtFrac', 1.0), ('minDtFrac', 1e-8)):
        if cur.get(k) not in (None, v):
            cands.append((k, v))
    for k, v in cands:
        if tries >= budget:
            break
        tries += 1
        c2 = dict(cur)
        c2[k] = v
        ok2, r2 = fails(c2)
        if ok2:
            cur, r = c2, r2
    return cur, r


# ------------------------------------------------------------------------------------------
# Coq terms
def ql(a):
    return qlist([float(x) for x in np.ravel(a)])


def pin_term(meta, s, p, P, any_grid_change):
    gb, ga = s['grid_before'][p], s['grid_after'][p]
    nb = len(gb) - 1
    psd_after = s['psd_after'][p]
    same = len(gb) == len(ga) and np.array_equal(gb, ga)
    cmp_stored = True
    if s['reset_branch'][p]:
        adj = '(@Remesh Qops %s %s)' % (ql(ga), ql(psd_after))
        cmp_stored = False
    elif same:
        adj = '(@Keep Qops)'
    elif len(ga) == len(gb) + s['origBins'][p] // 4 and np.all(psd_after[nb:] == 0) and ga[0] == gb[0]:
        adj = '(@Extend Qops %s %s)' % (natlit(len(ga) - len(gb)), ql(ga))
    else:
        adj = '(@Remesh Qops %s %s)' % (ql(ga), ql(psd_after))
        cmp_stored = False
    if any_grid_change and not same:
        pass
    tab = s['table'][p]
    if tab is None:
        tab = np.zeros((nb + 1, meta['E']))
    tab = np.atleast_2d(np.array(tab, dtype=float))
    if tab.shape[0] != nb + 1:
        tab = tab.reshape(nb + 1, -1)
    prevFull = bool(s['slice_before']['volFrac'][p] == 1)
    pin = '(mkPin Qops %s %s %s %s %s %s %s %s %s %s %s %s %s %s)' % (
        ql(gb), ql(s['x_before'][p]), ql(s['nf'][p]), qlit(float(s['nucRate'][p])), qlit(float(s['Rnuc'][p])), natlit(int(s['rdfi'][p])),
        qlit(meta['volRatio'][p]), qlit(meta['volFactor'][p]), qlistlist([[float(v) for v in row] for row in tab]), boollit(prevFull),
        boollit(meta['infinite'][p]), ql(np.atleast_1d(s['slice_before']['fconc'][p])), adj, natlit(int(s['rdfi_after'][p])))
    return pin, cmp_stored


def step_term(meta, s):
    P = meta['P']
    any_change = any(len(s['grid_before'][p]) != len(s['grid_after'][p]) or not np.array_equal(s['grid_before'][p], s['grid_after'][p]) for p in range(P))
    pins, ipins, iph = [], [], []
    pos = 0
    for p in range(P):
        pt, cmp_stored = pin_term(meta, s, p, P, any_change)
        nb = len(s['grid_before'][p]) - 1
        xn = s['Xn'][pos:pos + nb]
        pos += nb
        pins.append(pt)
        ipins.append('{| ii_xn := %s; ii_stored := %s; ii_cmp := %s |}' % (ql(xn), ql(s['psd_after'][p]), boollit(bool(cmp_stored and (not any_change or P == 1)))))
        sa = s['slice_after']
        iph.append('{| ip_dens := %s; ip_ravg := %s; ip_fv := %s; ip_fconc := %s |}' % (
            qlit(float(sa['precipitateDensity'][p])), qlit(float(sa['Ravg'][p])), qlit(float(sa['volFrac'][p])), ql(np.atleast_1d(sa['fconc'][p]))))
    prev = s['comp_prev'] if s.get('comp_prev') is not None else np.atleast_1d(s['slice_before']['composition'])
    return 'check03_step %s %s %s %s %s %s %s [%s] [%s] [%s] %s' % (
        RT, qlit(s['dt']), qlit(meta['minRadius']), qlit(meta['minDens']), qlit(meta['minComp']), ql(meta['x0']), ql(prev),
        '; '.join(pins), '; '.join(ipins), '; '.join(iph), ql(np.atleast_1d(s['slice_after']['composition'])))


def finite_snap(s):
    arrs = [s['Xn'], s['nucRate'], s['Rnuc']] + list(s['nf']) + list(s['x_before']) + list(s['psd_after']) + [v for v in s['slice_after'].values()] + \
           [v for v in s['slice_before'].values()] + [t for t in s['table'] if t is not None]
    return all(np.all(np.isfinite(np.asarray(a, dtype=float))) for a in arrs) and np.isfinite(s['dt'])


def lookup_term(rep, rec):
    return 'check03_lookup %s %s %s %s %s %s' % (boollit(rep), ql(rec['xa']), ql(rec['xb']), natlit(rec['rdfi']), ql(rec['ta']), ql(rec['tb']))


def fill_term(rec):
    return 'check03_fill %s %s %s %s %s' % (natlit(rec['start']), ql(rec['xa']), ql(rec['xb']), ql(rec['ia']), ql(rec['ib']))


def gbin_term(rep, rec, tables):
    ratio = rec['VmA'] / rec['VmB']
    # the interpolation tables of EffectiveDiffusionFunctions are the same object for every call of a run: shipped once per file
    key = hashlib.sha1(np.asarray(rec['ohm']).tobytes() + np.asarray(rec['effd']).tobytes()).hexdigest()[:10]
    if key not in tables:
        tables[key] = (rec['ohm'], rec['effd'])
    return 'check03_growth %s %s %s %s %s %s %s %s' % (
        RT, boollit(rep), boollit(rec['enabled']), 'OHM_' + key, 'EFFD_' + key, natlit(rec['rdfi']), qlit(rec['x']), qlit(ratio)) + ' %s %s %s %s %s %s %s' % (
        qlit(rec['D']), qlit(float(rec['effd'][-2])), ql(rec['kin']), ql(rec['bounds']), ql(rec['xa']), ql(rec['xb']), ql(rec['out']))


def gmulti_term(rep, rec):
    if not rec['called']:
        backend = 'None'      # the early-return branch does not consult the backend; the model ignores the argument there
    elif rec['backend'] is None:
        backend = 'None'
    else:
        b = rec['backend']
        backend = '(Some (mkGR Qops %s [] [] %s %s))' % (ql(b['growth']), ql(b['eqa']), ql(b['eqb']))
    prevG = 'None' if rec['prevG'] is None else '(Some %s)' % ql(rec['prevG'])
    if rec['raised'] is not None:
        impl = 'None'
    else:
        impl = '(Some (%s, %s, %s, %s))' % (ql(rec['rate']), ql(rec['eqA']), ql(rec['eqB']), boollit(rec['tabs']))
    return 'check03_growth_multi %s %s %s %s %s %s %s %s %s %s %s %s' % (
        RT, boollit(rep), qlit(rec['dG']), qlit(rec['dens']), natlit(rec['nb']), natlit(rec['ne']), ql(rec['kin']), prevG, ql(rec['yA']), ql(rec['yB']), backend, impl)


def nuc_term(rep, rec, zeroed=True):
    pv = rec['prev']
    prev = '(mkN Qops %s)' % ' '.join(qlit(v) for v in pv)
    df = 'None' if rec['df'] is None else '(Some %s)' % qlit(rec['df'])
    o = '(mkNO Qops %s %s %s %s %s %s)' % (df, qlit(rec['Rprop']), qlit(rec['Gcrit']), qlit(rec['beta']), qlit(rec['rate']), qlit(rec['radd']))
    impl = 'None' if rec['raised'] is not None else '(Some %s)' % ql(rec['after'])
    return 'check03_nuc %s %s %s %s %s %s %s %s %s' % (RT, boollit(rep), boollit(zeroed), qlit(rec['Rmin']), qlit(rec['minDens']), qlit(rec['dtprev']), prev, o, impl)


def getdt_term(rec):
    return 'check03_getDt %s %s %s %s' % (qlit(rec['dtMax']), qlit(rec['dtPropose']), ql(rec['cands']), qlit(rec['out']))


def allfinite(rec, keys):
    for k in keys:
        v = rec.get(k)
        if v is None:
            continue
        if isinstance(v, dict):
            if not allfinite(v, v.keys()):
                return False
        elif isinstance(v, (list, np.ndarray, float, int)) and not isinstance(v, bool):
            try:
                if not np.all(np.isfinite(np.asarray(v, dtype=float))):
                    return False
            except (TypeError, ValueError):
                return False
    return True


# ------------------------------------------------------------------------------------------
def translate_and_prove(ctx):
    """returns (translator_ok, info_or_error, failed theorem names)"""
    src = os.path.join(REPO, 'kawin', 'precipitation', 'PrecipitationParameters.py')
    info = None
    try:
        text, info = TR.translate(open(src).read())
        tr_ok = True
    except TR.TranslateError as e:
        tr_ok, info = False, 'translator: ' + str(e)
    except Exception as e:
        tr_ok, info = False, 'translator failed unexpectedly: %s: %s' % (type(e).__name__, e)
    files = ['C03/Properties.v']
    if tr_ok:
        path = os.path.join(ctx.build, 'Gen.v')
        open(path, 'w').write(text)
        ok, out = ctx.coqc(path)
        if not ok:
            tr_ok, info = False, 'generated text does not compile: ' + out[-400:]
        else:
            files.append('C03/run/Bridge.v')
            ctx.notes['translator'] = info
    axioms, failed = ctx.prove(files)
    if not tr_ok:
        # the bridge theorems cannot be checked: count them as undischarged
        btext = open(os.path.join(COQ, 'C03', 'run', 'Bridge.v')).read()
        import re
        names = re.findall(r'^\s*Theorem\s+([A-Za-z_0-9\']+)', btext, re.M)
        ctx.cov['obligations'] += len(names)
    return tr_ok, info, failed


def runtime_matches_translation(info):
    """the class that runs is the one that was translated"""
    from kawin.precipitation.PrecipitationParameters import PrecipitationData
    probs = []
    if list(PrecipitationData.ATTRIBUTES) != list(info['attributes']):
        probs.append('PrecipitationData.ATTRIBUTES at run time %r differs from the translated list' % (list(PrecipitationData.ATTRIBUTES),))
    exp = os.path.join(REPO, 'kawin', 'precipitation', 'PrecipitationParameters.py')
    for nm in ('appendToArrays', 'copySlice', 'setSlice', 'reset'):
        fn = getattr(PrecipitationData, nm)
        if os.path.realpath(fn.__code__.co_filename) != os.path.realpath(exp):
            probs.append('%s is loaded from %s, translated file is %s' % (nm, fn.__code__.co_filename, exp))
    d = PrecipitationData(['p'], ['e'])
    missing = [a for a in info['attributes'] if not hasattr(d, a)]
    if missing:
        probs.append('a fresh PrecipitationData lacks %r' % missing)
    return probs


def corpus_cfgs():
    out = []
    p = os.path.join(VERIF, 'corpus', 'C03')
    if os.path.isdir(p):
        for f in sorted(os.listdir(p)):
            if f.endswith('.json'):
                o = json.load(open(os.path.join(p, f)))
                c = dict(o['cfg'])
                c['name'] = 'corpus:' + f
                out.append(c)
    return out


def run(ctx):
    quick = ctx.quick
    ctx.cov['rule'] = ('runs of PrecipitateModel on closed-form binary / ternary backends and on the pycalphad-backed Al-Zr / Ni-Al-Cr test systems behind a '
                       'fault wrapper (setThermodynamics): corpus inputs, every single fault (driving force, growth result, interfacial composition, '
                       'whole or partial) at the first calls of six base configurations, and random configurations (1-3 phases, 5 site types, 4 shapes, molar-volume ratio, fixed / adaptive grids, '
                       'dt constraints, Euler / RK4, 1-3 solve segments, iso / hot / ramps / tables, min/maxDtFrac, PSD recording) x fault schedules '
                       '(none, single, burst, random); the well-formedness predicate is evaluated after EVERY accepted step; a run is non-trivial when '
                       'precipitates formed; distinct by hash of the configuration; recorded steps / calls are re-executed by the Coq model')
    tm = {}
    t_ = time.time()
    tr_ok, tr_info, failed = translate_and_prove(ctx)
    tm['translate_and_prove'] = round(time.time() - t_, 1)
    rep = True            # the model variant of the current (repaired) source

    # ---- 1. search: corpus, enumerated single faults, random configurations -----------------------------------------
    corpus = corpus_cfgs()
    enum = enumerated_faults(quick)
    nrand = 100 if quick else 900
    rand = []
    for i in range(nrand):
        c = gen_cfg(ctx.rng, quick)
        c['name'] = 'random:%d' % i
        rand.append(c)
    classes, eqcfgs, scen = scenario_sets(quick)
    class_cfgs = [c for cl in classes for c in cl]
    cfgs = corpus + enum + rand + class_cfgs + eqcfgs
    t_ = time.time()
    results = run_many(cfgs, snapshots=False)
    tm['search_runs'] = round(time.time() - t_, 1)
    t_ = time.time()
    found = {}
    for c, r in zip(cfgs, results):
        ctx.count(cfg_key(c), bool(r.get('nontrivial')))
        ctx.hist('system', c.get('sys'))
        ctx.hist('phases', len(c['phases']))
        ctx.hist('iterator', c.get('iterator', 'euler'))
        ctx.hist('temperature', c.get('Tkind', c['T']['kind']))
        ctx.hist('faults', c.get('faultkind', 'single' if len(c.get('faults', [])) == 1 else ('none' if not c.get('faults') else 'several')))
        ctx.hist('grid', 'adaptive' if c.get('adaptive', True) else 'fixed')
        ctx.hist('outcome', 'error' if r.get('err') else ('capped' if r.get('capped') else 'completed'))
        ctx.cov['traces_validated_against_impl'] += 1
        for v in violations_of(c, r):
            found.setdefault((v[0], v[1]), []).append((c, r, v[2]))
        if len(ctx.cov['samples']) < 5 and r.get('nontrivial'):
            ctx.sample({'cfg': {k: c[k] for k in ('sys', 'phases', 'x0', 'T', 'iterator', 'segments') if k in c}, 'faults': c.get('faults', [])[:4],
                        'steps': r['steps'], 'end_time': r.get('final', {}).get('t'), 'max_volFrac': r.get('final', {}).get('maxfv')})
    ctx.notes['steps_checked'] = int(sum(r['steps'] for r in results))
    # equivalence classes: identical histories for every way of giving the same configuration
    byname = {c.get('name'): (c, r) for c, r in zip(cfgs, results)}
    neq = 0
    for cl in classes:
        c0, r0 = byname[cl[0]['name']]
        for cm in cl[1:]:
            c1, r1 = byname[cm['name']]
            if cm.get('noequiv') or r0.get('digest') is None or r1.get('digest') is None:
                continue
            neq += 1
            if r1['digest'] != r0['digest']:
                cls = 'display name differs from phase name' if cm.get('names') else 'calling convention of the setters'
                found.setdefault(('configuration_equivalent', cls), []).append((cm, r1, 'run %s records %r, the same configuration given plainly records %r' % (
                    cm['name'], r1.get('summary'), r0.get('summary'))))
    ctx.notes['equivalence_pairs_compared'] = neq
    ctx.notes['backend_internal_failures_injected'] = int(sum(r.get('eq_dropped', 0) for r in results))
    with ProcessPoolExecutor(max_workers=6) as ex:
        sres_ = list(ex.map(_scen_worker, scen, chunksize=1))
    for (kind, scfgs), viol in zip(scen, sres_):
        ctx.count({'scenario': kind, 'cfgs': [cfg_key(c) for c in scfgs]}, True)
        for v in viol:
            found.setdefault((v[0], v[1]), []).append((dict(scfgs[0], scenario=kind, scenario_cfgs=[cfg_key(c) for c in scfgs], name='scenario:' + kind), {'steps': 0}, v[2]))
    for (clause, cls), lst in sorted(found.items()):
        # prefer a corpus input as the replay, else minimise the first one
        lst.sort(key=lambda t: (0 if str(t[0].get('name', '')).startswith('corpus:') else 1, len(t[0].get('faults', [])), t[1]['steps']))
        c, r, msg = lst[0]
        if not str(c.get('name', '')).startswith('corpus:') and clause != 'harness':
            c2, r2 = shrink(c, clause, cls)
            if r2 is not None:
                msgs = [v[2] for v in violations_of(c2, r2) if v[0] == clause and v[1] == cls]
                c, msg = c2, (msgs[0] if msgs else msg)
        ctx.violation(clause, {'site': SITE, 'cls': cls},
                      {'kind': 'input', 'cfg': cfg_key(c), 'name': c.get('name'), 'observed': msg, 'occurrences': len(lst),
                       'oracle': 'well-formedness predicate written from the property text (harness/c03_runs.py: check_state), evaluated after every accepted step'},
                      msg)

    # ---- 2. the class that runs is the translated one ---------------------------------------------------------------
    tie_problems = []
    if tr_ok:
        tie_problems = runtime_matches_translation(tr_info)

    # ---- 3. correspondence on recorded steps and calls -------------------------------------------------------------
    snap_cfgs = [dict(c) for c in SNAP_CFGS]
    nsn = 4 if quick else 40
    k = 0
    while k < nsn:
        c = gen_cfg(ctx.rng, quick)
        c['name'] = 'snap-random:%d' % k
        c['maxsteps'] = 250 if quick else 1500
        c['recordPSD'] = False
        snap_cfgs.append(c)
        k += 1
    tm['shrink_and_report'] = round(time.time() - t_, 1)
    t_ = time.time()
    sres = run_many(snap_cfgs, snapshots=True)
    tm['snapshot_runs'] = round(time.time() - t_, 1)
    t_ = time.time()
    terms, tags = [], []
    tables = {}
    for c, r in zip(snap_cfgs, sres):
        ctx.cov['traces_validated_against_impl'] += 1
        for v in violations_of(c, r):
            if (v[0], v[1]) not in found:
                found.setdefault((v[0], v[1]), []).append((c, r, v[2]))
                ctx.violation(v[0], {'site': SITE, 'cls': v[1]}, {'kind': 'input', 'cfg': cfg_key(c), 'name': c.get('name'), 'observed': v[2]}, v[2])
        if 'meta' not in r:
            continue
        meta = r['meta']
        per = 5 if quick else 30
        for s in r['snaps'][:per]:
            # the model zeroes the start state with the threshold index of the mass balance; a step during which the lookup table was
            # rebuilt between the first derivative evaluation and the mass balance (RK4 on a ramp) is not comparable
            if finite_snap(s) and np.array_equal(s.get('rdfi_start', s['rdfi']), s['rdfi']):
                terms.append(step_term(meta, s))
                tags.append(('step', c['name'], s['step'], c))
        for rec in r['recs']['lookup'][:6 if quick else 30]:
            if allfinite(rec, ['xa', 'xb', 'ta', 'tb']):
                terms.append(lookup_term(rep, rec))
                tags.append(('lookup', c['name'], rec['p'], c))
        for rec in r['recs'].get('fill', [])[:6 if quick else 30]:
            if allfinite(rec, ['xa', 'xb', 'ia', 'ib']):
                terms.append(fill_term(rec))
                tags.append(('fill', c['name'], rec['p'], c))
        for rec in r['recs']['gbin'][:4 if quick else 24]:
            if allfinite(rec, ['x', 'xa', 'xb', 'bounds', 'kin', 'D', 'out']):
                terms.append(gbin_term(rep, rec, tables))
                tags.append(('growth', c['name'], rec['p'], c))
        for rec in r['recs']['gmulti'][:14 if quick else 80]:
            if allfinite(rec, ['dG', 'dens', 'kin', 'prevG', 'yA', 'yB', 'rate', 'eqA', 'eqB', 'backend']):
                terms.append(gmulti_term(rep, rec))
                tags.append(('growth_multi', c['name'], rec['p'], c))
        # the calls that take one of the early exits (no result, negative driving force, no impingement) come first
        def nuc_rank(rec):
            if rec['df'] is None or rec['raised'] is not None:
                return 0
            if rec['df'] < 0 and any(v != 0 for v in rec['prev'][1:]):
                return 1
            if rec['df'] < 0 or rec['beta'] == 0:
                return 2
            return 3
        nucs = sorted(enumerate(r['recs']['nuc']), key=lambda t: (nuc_rank(t[1]), t[0]))
        for _i, rec in nucs[:14 if quick else 80]:
            if allfinite(rec, ['prev', 'df', 'Rprop', 'Gcrit', 'beta', 'rate', 'radd', 'after']):
                terms.append(nuc_term(rep, rec))
                tags.append(('nucleation', c['name'], rec['p'], c))
        for rec in r['recs']['getdt'][:6 if quick else 40]:
            if allfinite(rec, ['dtMax', 'dtPropose', 'cands', 'out']):
                terms.append(getdt_term(rec))
                tags.append(('getDt', c['name'], 0, c))
    dis = []
    indet = 0
    ncorr = {}
    if terms:
        # spread the expensive terms over the shards
        order = sorted(range(len(terms)), key=lambda i: hashlib.sha1(terms[i].encode()).hexdigest())
        terms = [terms[i] for i in order]
        tags = [tags[i] for i in order]
        header = HEADER + ''.join('Definition OHM_%s : list Q := %s.\nDefinition EFFD_%s : list Q := %s.\n' % (k, ql(v[0]), k, ql(v[1])) for k, v in sorted(tables.items()))
        res = ctx.coq_eval('corr', header, terms)
        for tag, term, val in zip(tags, terms, res):
            kind, name, idx, c = tag
            ncorr[kind] = ncorr.get(kind, 0) + 1
            ctx.count({'kind': kind, 'run': name, 'term': hashlib.sha1(term.encode()).hexdigest()}, True)
            if kind == 'step':
                pv, tie, c01 = val
                if tie:
                    indet += 1
                for p, v in enumerate(pv):
                    vx, vst, t1, ttie = v
                    if ttie:
                        indet += 1
                    if vx is not None:
                        dis.append((tag, 'new distribution of phase %d, class %d: model %r' % (p, vx[1][0], float(tofrac(vx[1][1])))))
                    if vst is not None:
                        dis.append((tag, 'stored distribution of phase %d, class %d: model %r' % (p, vst[1][0], float(tofrac(vst[1][1])))))
                if c01 is not None:
                    pvs, ind01, vcomp, sat = c01[1]
                    if ind01:
                        indet += 1
                    for p, v in enumerate(pvs):
                        vd, vr, vf, vc, _t = v
                        for nm, x in (('precipitateDensity', vd), ('Ravg', vr), ('volFrac', vf), ('fconc', vc)):
                            if x is not None:
                                dis.append((tag, 'recorded %s of phase %d: model %r' % (nm, p, float(tofrac(x[1][1])))))
                    if vcomp is not None and not (sat and c.get('iterator') == 'rk4'):
                        dis.append((tag, 'recorded composition[%d]: model %r' % (vcomp[1][0], float(tofrac(vcomp[1][1])))))
            elif kind == 'lookup':
                ok_r, ok_a, ok_b, rmod = val
                if not (ok_r and ok_a and ok_b):
                    dis.append((tag, 'lookup table post-processing: RdrivingForceIndex / table differ from the model (model index %d)' % rmod))
            elif kind == 'fill':
                if not (val[0] and val[1]):
                    dis.append((tag, 'filling of missing interfacial compositions differs from the model'))
            elif kind == 'growth':
                v, tie = val
                if tie:
                    indet += 1
                if v is not None:
                    dis.append((tag, 'binary growth rate at boundary %d: model %r' % (v[1][0], float(tofrac(v[1][1])))))
            elif kind == 'growth_multi':
                ok, code = val
                if not ok:
                    dis.append((tag, 'multicomponent growth fall-back: implementation and model take different branches / values (code %d)' % code))
            elif kind == 'nucleation':
                ok, tie = val
                if tie:
                    indet += 1
                if not ok:
                    dis.append((tag, 'nucleation terms kept / overwritten differently from the model'))
            elif kind == 'getDt':
                if not val:
                    dis.append((tag, 'getDt is not the minimum rule of the model'))
    tm['coq_correspondence'] = round(time.time() - t_, 1)
    ctx.notes['timing_s'] = tm
    ctx.notes['correspondence_cases'] = ncorr
    ctx.notes['indeterminate_near_tie'] = indet
    ctx.notes['disagreements'] = len(dis)
    ctx.notes['oracle_violation_classes'] = ['%s / %s (%d runs)' % (k[0], k[1], len(v)) for k, v in sorted(found.items())]

    # ---- 4. reporting of broken ties / proofs ------------------------------------------------------------------------
    new_input_violation = any(not v['no_input'] for v in ctx.violations)
    if not tr_ok:
        ctx.violation('translator', {'site': 'harness/c03_translate.py', 'cls': 'unsupported source'},
                      {'broken': {'tie': 'translator', 'error': tr_info, 'file': 'kawin/precipitation/PrecipitationParameters.py'}},
                      'tie broken: PrecipitationData is outside the translated subset (%s)%s' % (
                          tr_info, '' if new_input_violation else '; the search found no failing input'), no_input=True)
    for pmsg in tie_problems:
        ctx.violation('translator', {'site': 'harness/c03_translate.py', 'cls': 'runtime differs'}, {'broken': {'tie': 'translator', 'error': pmsg}}, pmsg, no_input=True)
    if dis:
        by = {}
        for tag, d in dis:
            by.setdefault(tag[0], []).append((tag, d))
        for kind, lst in by.items():
            tag, d = lst[0]
            ctx.violation('correspondence', {'site': 'coq/C03/Model.v', 'cls': kind},
                          {'broken': {'correspondence': 'coq/C03/Model.v vs recorded %s' % kind, 'first_disagreement': d}, 'cfg': cfg_key(tag[3]), 'name': tag[1],
                           'index': tag[2], 'disagreements': len(lst)},
                          'model and implementation disagree on %d recorded %s case(s), e.g. run %s (%s): %s' % (len(lst), kind, tag[1], tag[2], d), no_input=True)
    for t in failed:
        ctx.violation(t, {'site': 'coq/C03', 'cls': 'proof'}, {'broken': {'theorem': t, 'file': 'coq/C03/Properties.v or coq/C03/run/Bridge.v'}},
                      'theorem %s no longer checks' % t, no_input=True)

    ctx.assumptions += [
        'finiteness (no NaN / inf) and absence of internal errors are run-time notions: decided by the search on the runs explored, not by theorem; the theorems give the guards (non-zero denominators) for the binary growth rate, the mass balance and the flux limiter',
        'total precipitate fraction <= 1 and composition <= 1 are NOT theorems: the faithful model refutes them (C03_total_fraction_refuted, C03_composition_upper_refuted) and runs reach both (open known findings)',
        'oracle premises of the trajectory theorem (sampled on every run by the correspondence): the nucleation rate is non-negative, the backend returns one growth value per class boundary, grids stay non-negative and consistent after extension / re-meshing (C08)',
        'binary64 rounding is not modelled: recorded steps are compared with relative tolerance 2^-36 of the summed magnitudes; cases within tolerance of a branch tie are counted as indeterminate',
        'closed-form stub backends (ideal dilute binary / ternary) stand in for pycalphad; the real backends are reached only through the same public calls']
    ctx.cov['trusted_base'] += ['Coq 8.16.1 kernel and vm_compute',
                                'translator harness/c03_translate.py (fail-closed; PrecipitationData only)',
                                'hand-written model coq/C03/Model.v (+ C07/C01/C02/C05 models) and correspondence harness harness/c03.py, harness/c03_runs.py (instance-level recorders, fault wrapper, stub backends)',
                                'float -> Q transport and output parser in harness/common.py']


def replay(ctx, obj):
    cfg = obj.get('cfg')
    if cfg is None:
        print('replay: no configuration in the replay file (kind %s)' % obj.get('kind'))
        return 1
    want = (obj.get('clause'), (obj.get('signature') or {}).get('cls'))
    if cfg.get('scenario'):
        vs = _scen_worker((cfg['scenario'], cfg['scenario_cfgs']))
        for v in vs:
            print('replay: %s / %s: %s' % tuple(v))
        hit = [v for v in vs if (v[0], v[1]) == want]
        print('replay: scenario %s, %d violation classes, %d matching the recorded one' % (cfg['scenario'], len(vs), len(hit)))
        return 1 if hit else 0
    r = _worker((cfg, False))
    vs = violations_of(cfg, r)
    if want[0] == 'configuration_equivalent':
        plain = {k: v for k, v in cfg.items() if k not in ('names', 'conv')}
        r0 = _worker((plain, False))
        same = r.get('digest') is not None and r.get('digest') == r0.get('digest')
        print('replay: as given %r; given plainly %r; identical histories: %s' % (r.get('summary'), r0.get('summary'), same))
        return 0 if same else 1
    for v in vs:
        print('replay: %s / %s: %s' % v)
    hit = [v for v in vs if (v[0], v[1]) == want] if want[0] else vs
    print('replay: %d accepted steps, %d violation classes, %d matching the recorded one' % (r['steps'], len(vs), len(hit)))
    return 1 if hit else 0
