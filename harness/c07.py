"""C07 - size-class transport is conservative and bounded.

proof:          coq/C07/Properties.v  (theorems about the real instance of coq/C07/Model.v)
correspondence: PopulationBalanceModel.getdXdtEuler / correctdXdtEuler / getDTEuler /
                getDissolutionIndex of /repo are run on generated inputs; the same inputs, shipped
                exactly, are evaluated by the model on exact rationals inside Coq; outputs compared.
search:         an independent scalar oracle written from the property text checks the property on
                the implementation's outputs.
"""
import copy, json
from fractions import Fraction
import numpy as np
from common import *

LEVEL = 'proof'
SITE = 'PopulationBalance'

HEADER = '''From Coq Require Import QArith List ZArith.
Require Import Kawin.Common.Ops Kawin.Common.Vec Kawin.Common.Out Kawin.C07.Model Kawin.C07.Corr.
Import ListNotations.
Open Scope Q_scope.
'''

# ------------------------------------------------------------------------------------------
# generators
def gen_case(rng, idx, quick):
    """returns dict of float inputs; 'exact' cases use small dyadic numbers so that binary64
    arithmetic is exact and ties are compared without tolerance"""
    kind = rng.choice(['exact', 'physical', 'random', 'sparse', 'huge'], p=[0.25, 0.3, 0.2, 0.15, 0.1])
    nmax = 40 if quick else 120
    n = int(rng.choice([1, 2, 3, int(rng.integers(4, nmax + 1))], p=[0.05, 0.07, 0.08, 0.8]))
    c = {'kind': str(kind), 'n': n}
    if kind == 'exact':
        cmin = float(rng.integers(0, 4))
        width = float(rng.choice([0.5, 1.0, 2.0]))
        bounds = cmin + width * np.arange(n + 1)
        psd = rng.integers(0, 9, n).astype(float) * float(rng.choice([1, 4, 0.5]))
        g = rng.integers(-4, 5, n + 1).astype(float) * float(rng.choice([1, 0.5, 2]))
        dt = float(rng.choice([0.25, 0.5, 1.0, 2.0, 4.0]))
        nuc = float(rng.integers(0, 5))
        rn = float(rng.choice([bounds[0] - 1, bounds[0], bounds[-1], bounds[-1] + 1,
                               bounds[rng.integers(0, n + 1)], bounds[rng.integers(0, n)] + width / 2]))
        cur = float(rng.choice([1.0, 8.0]))
        mr = 0.5
        md = float(rng.choice([0.0, 0.125, 0.5]))
    else:
        cmin = float(10 ** rng.uniform(-10.5, -8.5))
        cmax = cmin * float(10 ** rng.uniform(0.3, 2.0))
        bounds = np.linspace(cmin, cmax, n + 1)
        r = 0.5 * (bounds[1:] + bounds[:-1])
        if kind == 'sparse':
            psd = np.zeros(n)
            k = int(rng.integers(0, min(n, 3) + 1))
            if k:
                psd[rng.choice(n, k, replace=False)] = 10 ** rng.uniform(0, 20, k)
        elif kind == 'huge':
            psd = 10 ** rng.uniform(0, 30, n)
            psd[rng.random(n) < 0.2] = 0
        else:
            mu = rng.uniform(np.log(r[0]), np.log(r[-1]))
            s = rng.uniform(0.1, 1.0)
            psd = 10 ** rng.uniform(10, 24) * np.exp(-(np.log(r) - mu) ** 2 / (2 * s * s))
            psd[psd < 1] = 0
        if kind == 'physical':
            rc = float(10 ** rng.uniform(np.log10(bounds[0]) - 0.3, np.log10(bounds[-1]) + 0.3))
            A = float(10 ** rng.uniform(-22, -16))
            g = A * (1 / rc - 1 / bounds) / bounds
        else:
            g = rng.normal(0, 1, n + 1) * float(10 ** rng.uniform(-12, -8))
            g[rng.random(n + 1) < 0.15] = 0
            if rng.random() < 0.2:
                g = np.abs(g) * float(rng.choice([-1, 1]))
        dr = bounds[1] - bounds[0]
        gm = np.max(np.abs(g)) if np.max(np.abs(g)) > 0 else 1e-10
        dt = float(dr / gm * 10 ** rng.uniform(-2, 2))
        nuc = float(rng.choice([0, 10 ** rng.uniform(0, 25)]))
        where = rng.choice(['inside', 'below', 'above', 'onbound', 'zero'], p=[0.6, 0.1, 0.1, 0.15, 0.05])
        if where == 'inside':
            rn = float(rng.uniform(bounds[0], bounds[-1]))
        elif where == 'below':
            rn = float(bounds[0] * rng.uniform(0.1, 0.999))
        elif where == 'above':
            rn = float(bounds[-1] * rng.uniform(1.0, 3))
        elif where == 'onbound':
            rn = float(bounds[rng.integers(0, n + 1)])
        else:
            rn = 0.0
        cur = float(10 ** rng.uniform(-3, 3))
        mr = float(rng.choice([0.4, 0.5, 0.25]))
        md = float(rng.choice([0.0, 1e-3, 0.01, 0.1, 0.9]))
    d = int(rng.integers(0, n + 1)) if rng.random() < 0.7 else 0
    mi = int(rng.integers(0, n)) if rng.random() < 0.5 else 0
    c.update(bounds=[float(x) for x in bounds], psd=[float(x) for x in psd], g=[float(x) for x in g],
             dt=dt, nuc=nuc, rn=rn, cur=cur, mr=mr, md=md, d=d, mi=mi)
    return c


def corpus_cases():
    out = []
    p = os.path.join(VERIF, 'corpus', 'C07')
    if os.path.isdir(p):
        for f in sorted(os.listdir(p)):
            if f.endswith('.json'):
                c = json.load(open(os.path.join(p, f)))
                for k in ('bounds', 'psd', 'g'):
                    c[k] = [float.fromhex(x) if isinstance(x, str) else float(x) for x in c[k]]
                for k in ('dt', 'nuc', 'rn', 'cur', 'mr', 'md'):
                    c[k] = float.fromhex(c[k]) if isinstance(c[k], str) else float(c[k])
                c['kind'] = 'corpus:' + f
                out.append(c)
    return out


# ------------------------------------------------------------------------------------------
# implementation
def run_impl(c):
    from kawin.precipitation.PopulationBalance import PopulationBalanceModel
    n = c['n']
    pbm = PopulationBalanceModel(1e-10, 1e-9, n)
    b = np.array(c['bounds'])
    pbm.PSDbounds = b.copy()
    pbm.PSDsize = 0.5 * (b[:-1] + b[1:])
    pbm.bins = n
    pbm.min, pbm.max = b[0], b[-1]
    psd = np.array(c['psd'])
    pbm.PSD = psd.copy()
    g = np.array(c['g'])
    out = {}
    try:
        args_before = (g.copy(), psd.copy())
        if c.get('warm', (int(round(abs(float(np.sum(b)) * 1e6))) + n) % 2 == 1):
            # the object has a history: the same methods were evaluated before on other inputs (no state may carry over)
            g0 = -g[::-1].copy() + (np.max(np.abs(g)) if len(g) else 0.0)
            p0 = psd[::-1].copy() + 1.0
            pbm.getdXdtEuler(g0, c['nuc'] + 1.0, float(b[-1]), p0)
            pbm.correctdXdtEuler(2 * c['dt'], g0, c['nuc'] + 1.0, float(b[-1]), p0)
            pbm.getDTEuler(c['cur'], g0, 0, 0.9)
        d1 = pbm.getdXdtEuler(g, c['nuc'], c['rn'], psd)
        out['nf'] = pbm._netFlux.copy()
        out['dxdt'] = np.array(d1).copy()
        d2 = pbm.correctdXdtEuler(c['dt'], g, c['nuc'], c['rn'], psd)
        out['nf2'] = pbm._netFlux.copy()
        out['dxdt2'] = np.array(d2).copy()
        out['args_mutated'] = not (np.array_equal(args_before[0], g) and np.array_equal(args_before[1], psd))
        out['dt'] = float(pbm.getDTEuler(c['cur'], g, c['d'], c['mr']))
        # the same evaluation repeated on the same object, and the step limit asked for without a ratio (documented default 0.4)
        d1b = pbm.getdXdtEuler(g, c['nuc'], c['rn'], psd)
        out['repeat_same'] = bool(np.array_equal(np.array(d1b), out['dxdt']))
        out['dxdt_repeat'] = np.array(d1b).copy()
        out['dt_default'] = float(pbm.getDTEuler(c['cur'], g, c['d']))
        out['diss'] = int(pbm.getDissolutionIndex(c['md'], c['mi']))
        out['err'] = None
    except Exception as e:
        out['err'] = type(e).__name__ + ': ' + str(e)
    return out


def model_term(c, im):
    exact = c['kind'] == 'exact'
    rt = '(1 # 1125899906842624)' if exact else '(1 # 68719476736)'      # 2^-50 / 2^-36
    impl = '{| i_nf := %s; i_dx := %s; i_nf2 := %s; i_dx2 := %s; i_dt := %s; i_diss := %s |}' % (
        qlist(im['nf']), qlist(im['dxdt']), qlist(im['nf2']), qlist(im['dxdt2']), qlit(im['dt']), natlit(im['diss']))
    return 'check07 %s %s %s %s %s %s %s %s %s %s %s %s %s %s' % (
        rt, boollit(not exact), qlist(c['bounds']), qlist(c['psd']), qlist(c['g']), qlit(c['nuc']), qlit(c['rn']),
        qlit(c['dt']), qlit(c['cur']), qlit(c['mr']), qlit(c['md']), natlit(c['d']), natlit(c['mi']), impl)


def finite(im):
    return all(np.all(np.isfinite(im[k])) for k in ('nf', 'dxdt', 'nf2', 'dxdt2', 'dt'))


# ------------------------------------------------------------------------------------------
# comparison model <-> implementation (carried out in Coq, see coq/C07/Corr.v)
def compare(c, impl, mod):
    """returns (list of disagreement strings, indeterminate: bool)"""
    r_nf, r_dx, ltie, r_nf2, r_dx2, r_dt, dtie, diss_ok, dmod = mod
    dis = []

    def rep(name, r, iv):
        if r is not None:
            k, ap = r[1]
            mv = tofrac(ap)
            dis.append('%s[%d]: implementation %r, model %r' % (name, k, float(np.ravel(iv)[k]) if k < np.size(iv) else None, float(mv)))
    rep('netFlux', r_nf, impl['nf'])
    rep('dXdt', r_dx, impl['dxdt'])
    rep('netFlux_corrected', r_nf2, impl['nf2'])
    rep('dXdt_corrected', r_dx2, impl['dxdt2'])
    rep('getDTEuler', r_dt, [impl['dt']])
    if not diss_ok:
        dis.append('getDissolutionIndex: implementation %d, model %d' % (impl['diss'], dmod))
    return dis, bool(ltie or dtie)


# ------------------------------------------------------------------------------------------
# independent oracle (property text -> scalar loops), applied to the implementation's outputs
def oracle(c, impl):
    """returns list of (clause, cls, message)"""
    v = []
    if impl['err']:
        return [('no_internal_error', 'exception', 'implementation raised ' + impl['err'])]
    n = c['n']
    b, psd, g = c['bounds'], c['psd'], c['g']
    exact = c['kind'] == 'exact'
    dR = [b[k + 1] - b[k] for k in range(n)]
    # what crosses face k: growth (g>0) carries class k-1 upward, dissolution (g<0) carries class k downward
    face = []
    for k in range(n + 1):
        if g[k] > 0:
            face.append(g[k] * psd[k - 1] / dR[k - 1] if k > 0 else 0.0)
        elif g[k] < 0:
            face.append(g[k] * psd[k] / dR[k] if k < n else 0.0)
        else:
            face.append(0.0)
    tol = 0 if exact else 1e-9
    dx = impl['dxdt']
    # expected class of the nuclei: the class containing rn; outside the grid the nearest one
    rn = c['rn']
    if rn < b[0]:
        kn, where = 0, 'below'
    elif rn >= b[-1]:
        kn, where = n - 1, 'above'
    else:
        kn = max(k for k in range(n) if b[k] <= rn)
        where = 'inside'
    def nucleation_and_exchange(dxv, fc, label, tol=tol):
        """dxv must be the difference of the face fluxes fc plus the nucleation rate in class kn only"""
        resid = []
        for k in range(n):
            exp_t = fc[k] - fc[k + 1]
            sc = abs(fc[k]) + abs(fc[k + 1]) + abs(c['nuc'])
            resid.append((dxv[k] - exp_t, tol * sc + (0 if tol == 0 else 1e-300)))
        nz = [k for k, (r, t) in enumerate(resid) if abs(r) > t]
        want = [k for k in [kn] if abs(c['nuc']) > resid[k][1]]
        if nz != want or any(abs(resid[k][0] - c['nuc']) > resid[k][1] for k in nz):
            if len(nz) <= 1 and all(abs(resid[k][0] - c['nuc']) <= resid[k][1] for k in nz):
                v.append(('nucleation_class', 'Rnuc %s the grid%s' % (where, label),
                          'nuclei (rate %r, radius %r) were added to class %s, expected class %d (grid %r..%r)%s' % (c['nuc'], rn, nz[0] if nz else 'none', kn, b[0], b[-1], label)))
            else:
                k = nz[0] if nz else kn
                v.append(('upwind_local', 'transport' + label, 'dXdt[%d]=%r but adjacent-class exchange gives %r (+ nucleation %r)%s' % (k, dxv[k], fc[k] - fc[k + 1], c['nuc'] if k == kn else 0.0, label)))
    nucleation_and_exchange(dx, face, '')
    # the corrected rate must still be pure exchange between neighbours through the corrected faces
    # (the class-wise scale p/outflow is not exact in binary64 even for dyadic inputs: always a tolerance here)
    nucleation_and_exchange(impl['dxdt2'], [float(z) for z in impl['nf2']], ' (after the step-size correction)', tol=1e-9)
    tot2 = float(np.sum(impl['dxdt2']))
    exp2 = c['nuc'] + float(impl['nf2'][0]) - float(impl['nf2'][n])
    sc2 = sum(abs(float(x)) for x in impl['nf2']) * 2 + abs(c['nuc'])
    if abs(tot2 - exp2) > 1e-9 * sc2:
        v.append(('sum_dXdt', 'total (after the step-size correction)', 'sum(corrected dXdt)=%r, nucleation + end fluxes = %r' % (tot2, exp2)))
    # corrected face fluxes may only differ from the upwind fluxes by shrinking (checked below); the
    # uncorrected faces must be the upwind fluxes
    for k in range(n + 1):
        if abs(float(impl['nf'][k]) - face[k]) > tol * abs(face[k]) + (0 if exact else 1e-300):
            v.append(('upwind_local', 'face flux', 'face %d carries %r, upwind rule gives %r' % (k, float(impl['nf'][k]), face[k])))
            break
    # total
    tot = float(np.sum(dx))
    exp_tot = c['nuc'] + face[0] - face[n]
    sc = sum(abs(x) for x in face) * 2 + abs(c['nuc'])
    if abs(tot - exp_tot) > (0 if exact else 1e-9) * sc:
        v.append(('sum_dXdt', 'total', 'sum(dXdt)=%r, nucleation + end fluxes = %r' % (tot, exp_tot)))
    # after correction: no class loses through one face more than it holds
    dt = c['dt']
    nf2 = impl['nf2']
    for k in range(n):
        out_left = max(0.0, -nf2[k]) * dt
        out_right = max(0.0, nf2[k + 1]) * dt
        lim = psd[k] * (1 + (0 if exact else 1e-9))
        if out_left > lim or out_right > lim:
            v.append(('limiter_faces', 'face', 'class %d holds %r but loses %r (left) / %r (right) in dt=%r' % (k, psd[k], out_left, out_right, dt)))
            break
    # corrected fluxes never reversed nor amplified, and unchanged when already within bounds
    nf = impl['nf']
    for k in range(n + 1):
        if nf[k] * nf2[k] < 0 or abs(nf2[k]) > abs(nf[k]) * (1 + 1e-12):
            v.append(('limiter_shrinks', 'face', 'face %d flux %r corrected to %r' % (k, nf[k], nf2[k])))
            break
    # when no class would lose more than it holds (total through both faces), nothing may change
    safe = all((max(-nf[k], 0.0) + max(nf[k + 1], 0.0)) * dt <= psd[k] * (1 - 1e-9) for k in range(n))
    if safe and not exact:
        for k in range(n + 1):
            if nf2[k] != nf[k]:
                v.append(('limiter_minimal', 'face', 'no class loses more than it holds, but face %d flux %r was changed to %r' % (k, nf[k], nf2[k])))
                break
    # after the correction the total leaving a class is at most what it holds: no class goes negative
    if c['nuc'] >= 0:
        for k in range(n):
            new = psd[k] + dt * impl['dxdt2'][k]
            if new < -(1e-9) * (psd[k] + abs(dt * impl['dxdt2'][k])) - (0 if exact else 0.0):
                v.append(('class_nonneg', 'class', 'class %d holds %r and becomes %r after a step of %r' % (k, psd[k], new, dt)))
                break
    # CFL: classes obeying the step limit on both faces stay non-negative
    dx2 = impl['dxdt2']
    for k in range(n):
        if dt * abs(g[k]) / dR[k] <= 0.5 and dt * abs(g[k + 1]) / dR[k] <= 0.5 and c['nuc'] >= 0:
            new = psd[k] + dt * dx2[k]
            if new < -(0 if exact else 1e-9) * (psd[k] + abs(dt * dx2[k])):
                v.append(('cfl_nonneg', 'class', 'class %d obeys the step limit but becomes %r' % (k, new)))
                break
    # step limit formula
    rel = [abs(g[k]) for k in range(c['d'], n) if psd[k] > 0]
    if not rel or max(rel) == 0:
        exp_dt = c['cur']
    else:
        exp_dt = c['mr'] * (b[1] - b[0]) / max(rel)
    if abs(impl['dt'] - exp_dt) > (0 if exact else 1e-12) * abs(exp_dt):
        v.append(('dt_formula', 'value', 'getDTEuler=%r, stated rule gives %r' % (impl['dt'], exp_dt)))
    if 'dt_default' in impl:
        exp_def = c['cur'] if (not rel or max(rel) == 0) else 0.4 * (b[1] - b[0]) / max(rel)
        if abs(impl['dt_default'] - exp_def) > 1e-12 * abs(exp_def):
            v.append(('dt_formula', 'default ratio after an explicit one', 'getDTEuler without a ratio (documented default 0.4) = %r after a call with ratio %r on the same object; stated rule gives %r' % (impl['dt_default'], c['mr'], exp_def)))
    if impl.get('repeat_same') is False:
        k = int(np.argmax(np.abs(np.array(impl['dxdt_repeat']) - np.array(impl['dxdt']))))
        v.append(('sum_dXdt', 'repeated evaluation differs', 'getdXdtEuler evaluated twice on the same object with the same arguments: class %d is %r, then %r' % (k, float(impl['dxdt'][k]), float(impl['dxdt_repeat'][k]))))
    if impl.get('args_mutated'):
        v.append(('arguments_unchanged', 'mutation', 'growth or psd argument was modified in place'))
    return v


def nontrivial(c):
    return any(p > 0 and (c['g'][k] != 0 or c['g'][k + 1] != 0) for k, p in enumerate(c['psd']))


def hexcase(c):
    d = dict(c)
    for k in ('bounds', 'psd', 'g'):
        d[k] = [hexf(x) for x in c[k]]
    for k in ('dt', 'nuc', 'rn', 'cur', 'mr', 'md'):
        d[k] = hexf(c[k])
    d['decimal'] = {k: c[k] for k in ('bounds', 'psd', 'g', 'dt', 'nuc', 'rn')}
    return d


def explore(ctx, cases, label):
    """correspondence + oracle on a batch; returns (disagreements, oracle hits)"""
    impls = [run_impl(c) for c in cases]
    ok_idx = [i for i, im in enumerate(impls) if im['err'] is None and finite(im)]
    mods = ctx.coq_eval('cases_' + label, HEADER, [model_term(cases[i], impls[i]) for i in ok_idx])
    modmap = dict(zip(ok_idx, mods))
    dis_all, hits = [], []
    for i, (c, im) in enumerate(zip(cases, impls)):
        ctx.count(hexcase(c), nontrivial(c))
        ctx.hist('kind', c['kind'].split(':')[0])
        ctx.hist('bins', '1' if c['n'] == 1 else '2-3' if c['n'] <= 3 else '4-40' if c['n'] <= 40 else '>40')
        b = c['bounds']
        ctx.hist('Rnuc', 'below' if c['rn'] < b[0] else 'above' if c['rn'] >= b[-1] else 'inside')
        if i in modmap:
            dis, indet = compare(c, im, modmap[i])
            if indet:
                ctx.notes['indeterminate_near_tie'] = ctx.notes.get('indeterminate_near_tie', 0) + 1
            for d in dis:
                dis_all.append((c, d))
        else:
            dis_all.append((c, 'implementation raised ' + im['err'] if im['err'] else 'implementation returned a non-finite value'))
        for (clause, cls, msg) in oracle(c, im):
            hits.append((c, im, clause, cls, msg))
        if i < 3:
            ctx.sample({'input': {k: c[k] for k in ('kind', 'n', 'bounds', 'psd', 'g', 'dt', 'nuc', 'rn')},
                        'impl_dXdt': [float(x) for x in im.get('dxdt', [])][:8]})
    return dis_all, hits


def shrink(c, pred):
    """drop classes from the right / left while the predicate keeps failing"""
    cur = c
    changed = True
    while changed and cur['n'] > 1:
        changed = False
        for side in ('right', 'left'):
            n = cur['n']
            if n <= 1:
                break
            d = dict(cur)
            if side == 'right':
                d.update(bounds=cur['bounds'][:-1], psd=cur['psd'][:-1], g=cur['g'][:-1])
            else:
                d.update(bounds=cur['bounds'][1:], psd=cur['psd'][1:], g=cur['g'][1:])
            d['n'] = n - 1
            d['d'] = min(cur['d'], n - 1)
            d['mi'] = min(cur['mi'], n - 2) if n > 1 else 0
            try:
                if pred(d):
                    cur = d
                    changed = True
            except Exception:
                pass
    return cur


def report_hits(ctx, hits):
    seen = set()
    for (c, im, clause, cls, msg) in hits:
        if (clause, cls) in seen:
            continue
        seen.add((clause, cls))
        small = shrink(c, lambda d: any(h[0] == clause and h[1] == cls for h in oracle(d, run_impl(d))))
        msgs = [h[2] for h in oracle(small, run_impl(small)) if h[0] == clause and h[1] == cls]
        ctx.violation(clause, {'site': SITE, 'cls': cls},
                      {'kind': 'input', 'input': hexcase(small), 'observed': msgs[0] if msgs else msg,
                       'oracle': 'independent scalar recomputation from the property text (harness/c07.py: oracle)'},
                      msgs[0] if msgs else msg)


# ------------------------------------------------------------------------------------------
# model level: the step limit inside runs of the models that own a population balance
def ref_diss_index(psd, size, md, mi):
    """first class at which the cumulative volume exceeds md of the total (property text), not below mi;
    also returns whether the comparison is within rounding of a tie"""
    vol = np.asarray(psd, dtype=float) * np.asarray(size, dtype=float) ** 3
    cum = np.cumsum(vol)
    frac = md * cum[-1]
    above = cum > frac
    idx = int(np.argmax(above)) if above.any() else 0
    tie = bool(np.any(np.abs(cum - frac) <= 1e-9 * max(abs(frac), 1e-300)))
    return max(idx, int(mi)), tie


GRAIN_CFGS = [
    {'name': 'grain-rk4-lognormal', 'grid': (1e-10, 1e-8, 150, 100, 200), 'mu': 3e-9, 's': 0.3, 'solver': 'RK4', 'time': 1.2e-2},
    {'name': 'grain-euler-lognormal', 'grid': (1e-10, 1e-8, 60, 40, 80), 'mu': 2e-9, 's': 0.4, 'solver': 'EXPLICITEULER', 'time': 6e-3},
    {'name': 'grain-euler-lsw', 'grid': (1e-9, 1e-6, 100, 50, 150), 'dist': 'lsw', 'mu': 3e-7, 's': 0, 'solver': 'EXPLICITEULER', 'time': 5.0},
    {'name': 'grain-rk4-narrow', 'grid': (1e-9, 2e-8, 40, 30, 50), 'mu': 6e-9, 's': 0.15, 'solver': 'RK4', 'time': 5e-2},
]


def grain_run(cfg):
    """run a GrainGrowthModel and record the state at every getDt call (instance-level wrapper)"""
    import io, contextlib
    from kawin.precipitation.coupling import GrainGrowthModel
    from kawin.solver import SolverType
    m = GrainGrowthModel(*cfg['grid'])
    mu, s = cfg['mu'], cfg['s']
    if cfg.get('dist') == 'lsw':
        # coarsening-like distribution whose tail populates the smallest classes (dissolution index > 0)
        m.LoadDistributionFunction(lambda R: (R / mu) ** 2 * np.exp(-(R / mu) ** 4))
    else:
        m.LoadDistributionFunction(lambda R: np.exp(-0.5 * ((np.log(R) - np.log(mu)) / s) ** 2) / R)
    recs = []
    handed = []
    orig_pp = m.postProcess

    def pp(t, x, *a, **k):
        # public GenericModel hook: the distribution the solver hands back after the (corrected) step
        v = np.asarray(x[0], dtype=float)
        handed.append((float(t), float(np.min(v)), int(np.argmin(v)), float(np.max(np.abs(v)))))
        return orig_pp(t, x, *a, **k)
    m.postProcess = pp
    pbm0 = m.pbm
    orig = pbm0.getDTEuler

    def obs(currDT, growth, dissolutionIndex, *a, **k):
        # public PBM method, wrapped on the instance: the model hands over the growth field and the index it keeps
        dt = orig(currDT, growth, dissolutionIndex, *a, **k)
        pbm = m.pbm
        recs.append({'kind': 'run:' + cfg['name'], 'n': int(pbm.bins), 'bounds': [float(x) for x in pbm.PSDbounds], 'psd': [float(x) for x in pbm.PSD],
                     'g': [float(x) for x in np.asarray(growth, dtype=float)], 'dt': float(dt), 'nuc': 0.0, 'rn': 0.0, 'cur': float(currDT),
                     'mr': float(k.get('maxBinRatio', a[0] if a else 0.4)), 'md': float(m.maxDissolution), 'd': int(dissolutionIndex), 'mi': 0,
                     'time': float(m.time[-1]), 'step': len(recs)})
        return dt
    pbm0.getDTEuler = obs
    with contextlib.redirect_stdout(io.StringIO()):
        m.solve(cfg['time'], solverType=getattr(SolverType, cfg['solver']), verbose=False)
    cfg['_handed'] = handed
    return recs


def run_oracle(c):
    """the step limit of a model run: the index handed to getDTEuler is the dissolution threshold of the distribution
    about to be transported (on its own grid), and the step is the stated fraction of the class width over the fastest
    growth rate among the occupied classes from that threshold on"""
    v = []
    b, psd, g = np.array(c['bounds']), np.array(c['psd']), np.array(c['g'])
    size = 0.5 * (b[1:] + b[:-1])
    if len(psd) != len(size) or len(g) != len(b):
        return [('step_limit_in_runs', 'shape', 'step %d of %s: distribution (%d), grid (%d classes) and growth field (%d) do not match' % (c['step'], c['kind'], len(psd), len(size), len(g)))]
    if psd.sum() <= 0:
        return v
    idx, tie = ref_diss_index(psd, size, c['md'], c['mi'])
    if c['d'] != idx and not tie:
        cum = np.cumsum(psd * size ** 3)
        below = cum[c['d'] - 1] / cum[-1] if c['d'] > 0 else 0.0
        v.append(('step_limit_in_runs', 'stale_dissolution_index',
                  'step %d of %s (t = %r, %d classes): the step limit ignores the classes below index %d, which hold %.3e of the volume (allowed %.1e); the dissolution threshold of this distribution on this grid is index %d'
                  % (c['step'], c['kind'], c['time'], c['n'], c['d'], below, c['md'], idx)))
    occ = [k for k in range(idx, len(psd)) if psd[k] > 0]
    fastest = max((abs(g[k]) for k in occ), default=0.0)
    want = c['cur'] if fastest == 0 else c['mr'] * (b[1] - b[0]) / fastest
    if not tie and abs(c['dt'] - want) > 1e-9 * abs(want):
        v.append(('step_limit_in_runs', 'dt', 'step %d of %s (t = %r, %d classes): step %r, stated rule %r (%.3f of a class width for the fastest relevant class)'
                  % (c['step'], c['kind'], c['time'], c['n'], c['dt'], want, fastest * c['dt'] / (b[1] - b[0]))))
    return v


def model_runs(ctx):
    """returns (states sampled for the in-Coq correspondence, number of states checked)"""
    sampled, total = [], 0
    cfgs = [dict(c) for c in (GRAIN_CFGS if not ctx.quick else GRAIN_CFGS[:3])]
    seen = set()
    for cfg in cfgs:
        recs = grain_run(cfg)
        total += len(recs)
        regrid = [i for i in range(1, len(recs)) if recs[i]['n'] != recs[i - 1]['n']]
        ctx.hist('grain_run', '%s:%d steps,%d regrids' % (cfg['name'], len(recs), len(regrid)))
        for c in recs:
            for (cl, cls, msg) in run_oracle(c):
                if (cl, cls) in seen:
                    continue
                seen.add((cl, cls))
                ctx.violation(cl, {'site': 'kawin/precipitation/coupling/GrainGrowth.py', 'cls': cls},
                              {'kind': 'history', 'run': cfg, 'step': c['step'], 'state': hexcase(c), 'observed': msg,
                               'oracle': 'harness/c07.py: run_oracle (threshold and rule recomputed from the property text on the state at the getDt call)'}, msg)
        # explicit Euler: x + dt * corrected rate is what the solver hands to the model; the corrector guarantees that no class
        # ends below zero (theorem C07_class_nonneg), whatever the step
        if cfg['solver'] == 'EXPLICITEULER':
            for k, (t, mn, arg, mx) in enumerate(cfg.pop('_handed', [])):
                if mn < -1e-9 * max(mx, 1e-300) and ('class_nonneg', 'model_step') not in seen:
                    seen.add(('class_nonneg', 'model_step'))
                    msg = 'step %d of %s (t = %r): the distribution handed to the model after the corrected step has class %d = %r (largest class %r): a class lost more than it held' % (k, cfg['name'], t, arg, mn, mx)
                    ctx.violation('class_nonneg', {'site': 'kawin/precipitation/coupling/GrainGrowth.py', 'cls': 'model_step'},
                                  {'kind': 'history', 'run': {k2: v for k2, v in cfg.items() if not k2.startswith('_')}, 'step': k, 'observed': msg,
                                   'oracle': 'harness/c07.py: model_runs (sign of the state passed to the public postProcess hook)'}, msg)
        cfg.pop('_handed', None)
        # states for the correspondence with the Coq model: first, last, around each re-grid, a spread of others
        pick = set([0, len(recs) - 1] + [j for i in regrid for j in (i - 1, i, i + 1) if 0 <= j < len(recs)])
        pick |= set(int(x) for x in np.linspace(0, len(recs) - 1, 6 if ctx.quick else 40))
        sampled += [recs[i] for i in sorted(pick)]
    # precipitation model on the stub backend: the index it keeps per phase is the threshold of the distribution it holds
    import kwn_trace
    for cfg in [{'name': 'kwn-euler', 'phases': ('B1',), 'iterator': 'euler', 'segments': [1.5e3]},
                {'name': 'kwn-euler-2phase', 'phases': ('B1', 'B2'), 'gammas': [0.15, 0.12], 'iterator': 'euler', 'segments': [600.0]}][:1 if ctx.quick else 2]:
        try:
            tr = kwn_trace.run_binary(cfg)
        except kwn_trace.RunTimeout as e:
            ctx.violation('run_terminates', {'site': SITE, 'cls': 'run did not finish'}, {'kind': 'history', 'run': cfg['name'], 'observed': str(e)}, 'precipitation run %s did not finish: %s' % (cfg['name'], e))
            continue
        md = tr.model.constraints.maxDissolution
        for st in tr.steps:
            a = st['after']
            total += 1
            for p in range(len(a['psd'])):
                if np.sum(a['psd'][p]) <= 0:
                    continue
                idx, tie = ref_diss_index(a['psd'][p], a['size'][p], md, a['rdfi'][p])
                if int(a['dissIdx'][p]) != idx and not tie and ('step_limit_in_runs', 'kwn_index') not in seen:
                    seen.add(('step_limit_in_runs', 'kwn_index'))
                    msg = 'step %d of %s, phase %d: the model keeps dissolution index %d for its step limit; the threshold of the distribution it holds (%d classes) is %d' % (a['n'], cfg['name'], p, int(a['dissIdx'][p]), len(a['psd'][p]), idx)
                    ctx.violation('step_limit_in_runs', {'site': 'kawin/precipitation/KWNEuler.py', 'cls': 'kwn_index'},
                                  {'kind': 'history', 'run': cfg['name'], 'step': int(a['n']), 'observed': msg, 'psd': [hexf(x) for x in a['psd'][p]], 'size': [hexf(x) for x in a['size'][p]]}, msg)
        ctx.hist('kwn_run', '%s:%d steps' % (cfg['name'], len(tr.steps)))
    ctx.cov['traces_validated_against_impl'] += len(cfgs)
    return sampled, total



def run(ctx):
    quick = ctx.quick
    ctx.cov['rule'] = ('inputs generated per kind (exact dyadic / physical 1/R growth / random / sparse / huge dynamic range), '
                       'bins 1..40 (quick) or 1..120 (thorough), Rnuc inside/below/above/on a boundary; a case is non-trivial when a '
                       'populated class has a non-zero growth rate on one of its faces; distinct by hash of the exact input')
    axioms, failed = ctx.prove(['C07/Properties.v'])
    for t in failed:
        ctx.violation(t, {'site': 'coq/C07/Properties.v', 'cls': 'proof'},
                      {'broken': {'theorem': t, 'file': 'coq/C07/Properties.v'}},
                      'theorem %s no longer checks' % t, no_input=True)
    ncases = 240 if quick else 4000
    cases = corpus_cases() + [gen_case(ctx.rng, i, quick) for i in range(ncases)]
    run_states, nrun = model_runs(ctx)
    ctx.notes['run_states_checked'] = nrun
    cases += run_states
    dis, hits = explore(ctx, cases, 'main')
    report_hits(ctx, hits)
    if dis and not hits:
        # the implementation no longer behaves like the model the theorems are about: search harder
        more = [gen_case(ctx.rng, i, quick) for i in range(2000)]
        impls = [run_impl(c) for c in more]
        hits2 = [(c, im, *h) for c, im in zip(more, impls) for h in oracle(c, im)]
        ctx.cov['evaluations'] += len(more)
        if hits2:
            report_hits(ctx, hits2)
        else:
            c, d = dis[0]
            ctx.violation('correspondence', {'site': SITE, 'cls': d.split(':')[0]},
                          {'broken': {'correspondence': 'coq/C07/Model.v vs kawin/precipitation/PopulationBalance.py', 'first_disagreement': d},
                           'input': hexcase(c), 'disagreements': len(dis)},
                          'model and implementation disagree (%d cases), e.g. %s' % (len(dis), d), no_input=True)
    ctx.notes['disagreements'] = len(dis)
    ctx.notes['oracle_hits'] = len(hits)
    ctx.assumptions += [
        'binary64 rounding, numpy pairwise summation and pow() are not modelled: outputs are compared with relative tolerance 2^-36 of the summed magnitudes; exact dyadic cases are compared with zero tolerance',
        'cases whose limiter / dissolution-index branch condition lies within tolerance of a tie are counted as indeterminate, not compared',
        'the hand-written model coq/C07/Model.v is tied to the code only through this correspondence']
    ctx.cov['trusted_base'] += ['Coq 8.16.1 kernel and vm_compute', 'hand-written model coq/C07/Model.v + correspondence harness harness/c07.py',
                                'float -> Q transport (float.as_integer_ratio) and output parser in harness/common.py']


def replay(ctx, obj):
    c = obj['input']
    for k in ('bounds', 'psd', 'g'):
        c[k] = [float.fromhex(x) for x in c[k]]
    for k in ('dt', 'nuc', 'rn', 'cur', 'mr', 'md'):
        c[k] = float.fromhex(c[k])
    im = run_impl(c)
    hits = oracle(c, im)
    for h in hits:
        print('replay:', h)
    print('replay: %d oracle violations on this input' % len(hits))
    return 1 if hits else 0
