"""Fail-closed Python-ast -> Gallina translator for kawin/precipitation/parameters/ElasticFactors.py (C16).

Anything outside the accepted shapes raises TranslationError, which the check reports as a broken tie.

What is translated (emitted as `Elastic_gen.v`, real-number definitions):

  * convert2To4rankTensor / convert4To2rankTensor: the two Voigt index maps (dict of frozensets, list of
    pairs) and the shape of the loop bodies (`c4[i,j,k,l] = c2[vMap[{i,j}], vMap[{k,l}]]`,
    `c2[i,j] = c4[vMap[i][0], vMap[i][1], vMap[j][0], vMap[j][1]]`)        -> vmap24_gen, vmap42_gen
  * convertVecTo2rankTensor / convert2rankToVec: literal index tables         -> vecTo2_idx_gen, rank2ToVec_idx_gen
  * invert4rankTensor: the weight vector and the expression
    `convert2To4rankTensor(np.linalg.inv(c2 * w) / w)` (or the unweighted form) -> invert4_weights_gen, invert4_form_gen
  * elasticConstantToC: table of entries                                      -> elasticConstantToC_gen
  * moduliToC: the nested truthiness tests (`if E:` is "not None and non-zero"), the assignments of every
    branch, the compliance entries and the final np.linalg.inv               -> moduliToC_gen, moduli_s_gen
  * SphericalEnergyDescription._Khachaturyan, the I1/I2 constants of the sphere and cube descriptions,
    ConstantEnergyDescription.computeStrainEnergy                             -> Khachaturyan_gen, ...
  * EllipsoidalEnergyDescription._ohm_quickInverse, _n, _beta                 -> quickInverse_gen, n_gen, beta_gen
  * the scalar prefactors of the tensor code: Dijkl (-prod(r)/(4 pi)), sphInt (8 * d * dA), Sijmn (-0.5),
    _strainEnergy (-0.5 * V * sum), V = 4 pi / 3 prod(r) of the four energy methods, dA of
    setLebedevIntegration, and the shear-weight vectors of the two 6x6 energy methods
  * StrainEnergy.setRotationMatrix / setRotationPrecipitate: store the rotation and (guarded) call update()

numpy -> Reals: np.pi -> PI, np.sqrt -> sqrt, np.sin -> sin, np.cos -> cos, `x**n` (n a non-negative
integer literal) -> x ^ n, np.prod(radius) -> radius_0 * radius_1 * radius_2, integer literals ->
integers, float literals -> the exact decimal that was written.
"""
import ast, hashlib
from fractions import Fraction
from decimal import Decimal

SRC = 'kawin/precipitation/parameters/ElasticFactors.py'


class TranslationError(Exception):
    def __init__(self, msg, node=None, where=''):
        line = getattr(node, 'lineno', None)
        super().__init__('%s%s%s' % (where + ': ' if where else '', msg, ' (line %d)' % line if line else ''))
        self.lineno = line


NPFUN = {'sqrt': 'sqrt', 'sin': 'sin', 'cos': 'cos'}


def _num(v, node):
    if isinstance(v, bool) or not isinstance(v, (int, float)):
        raise TranslationError('unsupported constant %r' % (v,), node)
    if isinstance(v, int):
        fr = Fraction(v)
    else:
        if v != v or v in (float('inf'), float('-inf')):
            raise TranslationError('non-finite literal', node)
        fr = Fraction(Decimal(repr(v)))
    if fr.denominator == 1:
        return '%d' % fr.numerator if fr.numerator >= 0 else '(%d)' % fr.numerator
    return '(%d / %d)' % (fr.numerator, fr.denominator) if fr.numerator >= 0 else '((%d) / %d)' % (fr.numerator, fr.denominator)


def _is_np(e, attr=None):
    return isinstance(e, ast.Attribute) and isinstance(e.value, ast.Name) and e.value.id == 'np' and (attr is None or e.attr == attr)


def _attr_chain(e):
    """self.params.cMatrix_2nd -> ['self', 'params', 'cMatrix_2nd'] or None"""
    out = []
    while isinstance(e, ast.Attribute):
        out.append(e.attr)
        e = e.value
    if isinstance(e, ast.Name):
        out.append(e.id)
        return out[::-1]
    return None


def _const_index(sl):
    """subscript index -> tuple of ints, or None"""
    if isinstance(sl, ast.Constant) and isinstance(sl.value, int) and not isinstance(sl.value, bool):
        return (sl.value,)
    if isinstance(sl, ast.Tuple) and all(isinstance(x, ast.Constant) and isinstance(x.value, int) and not isinstance(x.value, bool) for x in sl.elts):
        return tuple(x.value for x in sl.elts)
    return None


def _strip_doc(body):
    if body and isinstance(body[0], ast.Expr) and isinstance(body[0].value, ast.Constant) and isinstance(body[0].value.value, str):
        return body[1:]
    return body


class Arr:
    """symbolic parameter array: elements become parameters `prefix_i_j`; shape None = unknown (then a read
    without further subscripts is a scalar parameter)"""

    def __init__(self, base, idx=(), shape=None):
        self.base, self.idx, self.shape = base, tuple(idx), shape


def _substitute(e, env):
    """AST substitution of names by expressions (normalisation of single-assignment temporaries)"""
    class S(ast.NodeTransformer):
        def visit_Name(self, n):
            if isinstance(n.ctx, ast.Load) and n.id in env:
                return env[n.id]
            return n
    import copy
    return S().visit(copy.deepcopy(e))


def inline_temporaries(body, where, keep=()):
    """straight-line body `t1 = e1; t2 = e2; ...; return e` -> e with every temporary substituted.
    Only plain-name targets assigned once; anything else is rejected."""
    env = {}
    for st in body[:-1]:
        if not (isinstance(st, ast.Assign) and len(st.targets) == 1 and isinstance(st.targets[0], ast.Name)):
            raise TranslationError('expected a sequence of simple assignments before the return', st, where)
        nm = st.targets[0].id
        if nm in env:
            raise TranslationError('temporary %s assigned twice' % nm, st, where)
        env[nm] = _substitute(st.value, env)
    if not body or not isinstance(body[-1], ast.Return) or body[-1].value is None:
        raise TranslationError('expected a final return', body[-1] if body else None, where)
    return _substitute(body[-1].value, env)


class Formula:
    """straight-line formula code -> nested `let`s over R, on a NORMALISED form: temporaries, tuple assignments (also
    nested / from rows of an array), augmented assignments, array literals with scalar broadcasting, module-level
    constants and calls of module-level functions / methods of the same class whose body is itself a formula
    (inlined) are all reduced to scalar expressions over parameters.
    Values: str (scalar Coq text) | list (of values) | Arr (symbolic parameter array).
    Parameters: declared arguments first (declaration order, all elements of arrays of known shape), then the
    object attributes that are read, sorted by name - independent of the order of first use."""

    def __init__(self, where, tr=None, cname=None, use_lets=True, prefix=''):
        self.where, self.tr, self.cname = where, tr, cname
        self.declared = []        # (base, shape or None) in declaration order
        self.used = []            # (base, idx) of attribute parameters that were read
        self.env = {}
        self.lets = []            # (coq name, coq expr)
        self.use_lets = use_lets
        self.prefix = prefix
        self.depth = 0

    def err(self, msg, node=None):
        raise TranslationError(msg, node, self.where)

    # ---- parameters ------------------------------------------------------------------------------
    @staticmethod
    def pname(base, idx):
        return base + ''.join('_%d' % i for i in idx)

    def param(self, base, idx=()):
        for b, shp in self.declared:
            if b == base:
                return self.pname(base, idx)
        if (base, tuple(idx)) not in self.used:
            self.used.append((base, tuple(idx)))
        return self.pname(base, idx)

    @property
    def params(self):
        out = []
        for b, shp in self.declared:
            if shp is None or shp == ():
                out.append(b)
            else:
                import itertools as it
                out += [self.pname(b, ix) for ix in it.product(*[range(n) for n in shp])]
        return out + sorted(self.pname(b, ix) for b, ix in self.used)

    def declare_scalar(self, pyname, coqname=None):
        self.declared.append((coqname or pyname, ()))
        self.env[pyname] = coqname or pyname

    def declare_array(self, pyname, prefix=None, shape=None):
        if shape is not None:
            self.declared.append((prefix or pyname, tuple(shape)))
        self.env[pyname] = Arr(prefix or pyname, (), tuple(shape) if shape is not None else None)

    # ---- values -------------------------------------------------------------------------------------
    def scalar(self, v, node=None):
        if isinstance(v, str):
            return v
        if isinstance(v, Arr) and (v.shape is None or len(v.idx) == len(v.shape)):
            return self.param(v.base, v.idx)
        self.err('a scalar is needed here', node)

    def expand(self, v, node=None):
        """array value -> nested lists"""
        if isinstance(v, list):
            return v
        if isinstance(v, Arr) and v.shape is not None and len(v.idx) < len(v.shape):
            return [Arr(v.base, v.idx + (k,), v.shape) for k in range(v.shape[len(v.idx)])]
        self.err('an array of known shape is needed here', node)

    def is_array(self, v):
        return isinstance(v, list) or (isinstance(v, Arr) and v.shape is not None and len(v.idx) < len(v.shape))

    def map2(self, f, a, b, node):
        aa, ba = self.is_array(a), self.is_array(b)
        if not aa and not ba:
            return f(self.scalar(a, node), self.scalar(b, node))
        if aa and ba:
            la, lb = self.expand(a, node), self.expand(b, node)
            if len(la) != len(lb):
                self.err('shapes differ', node)
            return [self.map2(f, x, y, node) for x, y in zip(la, lb)]
        if aa:
            return [self.map2(f, x, b, node) for x in self.expand(a, node)]
        return [self.map2(f, a, y, node) for y in self.expand(b, node)]

    def map1(self, f, a, node):
        if self.is_array(a):
            return [self.map1(f, x, node) for x in self.expand(a, node)]
        return f(self.scalar(a, node))

    # ---- expressions ------------------------------------------------------------------------------------
    def expr(self, e):
        """scalar expression -> Coq text"""
        return self.scalar(self.value(e), e)

    def value(self, e):
        if isinstance(e, ast.Constant):
            return _num(e.value, e)
        if isinstance(e, ast.Name):
            if e.id in self.env:
                return self.env[e.id]
            if self.tr is not None and e.id in self.tr.module_consts:
                sub = Formula('module constant ' + e.id, self.tr, None, use_lets=False)
                v = sub.value(self.tr.module_consts[e.id])
                if sub.used:
                    self.err('module constant %s is not a constant' % e.id, e)
                return v
            self.err('unknown name %s' % e.id, e)
        if _is_np(e, 'pi'):
            return 'PI'
        if isinstance(e, ast.Attribute):
            ch = _attr_chain(e)
            if ch and ch[0] == 'self' and len(ch) >= 2:
                return Arr('_'.join(ch[1:]), (), None)
            self.err('unsupported attribute', e)
        if isinstance(e, (ast.List, ast.Tuple)):
            return [self.value(x) for x in e.elts]
        if isinstance(e, ast.Subscript):
            idx = _const_index(e.slice)
            if idx is None:
                self.err('subscript must have constant integer indices', e)
            v = self.value(e.value)
            for k in idx:
                if isinstance(v, list):
                    if not -len(v) <= k < len(v):
                        self.err('index out of range', e)
                    v = v[k]
                elif isinstance(v, Arr):
                    if v.shape is not None and (len(v.idx) >= len(v.shape) or not 0 <= k < v.shape[len(v.idx)]):
                        self.err('index out of range', e)
                    if k < 0:
                        self.err('negative index of a parameter array', e)
                    v = Arr(v.base, v.idx + (k,), v.shape)
                else:
                    self.err('subscript of a scalar', e)
            return v
        if isinstance(e, ast.UnaryOp) and isinstance(e.op, ast.USub):
            return self.map1(lambda x: '(- %s)' % x, self.value(e.operand), e)
        if isinstance(e, ast.UnaryOp) and isinstance(e.op, ast.UAdd):
            return self.value(e.operand)
        if isinstance(e, ast.BinOp):
            if isinstance(e.op, ast.Pow):
                if not (isinstance(e.right, ast.Constant) and isinstance(e.right.value, int) and not isinstance(e.right.value, bool) and e.right.value >= 0):
                    self.err('exponent must be a non-negative integer literal', e)
                n = e.right.value
                return self.map1(lambda x: '(%s ^ %d)' % (x, n), self.value(e.left), e)
            ops = {ast.Add: '+', ast.Sub: '-', ast.Mult: '*', ast.Div: '/'}
            if type(e.op) not in ops:
                self.err('unsupported operator %s' % type(e.op).__name__, e)
            o = ops[type(e.op)]
            return self.map2(lambda x, y: '(%s %s %s)' % (x, o, y), self.value(e.left), self.value(e.right), e)
        if isinstance(e, ast.Call):
            if e.keywords:
                self.err('keyword arguments in a formula', e)
            if _is_np(e.func) and e.func.attr in NPFUN and len(e.args) == 1:
                fn = NPFUN[e.func.attr]
                return self.map1(lambda x: '(%s %s)' % (fn, x), self.value(e.args[0]), e)
            if _is_np(e.func, 'array') and len(e.args) == 1:
                return self.value(e.args[0])
            if _is_np(e.func, 'prod') and len(e.args) == 1:
                v = self.value(e.args[0])
                if not self.is_array(v):
                    self.err('np.prod of something that is not an array of known shape', e)
                items = [self.scalar(x, e) for x in self.expand(v, e)]
                return '(' + ' * '.join(items) + ')'
            callee = self.callee(e.func)
            if callee is not None:
                return self.inline(callee, e)
            self.err('unsupported call', e)
        self.err('unsupported expression %s' % type(e).__name__, e)

    # ---- helper functions are inlined ------------------------------------------------------------------------
    def callee(self, f):
        if self.tr is None:
            return None
        if isinstance(f, ast.Name) and f.id in self.tr.funcs:
            return (f.id, self.tr.funcs[f.id], False)
        ch = _attr_chain(f)
        if ch and len(ch) == 2 and ch[0] == 'self' and self.cname is not None:
            m = self.tr.find_method(self.cname, ch[1])
            if m is not None:
                return (ch[1], m, True)
        return None

    def inline(self, callee, call):
        name, fn, is_method = callee
        if self.depth >= 4:
            self.err('helper calls nested too deeply', call)
        if fn.decorator_list and not all(isinstance(d, ast.Name) and d.id == 'staticmethod' for d in fn.decorator_list):
            self.err('decorated helper %s' % name, call)
        static = any(isinstance(d, ast.Name) and d.id == 'staticmethod' for d in fn.decorator_list)
        formals = Translator.argnames(fn, drop_self=is_method and not static)
        if fn.args.defaults or len(formals) != len(call.args):
            self.err('helper %s: arguments do not match' % name, call)
        actual = [self.value(a) for a in call.args]
        saved = self.env
        self.env = dict(zip(formals, actual))
        self.depth += 1
        old_prefix = self.prefix
        self.prefix = old_prefix + name + '_'
        try:
            ret = None
            for st in _strip_doc(fn.body):
                if ret is not None:
                    self.err('statement after return in helper %s' % name, st)
                ret = self.stmt(st)
            if ret is None:
                self.err('helper %s does not return a value' % name, call)
            return self.value(ret)
        finally:
            self.env, self.prefix = saved, old_prefix
            self.depth -= 1

    # ---- statements ---------------------------------------------------------------------------------------------
    def bind(self, pyname, v):
        """scalars become let-bindings (later reads see the shadowing variable); arrays are kept as values"""
        if isinstance(v, str) and self.use_lets:
            coq = 'v_' + self.prefix + pyname
            self.lets.append((coq, v))
            self.env[pyname] = coq
        else:
            self.env[pyname] = v

    def freeze(self, v):
        if isinstance(v, list):
            return [self.freeze(x) for x in v]
        if isinstance(v, str):
            self.ntmp = getattr(self, 'ntmp', 0) + 1
            coq = 'v_%stmp%d' % (self.prefix, self.ntmp)
            self.lets.append((coq, v))
            return coq
        return v

    def unpack(self, tg, v, node):
        if isinstance(tg, ast.Name):
            self.bind(tg.id, v)
            return
        if isinstance(tg, (ast.Tuple, ast.List)):
            items = self.expand(v, node)
            if len(items) != len(tg.elts):
                self.err('cannot unpack %d values into %d names' % (len(items), len(tg.elts)), node)
            # all right-hand sides are evaluated before any binding: freeze scalars first
            for x, y in zip(tg.elts, items):
                self.unpack(x, y, node)
            return
        self.err('unsupported assignment target', node)

    def stmt(self, st):
        """returns the ast of the returned expression for a Return, else None"""
        if isinstance(st, ast.Assign) and len(st.targets) == 1:
            v = self.value(st.value)
            if isinstance(st.targets[0], (ast.Tuple, ast.List)):
                # a, b = b, a  must read the old values: when a target is already bound, the right-hand sides are
                # first frozen in fresh let variables
                names = [n.id for n in ast.walk(st.targets[0]) if isinstance(n, ast.Name)]
                if self.use_lets and any(n in self.env for n in names):
                    v = self.freeze(v)
            self.unpack(st.targets[0], v, st)
            return None
        if isinstance(st, ast.AugAssign) and isinstance(st.target, ast.Name):
            ops = {ast.Add: '+', ast.Sub: '-', ast.Mult: '*', ast.Div: '/'}
            if type(st.op) not in ops:
                self.err('unsupported augmented assignment', st)
            o = ops[type(st.op)]
            cur = self.value(ast.Name(id=st.target.id, ctx=ast.Load()))
            self.bind(st.target.id, self.map2(lambda x, y: '(%s %s %s)' % (x, o, y), cur, self.value(st.value), st))
            return None
        if isinstance(st, ast.Return):
            if st.value is None:
                self.err('return without a value', st)
            return st.value
        self.err('unsupported statement %s' % type(st).__name__, st)

    def wrap(self, body):
        out = body
        for name, text in reversed(self.lets):
            out = 'let %s := %s in\n  %s' % (name, text, out)
        return out

    def header(self, name, rtype='R'):
        ps = ' '.join(self.params)
        return 'Definition %s %s: %s :=\n  ' % (name, ('(%s : R) ' % ps) if ps else '', rtype)


class Translator:
    def __init__(self, source):
        self.source = source
        self.mod = ast.parse(source)
        self.funcs = {n.name: n for n in self.mod.body if isinstance(n, ast.FunctionDef)}
        self.classes = {n.name: n for n in self.mod.body if isinstance(n, ast.ClassDef)}
        # module-level constants: names assigned exactly once at module level
        self.module_consts, seen = {}, set()
        for n in self.mod.body:
            if isinstance(n, ast.Assign) and len(n.targets) == 1 and isinstance(n.targets[0], ast.Name):
                nm = n.targets[0].id
                if nm in seen:
                    self.module_consts.pop(nm, None)
                else:
                    self.module_consts[nm] = n.value
                seen.add(nm)
        self.out = []
        self.info = {}

    def find_method(self, cname, mname):
        """method node along the (single-inheritance) base chain, or None"""
        while cname in self.classes:
            c = self.classes[cname]
            for st in c.body:
                if isinstance(st, ast.FunctionDef) and st.name == mname:
                    return st
            cname = c.bases[0].id if len(c.bases) == 1 and isinstance(c.bases[0], ast.Name) else None
        return None

    # ---- lookup --------------------------------------------------------------------------------
    def func(self, name):
        if name not in self.funcs:
            raise TranslationError('function %s not found' % name)
        f = self.funcs[name]
        if f.decorator_list:
            raise TranslationError('decorated function', f, name)
        return f

    def method(self, cname, mname):
        if cname not in self.classes:
            raise TranslationError('class %s not found' % cname)
        for st in self.classes[cname].body:
            if isinstance(st, ast.FunctionDef) and st.name == mname:
                if st.decorator_list:
                    raise TranslationError('decorated method', st, '%s.%s' % (cname, mname))
                return st
        raise TranslationError('method %s.%s not found' % (cname, mname))

    @staticmethod
    def argnames(f, drop_self=False):
        a = f.args
        if a.vararg or a.kwarg or a.kwonlyargs or a.posonlyargs:
            raise TranslationError('unsupported parameter kinds', f, f.name)
        names = [x.arg for x in a.args]
        if drop_self:
            if not names or names[0] != 'self':
                raise TranslationError('method without self', f, f.name)
            names = names[1:]
        return names

    def emit(self, text):
        self.out.append(text)

    # ---- index maps ------------------------------------------------------------------------------
    def int_array_literal(self, e):
        """np.array(<nested list of ints>) (also through a module-level constant) -> numpy int array, else None"""
        import numpy as _np
        if isinstance(e, ast.Name) and e.id in self.module_consts:
            e = self.module_consts[e.id]
        if isinstance(e, ast.Call) and _is_np(e.func, 'array') and len(e.args) == 1 and not e.keywords:
            e = e.args[0]
        elif not isinstance(e, (ast.List, ast.Tuple)):
            return None

        def lit(x):
            if isinstance(x, (ast.List, ast.Tuple)):
                return [lit(y) for y in x.elts]
            if isinstance(x, ast.Constant) and isinstance(x.value, int) and not isinstance(x.value, bool):
                return x.value
            raise ValueError
        try:
            a = _np.array(lit(e))
        except ValueError:
            return None
        return a if a.dtype.kind == 'i' and a.ndim >= 1 else None

    def gather_form(self, f, shape):
        """vectorised copy  dst[...] = src[I0, I1, ...]  (or `return src[I0, I1, ...]`) where every Ik is a literal
        integer array indexed with full slices / np.newaxis only.  The index arrays are literals, so their
        broadcast (numpy semantics, evaluated here on the literals themselves) IS the index map of the function.
        Returns the list of broadcast index arrays (each of the given shape), or None if the body has another form."""
        import numpy as _np
        where = f.name
        (src,) = self.argnames(f)
        body = _strip_doc(f.body)
        arrays, dst, gathered = {}, None, None
        for st in body[:-1]:
            if not (isinstance(st, ast.Assign) and len(st.targets) == 1):
                return None
            tg = st.targets[0]
            if isinstance(tg, ast.Name):
                a = self.int_array_literal(st.value)
                if a is not None:
                    arrays[tg.id] = a
                    continue
                try:
                    dst = self._zeros_target(st, shape, where)
                    continue
                except TranslationError:
                    return None
            if (isinstance(tg, ast.Subscript) and isinstance(tg.value, ast.Name) and tg.value.id == dst and gathered is None
                    and ((isinstance(tg.slice, ast.Constant) and tg.slice.value is Ellipsis)
                         or (isinstance(tg.slice, ast.Slice) and tg.slice.lower is None and tg.slice.upper is None and tg.slice.step is None))):
                gathered = st.value
                continue
            return None
        ret = body[-1] if body else None
        if not isinstance(ret, ast.Return):
            return None
        if gathered is None:
            gathered = ret.value
        elif not (isinstance(ret.value, ast.Name) and ret.value.id == dst):
            return None
        g = gathered
        if not (isinstance(g, ast.Subscript) and isinstance(g.value, ast.Name) and g.value.id == src and isinstance(g.slice, ast.Tuple)):
            return None
        idx = []
        for ix in g.slice.elts:
            if isinstance(ix, ast.Name) and ix.id in arrays:
                idx.append(arrays[ix.id])
                continue
            if not (isinstance(ix, ast.Subscript) and isinstance(ix.value, ast.Name) and ix.value.id in arrays):
                return None
            parts = ix.slice.elts if isinstance(ix.slice, ast.Tuple) else [ix.slice]
            key = []
            for pt in parts:
                if isinstance(pt, ast.Slice) and pt.lower is None and pt.upper is None and pt.step is None:
                    key.append(slice(None))
                elif _is_np(pt, 'newaxis') or (isinstance(pt, ast.Constant) and pt.value is None):
                    key.append(None)
                else:
                    return None
            try:
                idx.append(arrays[ix.value.id][tuple(key)])
            except IndexError:
                raise TranslationError('index array subscripted with too many axes', ix, where)
        try:
            out = _np.broadcast_arrays(*idx)
        except ValueError:
            raise TranslationError('index arrays do not broadcast', g, where)
        if out[0].shape != tuple(shape):
            raise TranslationError('gathered shape %r, expected %r' % (out[0].shape, tuple(shape)), g, where)
        return [_np.array(o) for o in out]

    def tr_convert2To4(self):
        f = self.func('convert2To4rankTensor')
        where = f.name
        g = self.gather_form(f, (3, 3, 3, 3))
        if g is not None:
            if len(g) != 2:
                raise TranslationError('a 6x6 array is read with two indices', f, where)
            A, B = g
            table = {}
            for i in range(3):
                for j in range(3):
                    if not ((A[i, j] == A[i, j, 0, 0]).all() and (B[:, :, i, j] == B[0, 0, i, j]).all()):
                        raise TranslationError('row index must depend on (i,j) only, column index on (k,l) only', f, where)
                    if int(A[i, j, 0, 0]) != int(B[0, 0, i, j]):
                        raise TranslationError('row and column use different index maps', f, where)
                    table[(i, j)] = int(A[i, j, 0, 0])
            if not all(0 <= v2 < 6 for v2 in table.values()):
                raise TranslationError('index map leaves the 6x6 array', f, where)
            rows = ['  | %d, %d => %d' % (i, j, table[(i, j)]) for i in range(3) for j in range(3)]
            self.emit('(* convert2To4rankTensor (vectorised form): c4[i,j,k,l] = c2[voigt[i,j], voigt[k,l]] *)\n'
                      'Definition vmap24_gen (i j : nat) : nat :=\n  match i, j with\n%s\n  | _, _ => 0\n  end%%nat.\n'
                      'Definition convert2To4_gen (c2 : nat -> nat -> R) : nat -> nat -> nat -> nat -> R :=\n'
                      '  fun i j k l => c2 (vmap24_gen i j) (vmap24_gen k l).\n' % '\n'.join(rows))
            self.info['vmap24'] = {'%d%d' % k: v2 for k, v2 in table.items()}
            return
        (src,) = self.argnames(f)
        body = _strip_doc(f.body)
        if len(body) != 4:
            raise TranslationError('expected: vMap dict, zeros, loop, return', f, where)
        st_map, st_zero, st_loop, st_ret = body
        # vMap = {frozenset({..}): int, ...}
        if not (isinstance(st_map, ast.Assign) and len(st_map.targets) == 1 and isinstance(st_map.targets[0], ast.Name) and isinstance(st_map.value, ast.Dict)):
            raise TranslationError('vMap must be a dict literal', st_map, where)
        mapname = st_map.targets[0].id
        table = {}
        for k, v in zip(st_map.value.keys, st_map.value.values):
            if not (isinstance(k, ast.Call) and isinstance(k.func, ast.Name) and k.func.id == 'frozenset' and len(k.args) == 1
                    and isinstance(k.args[0], ast.Set) and all(isinstance(x, ast.Constant) and isinstance(x.value, int) for x in k.args[0].elts)):
                raise TranslationError('vMap keys must be frozenset({ints})', k, where)
            if not (isinstance(v, ast.Constant) and isinstance(v.value, int)):
                raise TranslationError('vMap values must be integers', v, where)
            key = frozenset(x.value for x in k.args[0].elts)
            if key in table:
                raise TranslationError('duplicate vMap key', k, where)
            table[key] = v.value
        dst = self._zeros_target(st_zero, (3, 3, 3, 3), where)
        # for i, j, k, l in itertools.product(range(3), range(3), range(3), range(3)):
        idx = self._product_loop(st_loop, [3, 3, 3, 3], where)
        lb = st_loop.body
        if len(lb) != 3:
            raise TranslationError('loop body: two frozenset assignments and the copy', st_loop, where)
        sets = {}
        for st in lb[:2]:
            if not (isinstance(st, ast.Assign) and len(st.targets) == 1 and isinstance(st.targets[0], ast.Name) and isinstance(st.value, ast.Call)
                    and isinstance(st.value.func, ast.Name) and st.value.func.id == 'frozenset' and len(st.value.args) == 1
                    and isinstance(st.value.args[0], ast.Set) and len(st.value.args[0].elts) == 2
                    and all(isinstance(x, ast.Name) for x in st.value.args[0].elts)):
                raise TranslationError('expected name = frozenset({a, b})', st, where)
            sets[st.targets[0].id] = tuple(x.id for x in st.value.args[0].elts)
        cp = lb[2]
        ok = (isinstance(cp, ast.Assign) and len(cp.targets) == 1 and isinstance(cp.targets[0], ast.Subscript)
              and isinstance(cp.targets[0].value, ast.Name) and cp.targets[0].value.id == dst
              and isinstance(cp.targets[0].slice, ast.Tuple) and [getattr(x, 'id', None) for x in cp.targets[0].slice.elts] == idx
              and isinstance(cp.value, ast.Subscript) and isinstance(cp.value.value, ast.Name) and cp.value.value.id == src
              and isinstance(cp.value.slice, ast.Tuple) and len(cp.value.slice.elts) == 2)
        if not ok:
            raise TranslationError('expected c4[i,j,k,l] = c2[vMap[..], vMap[..]]', cp, where)
        pairs = []
        for s in cp.value.slice.elts:
            if not (isinstance(s, ast.Subscript) and isinstance(s.value, ast.Name) and s.value.id == mapname
                    and isinstance(s.slice, ast.Name) and s.slice.id in sets):
                raise TranslationError('expected vMap[<frozenset name>]', s, where)
            pairs.append(sets[s.slice.id])
        if pairs != [(idx[0], idx[1]), (idx[2], idx[3])]:
            raise TranslationError('the 6x6 row must come from the first index pair, the column from the second', cp, where)
        self._return_name(st_ret, dst, where)
        rows = []
        for i in range(3):
            for j in range(3):
                key = frozenset({i, j})
                if key not in table:
                    raise TranslationError('vMap has no entry for %s' % sorted(key), st_map, where)
                rows.append('  | %d, %d => %d' % (i, j, table[key]))
        self.emit('(* convert2To4rankTensor: c4[i,j,k,l] = c2[vMap[{i,j}], vMap[{k,l}]] *)\n'
                  'Definition vmap24_gen (i j : nat) : nat :=\n  match i, j with\n%s\n  | _, _ => 0\n  end%%nat.\n'
                  'Definition convert2To4_gen (c2 : nat -> nat -> R) : nat -> nat -> nat -> nat -> R :=\n'
                  '  fun i j k l => c2 (vmap24_gen i j) (vmap24_gen k l).\n' % '\n'.join(rows))
        self.info['vmap24'] = {'%d%d' % (i, j): table[frozenset({i, j})] for i in range(3) for j in range(3)}

    def _zeros_target(self, st, shape, where):
        ok = (isinstance(st, ast.Assign) and len(st.targets) == 1 and isinstance(st.targets[0], ast.Name)
              and isinstance(st.value, ast.Call) and _is_np(st.value.func, 'zeros') and len(st.value.args) == 1
              and isinstance(st.value.args[0], ast.Tuple)
              and tuple(getattr(x, 'value', None) for x in st.value.args[0].elts) == tuple(shape))
        if not ok:
            raise TranslationError('expected name = np.zeros(%r)' % (shape,), st, where)
        return st.targets[0].id

    def _product_loop(self, st, ranges, where):
        ok = (isinstance(st, ast.For) and not st.orelse and isinstance(st.target, ast.Tuple)
              and all(isinstance(x, ast.Name) for x in st.target.elts) and len(st.target.elts) == len(ranges)
              and isinstance(st.iter, ast.Call) and _attr_chain(st.iter.func) == ['itertools', 'product']
              and len(st.iter.args) == len(ranges))
        if ok:
            for a, n in zip(st.iter.args, ranges):
                ok = ok and (isinstance(a, ast.Call) and isinstance(a.func, ast.Name) and a.func.id == 'range'
                             and len(a.args) == 1 and isinstance(a.args[0], ast.Constant) and a.args[0].value == n)
        if not ok:
            raise TranslationError('expected for <names> in itertools.product(%s)' % ', '.join('range(%d)' % n for n in ranges), st, where)
        return [x.id for x in st.target.elts]

    def _return_name(self, st, name, where):
        if not (isinstance(st, ast.Return) and isinstance(st.value, ast.Name) and st.value.id == name):
            raise TranslationError('expected return %s' % name, st, where)

    def tr_convert4To2(self):
        f = self.func('convert4To2rankTensor')
        where = f.name
        g = self.gather_form(f, (6, 6))
        if g is not None:
            if len(g) != 4:
                raise TranslationError('a 4th rank array is read with four indices', f, where)
            pairs = []
            for I in range(6):
                if not all((g[k][I, :] == g[k][I, 0]).all() for k in (0, 1)) or not all((g[k][:, I] == g[k][0, I]).all() for k in (2, 3)):
                    raise TranslationError('first index pair must depend on the row only, second pair on the column only', f, where)
                if (int(g[0][I, 0]), int(g[1][I, 0])) != (int(g[2][0, I]), int(g[3][0, I])):
                    raise TranslationError('row and column use different index maps', f, where)
                pairs.append((int(g[0][I, 0]), int(g[1][I, 0])))
            if not all(0 <= a < 3 and 0 <= b < 3 for a, b in pairs):
                raise TranslationError('index map leaves the 3x3x3x3 array', f, where)
            self.emit('(* convert4To2rankTensor (vectorised form): c2[i,j] = c4[rows[i], cols[i], rows[j], cols[j]] *)\n'
                      'Definition vmap42_gen : list (nat * nat) := [%s]%%nat.\n'
                      'Definition convert4To2_gen (c4 : nat -> nat -> nat -> nat -> R) : nat -> nat -> R :=\n'
                      '  fun i j => c4 (fst (nth i vmap42_gen (0, 0)%%nat)) (snd (nth i vmap42_gen (0, 0)%%nat))\n'
                      '                (fst (nth j vmap42_gen (0, 0)%%nat)) (snd (nth j vmap42_gen (0, 0)%%nat)).\n'
                      % '; '.join('(%d, %d)' % p2 for p2 in pairs))
            self.info['vmap42'] = pairs
            return
        (src,) = self.argnames(f)
        body = _strip_doc(f.body)
        if len(body) != 4:
            raise TranslationError('expected: vMap list, zeros, loop, return', f, where)
        st_map, st_zero, st_loop, st_ret = body
        if not (isinstance(st_map, ast.Assign) and len(st_map.targets) == 1 and isinstance(st_map.targets[0], ast.Name) and isinstance(st_map.value, ast.List)):
            raise TranslationError('vMap must be a list literal', st_map, where)
        mapname = st_map.targets[0].id
        pairs = []
        for el in st_map.value.elts:
            if not (isinstance(el, ast.List) and len(el.elts) == 2 and all(isinstance(x, ast.Constant) and isinstance(x.value, int) for x in el.elts)):
                raise TranslationError('vMap entries must be [int, int]', el, where)
            pairs.append((el.elts[0].value, el.elts[1].value))
        if len(pairs) != 6:
            raise TranslationError('vMap must have six entries', st_map, where)
        dst = self._zeros_target(st_zero, (6, 6), where)
        idx = self._product_loop(st_loop, [6, 6], where)
        if len(st_loop.body) != 1:
            raise TranslationError('loop body: one copy statement', st_loop, where)
        cp = st_loop.body[0]
        ok = (isinstance(cp, ast.Assign) and len(cp.targets) == 1 and isinstance(cp.targets[0], ast.Subscript)
              and isinstance(cp.targets[0].value, ast.Name) and cp.targets[0].value.id == dst
              and isinstance(cp.targets[0].slice, ast.Tuple) and [getattr(x, 'id', None) for x in cp.targets[0].slice.elts] == idx
              and isinstance(cp.value, ast.Subscript) and isinstance(cp.value.value, ast.Name) and cp.value.value.id == src
              and isinstance(cp.value.slice, ast.Tuple) and len(cp.value.slice.elts) == 4)
        if not ok:
            raise TranslationError('expected c2[i,j] = c4[vMap[i][0], vMap[i][1], vMap[j][0], vMap[j][1]]', cp, where)
        got = []
        for s in cp.value.slice.elts:
            if not (isinstance(s, ast.Subscript) and isinstance(s.value, ast.Subscript) and isinstance(s.value.value, ast.Name)
                    and s.value.value.id == mapname and isinstance(s.value.slice, ast.Name)
                    and isinstance(s.slice, ast.Constant) and s.slice.value in (0, 1)):
                raise TranslationError('expected vMap[<loop index>][0|1]', s, where)
            got.append((s.value.slice.id, s.slice.value))
        if got != [(idx[0], 0), (idx[0], 1), (idx[1], 0), (idx[1], 1)]:
            raise TranslationError('index order of the copy differs from c4[vMap[i][0], vMap[i][1], vMap[j][0], vMap[j][1]]', cp, where)
        self._return_name(st_ret, dst, where)
        self.emit('(* convert4To2rankTensor: c2[i,j] = c4[vMap[i][0], vMap[i][1], vMap[j][0], vMap[j][1]] *)\n'
                  'Definition vmap42_gen : list (nat * nat) := [%s]%%nat.\n'
                  'Definition convert4To2_gen (c4 : nat -> nat -> nat -> nat -> R) : nat -> nat -> R :=\n'
                  '  fun i j => c4 (fst (nth i vmap42_gen (0, 0)%%nat)) (snd (nth i vmap42_gen (0, 0)%%nat))\n'
                  '                (fst (nth j vmap42_gen (0, 0)%%nat)) (snd (nth j vmap42_gen (0, 0)%%nat)).\n'
                  % '; '.join('(%d, %d)' % p for p in pairs))
        self.info['vmap42'] = pairs

    def tr_vec_maps(self):
        # convertVecTo2rankTensor: return np.array([[v[0], v[5], v[4]], ...])
        f = self.func('convertVecTo2rankTensor')
        (v,) = self.argnames(f)
        body = _strip_doc(f.body)
        if not (len(body) == 1 and isinstance(body[0], ast.Return) and isinstance(body[0].value, ast.Call)
                and _is_np(body[0].value.func, 'array') and len(body[0].value.args) == 1 and isinstance(body[0].value.args[0], ast.List)):
            raise TranslationError('expected return np.array([[...],[...],[...]])', f, f.name)
        rows = []
        for row in body[0].value.args[0].elts:
            if not (isinstance(row, ast.List) and len(row.elts) == 3):
                raise TranslationError('expected rows of three entries', row, f.name)
            r = []
            for el in row.elts:
                if not (isinstance(el, ast.Subscript) and isinstance(el.value, ast.Name) and el.value.id == v and _const_index(el.slice) and len(_const_index(el.slice)) == 1):
                    raise TranslationError('entries must be %s[int]' % v, el, f.name)
                r.append(_const_index(el.slice)[0])
            rows.append(r)
        if len(rows) != 3:
            raise TranslationError('expected three rows', f, f.name)
        self.emit('(* convertVecTo2rankTensor *)\nDefinition vecTo2_idx_gen : list (list nat) := [%s]%%nat.\n'
                  % '; '.join('[' + '; '.join(str(x) for x in r) + ']' for r in rows))
        # convert2rankToVec: return np.array([c[0,0], c[1,1], ...])
        f = self.func('convert2rankToVec')
        (c,) = self.argnames(f)
        body = _strip_doc(f.body)
        if not (len(body) == 1 and isinstance(body[0], ast.Return) and isinstance(body[0].value, ast.Call)
                and _is_np(body[0].value.func, 'array') and len(body[0].value.args) == 1 and isinstance(body[0].value.args[0], ast.List)):
            raise TranslationError('expected return np.array([...])', f, f.name)
        ps = []
        for el in body[0].value.args[0].elts:
            if not (isinstance(el, ast.Subscript) and isinstance(el.value, ast.Name) and el.value.id == c and _const_index(el.slice) and len(_const_index(el.slice)) == 2):
                raise TranslationError('entries must be %s[int,int]' % c, el, f.name)
            ps.append(_const_index(el.slice))
        if len(ps) != 6:
            raise TranslationError('expected six entries', f, f.name)
        self.emit('(* convert2rankToVec *)\nDefinition rank2ToVec_idx_gen : list (nat * nat) := [%s]%%nat.\n' % '; '.join('(%d, %d)' % p for p in ps))

    # ---- invert4rankTensor -----------------------------------------------------------------------
    def _weights(self, st, where):
        """name = np.array([ints]) -> (name, list)"""
        if not (isinstance(st, ast.Assign) and len(st.targets) == 1 and isinstance(st.targets[0], ast.Name)
                and isinstance(st.value, ast.Call) and _is_np(st.value.func, 'array') and len(st.value.args) == 1
                and isinstance(st.value.args[0], ast.List)
                and all(isinstance(x, ast.Constant) and isinstance(x.value, (int, float)) and not isinstance(x.value, bool) for x in st.value.args[0].elts)):
            raise TranslationError('expected w = np.array([numbers])', st, where)
        return st.targets[0].id, [x.value for x in st.value.args[0].elts]

    def tr_invert4(self):
        f = self.func('invert4rankTensor')
        where = f.name
        (src,) = self.argnames(f)
        body = _strip_doc(f.body)
        # weight vector (literal or module-level constant) bound to a local name, if any
        w, wnames, rest = None, set(), []
        for st in body:
            if isinstance(st, ast.Assign) and len(st.targets) == 1 and isinstance(st.targets[0], ast.Name) and self.weights_value(st.value, where) is not None:
                if w is not None and self.weights_value(st.value, where) != w:
                    raise TranslationError('two different weight vectors', st, where)
                w = self.weights_value(st.value, where)
                wnames.add(st.targets[0].id)
            else:
                rest.append(st)
        ret = inline_temporaries(rest, where)

        def is_call(e, name):
            return isinstance(e, ast.Call) and isinstance(e.func, ast.Name) and e.func.id == name and len(e.args) == 1 and not e.keywords

        def is_w(e):
            if isinstance(e, ast.Name) and e.id in wnames:
                return True
            return (not isinstance(e, ast.Name) or e.id in self.module_consts) and self.weights_value(e, where) is not None and \
                (w is None or self.weights_value(e, where) == w)

        def is_inv(e, arg_pred):
            return (isinstance(e, ast.Call) and _attr_chain(e.func) == ['np', 'linalg', 'inv'] and len(e.args) == 1 and arg_pred(e.args[0]))
        is_c2 = lambda e: is_call(e, 'convert4To2rankTensor') and isinstance(e.args[0], ast.Name) and e.args[0].id == src
        if not is_call(ret, 'convert2To4rankTensor'):
            raise TranslationError('expected return convert2To4rankTensor(...)', f, where)
        inner = ret.args[0]
        if is_inv(inner, is_c2):
            form = 'Unweighted'
            w = [1, 1, 1, 1, 1, 1]
        elif (isinstance(inner, ast.BinOp) and isinstance(inner.op, ast.Div) and is_w(inner.right)
              and is_inv(inner.left, lambda a: isinstance(a, ast.BinOp) and isinstance(a.op, ast.Mult) and is_c2(a.left) and is_w(a.right))):
            form = 'ColumnWeighted'
            if w is None:
                w = self.weights_value(inner.right, where)
        else:
            raise TranslationError('expected np.linalg.inv(c2) or np.linalg.inv(c2 * w) / w', f, where)
        if w is None or len(w) != 6:
            raise TranslationError('weight vector must have six entries', f, where)
        self.emit('(* invert4rankTensor: convert2To4rankTensor(%s) *)\n'
                  'Inductive invert4_form := Unweighted | ColumnWeighted.\n'
                  'Definition invert4_form_gen : invert4_form := %s.\n'
                  'Definition invert4_weights_gen : list R := [%s].\n'
                  % ('np.linalg.inv(c2 * w) / w' if form == 'ColumnWeighted' else 'np.linalg.inv(c2)', form, '; '.join(_num(x, f) for x in w)))
        self.info['invert4_form'] = form

    # ---- elasticConstantToC ----------------------------------------------------------------------
    def tr_elasticConstantToC(self):
        f = self.func('elasticConstantToC')
        where = f.name
        args = self.argnames(f)
        body = _strip_doc(f.body)
        dst = self._zeros_target(body[0], (6, 6), where)
        table = {}
        for st in body[1:-1]:
            if not (isinstance(st, ast.Assign) and isinstance(st.value, ast.Name) and st.value.id in args):
                raise TranslationError('expected c[i,j] = ... = <argument>', st, where)
            for tg in st.targets:
                idx = _const_index(tg.slice) if isinstance(tg, ast.Subscript) and isinstance(tg.value, ast.Name) and tg.value.id == dst else None
                if idx is None or len(idx) != 2:
                    raise TranslationError('targets must be %s[int,int]' % dst, st, where)
                table[idx] = st.value.id
        self._return_name(body[-1], dst, where)
        rows = ['  | %d%%nat, %d%%nat => %s' % (i, j, table[(i, j)]) for (i, j) in sorted(table)]
        self.emit('(* elasticConstantToC *)\nDefinition elasticConstantToC_gen (%s : R) (i j : nat) : R :=\n  match i, j with\n%s\n  | _, _ => 0\n  end.\n'
                  % (' '.join(args), '\n'.join(rows)))

    # ---- moduliToC -------------------------------------------------------------------------------
    def tr_moduliToC(self):
        f = self.func('moduliToC')
        where = f.name
        args = self.argnames(f)
        if len(f.args.defaults) != len(args) or not all(isinstance(d, ast.Constant) and d.value is None for d in f.args.defaults):
            raise TranslationError('every parameter must default to None', f, where)
        body = _strip_doc(f.body)
        if not body or not isinstance(body[0], ast.If):
            raise TranslationError('expected the if/elif chain first', f, where)
        chain, tail = body[0], body[1:]
        outs = ['E', 'nu', 'G']
        if not all(o in args for o in outs):
            raise TranslationError('parameters E, nu, G expected', f, where)

        def expr(e, known):
            """real-valued expression over option variables: reads must be of variables known to be numbers"""
            if isinstance(e, ast.Constant):
                return _num(e.value, e)
            if isinstance(e, ast.Name):
                if e.id not in args:
                    raise TranslationError('unknown name %s' % e.id, e, where)
                if e.id not in known:
                    raise TranslationError('%s may be None where it is read' % e.id, e, where)
                return '(val %s)' % e.id
            if isinstance(e, ast.UnaryOp) and isinstance(e.op, ast.USub):
                return '(- %s)' % expr(e.operand, known)
            if isinstance(e, ast.BinOp):
                if isinstance(e.op, ast.Pow):
                    if not (isinstance(e.right, ast.Constant) and isinstance(e.right.value, int) and e.right.value >= 0):
                        raise TranslationError('exponent must be a non-negative integer literal', e, where)
                    return '(%s ^ %d)' % (expr(e.left, known), e.right.value)
                ops = {ast.Add: '+', ast.Sub: '-', ast.Mult: '*', ast.Div: '/'}
                if type(e.op) not in ops:
                    raise TranslationError('unsupported operator', e, where)
                return '(%s %s %s)' % (expr(e.left, known), ops[type(e.op)], expr(e.right, known))
            if isinstance(e, ast.Call) and _is_np(e.func, 'sqrt') and len(e.args) == 1 and not e.keywords:
                return '(sqrt %s)' % expr(e.args[0], known)
            raise TranslationError('unsupported expression', e, where)

        nbranch = [0]

        def block(stmts, known, indent, locals_):
            """sequence of assignments / nested ifs; falls through to `fin`"""
            if not stmts:
                return 'fin %s' % ' '.join(outs)
            st = stmts[0]
            if isinstance(st, ast.Assign) and len(st.targets) == 1 and isinstance(st.targets[0], ast.Name):
                nm = st.targets[0].id
                if nm in args:
                    txt = expr_l(st.value, known, locals_)
                    return 'let %s := Some %s in\n%s%s' % (nm, txt, indent, block(stmts[1:], known | {nm}, indent, locals_))
                # local helper value (R, S)
                txt = expr_l(st.value, known, locals_)
                return 'let l_%s := %s in\n%s%s' % (nm, txt, indent, block(stmts[1:], known, indent, locals_ | {nm}))
            if isinstance(st, ast.If):
                if len(stmts) != 1:
                    raise TranslationError('statements after a nested if', st, where)
                return ifchain(st, known, indent, locals_)
            raise TranslationError('unsupported statement in a branch', st, where)

        def expr_l(e, known, locals_):
            # expressions may read local helper values
            class R(ast.NodeTransformer):
                pass
            def go(e):
                if isinstance(e, ast.Name) and e.id in locals_:
                    return 'l_%s' % e.id
                if isinstance(e, ast.BinOp):
                    if isinstance(e.op, ast.Pow):
                        if not (isinstance(e.right, ast.Constant) and isinstance(e.right.value, int) and e.right.value >= 0):
                            raise TranslationError('exponent must be a non-negative integer literal', e, where)
                        return '(%s ^ %d)' % (go(e.left), e.right.value)
                    ops = {ast.Add: '+', ast.Sub: '-', ast.Mult: '*', ast.Div: '/'}
                    if type(e.op) not in ops:
                        raise TranslationError('unsupported operator', e, where)
                    return '(%s %s %s)' % (go(e.left), ops[type(e.op)], go(e.right))
                if isinstance(e, ast.UnaryOp) and isinstance(e.op, ast.USub):
                    return '(- %s)' % go(e.operand)
                if isinstance(e, ast.Call) and _is_np(e.func, 'sqrt') and len(e.args) == 1 and not e.keywords:
                    return '(sqrt %s)' % go(e.args[0])
                return expr(e, known)
            return go(e)

        def ifchain(node, known, indent, locals_):
            if not (isinstance(node.test, ast.Name) and node.test.id in args):
                raise TranslationError('tests must be bare parameter names (truthiness)', node, where)
            v = node.test.id
            ind2 = indent + '  '
            nbranch[0] += 1
            then = block(node.body, known | {v}, ind2, locals_)
            if not node.orelse:
                els = 'fin %s' % ' '.join(outs)
            elif len(node.orelse) == 1 and isinstance(node.orelse[0], ast.If):
                els = ifchain(node.orelse[0], known, indent, locals_)
                return 'if truthy %s then\n%s(%s)\n%selse %s' % (v, ind2, then, indent, els)
            else:
                els = block(node.orelse, known, ind2, locals_)
            return 'if truthy %s then\n%s(%s)\n%selse (%s)' % (v, ind2, then, indent, els)

        text = ifchain(chain, frozenset(), '  ', frozenset())
        # tail: s = np.zeros((6,6)); tuple assignments; return np.linalg.inv(s)
        if len(tail) < 3:
            raise TranslationError('expected the compliance matrix after the branches', f, where)
        dst = self._zeros_target(tail[0], (6, 6), where)
        F = Formula(where)
        for o in outs:
            F.declare_scalar(o)
        table = {}
        for st in tail[1:-1]:
            if not (isinstance(st, ast.Assign) and len(st.targets) == 1 and isinstance(st.targets[0], ast.Tuple)
                    and isinstance(st.value, ast.Tuple) and len(st.targets[0].elts) == len(st.value.elts)):
                raise TranslationError('expected s[..], s[..] = expr, expr', st, where)
            for tg, val in zip(st.targets[0].elts, st.value.elts):
                idx = _const_index(tg.slice) if isinstance(tg, ast.Subscript) and isinstance(tg.value, ast.Name) and tg.value.id == dst else None
                if idx is None or len(idx) != 2:
                    raise TranslationError('targets must be %s[int,int]' % dst, st, where)
                table[idx] = F.expr(val)
        if F.params != outs:
            raise TranslationError('compliance entries may only use E, nu, G', f, where)
        ret = tail[-1]
        if not (isinstance(ret, ast.Return) and isinstance(ret.value, ast.Call) and _attr_chain(ret.value.func) == ['np', 'linalg', 'inv']
                and len(ret.value.args) == 1 and isinstance(ret.value.args[0], ast.Name) and ret.value.args[0].id == dst):
            raise TranslationError('expected return np.linalg.inv(%s)' % dst, ret, where)
        self.emit('(* moduliToC: `if x:` is true for a number different from zero, false for None and for 0.\n'
                  '   A parameter is an [option R]; every read on a path is of a parameter that was tested or assigned\n'
                  '   on that path (checked by the translator), so [val] is never applied to None. *)\n'
                  'Definition truthy (x : option R) : bool :=\n  match x with Some v => if Req_EM_T v 0 then false else true | None => false end.\n'
                  'Definition val (x : option R) : R := match x with Some v => v | None => 0 end.\n'
                  'Definition fin (E nu G : option R) : option (R * R * R) :=\n'
                  '  match E, nu, G with Some a, Some b, Some c => Some (a, b, c) | _, _, _ => None end.\n'
                  'Definition moduliToC_gen (%s : option R) : option (R * R * R) :=\n  %s.\n'
                  % (' '.join(args), text))
        rows = ['  | %d%%nat, %d%%nat => %s' % (i, j, table[(i, j)]) for (i, j) in sorted(table)]
        self.emit('(* the compliance matrix handed to np.linalg.inv *)\nDefinition moduli_s_gen (E nu G : R) (i j : nat) : R :=\n  match i, j with\n%s\n  | _, _ => 0\n  end.\n'
                  % '\n'.join(rows))
        self.info['moduli_branches'] = nbranch[0]

    # ---- straight-line formula methods ---------------------------------------------------------------
    def formula_method(self, cname, mname, gen_name, array_args=None):
        """array_args: {argument name: shape}"""
        array_args = array_args or {}
        m = self.method(cname, mname)
        where = '%s.%s' % (cname, mname)
        names = self.argnames(m, drop_self=True)
        F = Formula(where, self, cname)
        for a in names:
            if a in array_args:
                F.declare_array(a, shape=array_args[a])
            else:
                F.declare_scalar(a)
        body = _strip_doc(m.body)
        ret = None
        for st in body:
            if ret is not None:
                F.err('statement after return', st)
            ret = F.stmt(st)
        if ret is None:
            F.err('no return', m)
        return F, ret, names

    def tr_khachaturyan(self):
        F, ret, names = self.formula_method('SphericalEnergyDescription', '_Khachaturyan', 'Khachaturyan_gen', array_args={'radius': (3,)})
        txt = F.expr(ret)
        self.emit('(* SphericalEnergyDescription._Khachaturyan; parameters in order of first use *)\n'
                  + F.header('Khachaturyan_gen') + F.wrap(txt) + '.\n')
        self.info['Khachaturyan_params'] = list(F.params)
        for cname, tag in (('SphericalEnergyDescription', 'sphere'), ('CuboidalEnergyDescription', 'cube')):
            m = self.method(cname, 'computeStrainEnergy')
            body = _strip_doc(m.body)
            (rad,) = self.argnames(m, drop_self=True)
            ok = (len(body) == 1 and isinstance(body[0], ast.Return) and isinstance(body[0].value, ast.Call)
                  and _attr_chain(body[0].value.func) == ['self', '_Khachaturyan'] and len(body[0].value.args) == 3
                  and isinstance(body[0].value.args[2], ast.Name) and body[0].value.args[2].id == rad)
            if not ok:
                raise TranslationError('expected return self._Khachaturyan(I1, I2, radius)', m, cname)
            G = Formula(cname, self, cname)
            self.emit('Definition %s_I1_gen : R := %s.\nDefinition %s_I2_gen : R := %s.\n'
                      % (tag, G.expr(body[0].value.args[0]), tag, G.expr(body[0].value.args[1])))
            if G.params:
                raise TranslationError('I1 / I2 must be constants', m, cname)
        if names != ['I1', 'I2', 'radius']:
            raise TranslationError('_Khachaturyan(self, I1, I2, radius) expected', None, 'SphericalEnergyDescription._Khachaturyan')

    def tr_constant(self):
        F, ret, names = self.formula_method('ConstantEnergyDescription', 'computeStrainEnergy', 'constantEnergy_gen', array_args={'radius': (3,)})
        txt = F.expr(ret)
        self.emit('(* ConstantEnergyDescription.computeStrainEnergy *)\n' + F.header('constantEnergy_gen') + F.wrap(txt) + '.\n')
        self.info['constant_params'] = list(F.params)

    def tr_quickInverse(self):
        m = self.method('EllipsoidalEnergyDescription', '_ohm_quickInverse')
        where = 'EllipsoidalEnergyDescription._ohm_quickInverse'
        (arg,) = self.argnames(m, drop_self=True)
        F = Formula(where, self, 'EllipsoidalEnergyDescription')
        F.declare_array(arg, 'm', shape=(3, 3))
        body = _strip_doc(m.body)
        ret = None
        for st in body:
            if ret is not None:
                F.err('statement after return', st)
            ret = F.stmt(st)
        if ret is None:
            F.err('no return', m)
        v = F.value(ret)
        if not (F.is_array(v) and len(F.expand(v, ret)) == 3 and all(F.is_array(r) and len(F.expand(r, ret)) == 3 for r in F.expand(v, ret))):
            F.err('expected a 3x3 array as result', ret)
        rows = ['[' + '; '.join(F.scalar(x, ret) for x in F.expand(r, ret)) + ']' for r in F.expand(v, ret)]
        if len(F.params) != 9:
            F.err('unexpected free names: %s' % F.params[9:], m)
        self.emit('(* EllipsoidalEnergyDescription._ohm_quickInverse (entry-wise; m_i_j = m[i,j]) *)\n'
                  + F.header('quickInverse_gen', 'list (list R)') + F.wrap('[' + ';\n   '.join(rows) + ']') + '.\n')

    def tr_n_beta(self):
        F, ret, names = self.formula_method('EllipsoidalEnergyDescription', '_n', 'n_gen')
        v = F.value(ret)
        if not (F.is_array(v) and len(F.expand(v, ret)) == 3) or names != ['phi', 'theta']:
            raise TranslationError('expected _n(self, phi, theta) returning an array of three components', None, 'EllipsoidalEnergyDescription._n')
        comps = [F.scalar(x, ret) for x in F.expand(v, ret)]
        if F.params != ['phi', 'theta']:
            raise TranslationError('_n may only use phi, theta', None, 'EllipsoidalEnergyDescription._n')
        self.emit('(* EllipsoidalEnergyDescription._n *)\n' + F.header('n_gen', 'R * R * R') + F.wrap('(%s, %s, %s)' % tuple(comps)) + '.\n')
        F, ret, names = self.formula_method('EllipsoidalEnergyDescription', '_beta', 'beta_gen')
        if names != ['a', 'b', 'c', 'phi', 'theta']:
            raise TranslationError('expected _beta(self, a, b, c, phi, theta)', None, 'EllipsoidalEnergyDescription._beta')
        txt = F.expr(ret)
        if F.params != names:
            raise TranslationError('_beta may only use its arguments', None, 'EllipsoidalEnergyDescription._beta')
        self.emit('(* EllipsoidalEnergyDescription._beta *)\n' + F.header('beta_gen') + F.wrap(txt) + '.\n')

    # ---- scalar prefactors of the tensor code ----------------------------------------------------------
    def weights_value(self, e, where):
        """np.array([numbers]) literal, possibly through a module-level constant -> list of numbers, else None"""
        if isinstance(e, ast.Name) and e.id in self.module_consts:
            e = self.module_consts[e.id]
        if (isinstance(e, ast.Call) and _is_np(e.func, 'array') and len(e.args) == 1 and isinstance(e.args[0], (ast.List, ast.Tuple))
                and all(isinstance(x, ast.Constant) and isinstance(x.value, (int, float)) and not isinstance(x.value, bool) for x in e.args[0].elts)):
            return [x.value for x in e.args[0].elts]
        return None

    def radius_expressions(self, cname, mname):
        """scalar expressions of `radius` alone that the method assigns to a local name (the particle volume):
        every assignment is tried on the normalised form (helpers inlined); what is not a formula is skipped"""
        m = self.method(cname, mname)
        args = self.argnames(m, drop_self=True)
        if len(args) != 1:
            raise TranslationError('expected one argument (radius)', m, cname + '.' + mname)
        found = []
        F = Formula(cname + '.' + mname, self, cname, use_lets=False)
        F.declare_array(args[0], 'radius', shape=(3,))
        for st in _strip_doc(m.body):
            if not (isinstance(st, ast.Assign) and len(st.targets) == 1 and isinstance(st.targets[0], ast.Name)):
                continue
            nused = len(F.used)
            try:
                v = F.value(st.value)
            except TranslationError:
                F.env.pop(st.targets[0].id, None)
                del F.used[nused:]
                continue
            F.env[st.targets[0].id] = v
            if isinstance(v, str) and len(F.used) == nused and 'radius_' in v:
                found.append(v)
        return found

    def tr_prefactors(self):
        C = 'EllipsoidalEnergyDescription'
        # sphInt: <name> = 1 / self._beta(radius[0], radius[1], radius[2], phi grid, theta grid)**n ; return <number> * d * self.dA
        m = self.method(C, 'sphInt')
        margs = self.argnames(m, drop_self=True)
        body = _strip_doc(m.body)

        def is_endterm(e):
            return (isinstance(e, ast.BinOp) and isinstance(e.op, ast.Div) and isinstance(e.left, ast.Constant) and e.left.value == 1
                    and isinstance(e.right, ast.BinOp) and isinstance(e.right.op, ast.Pow) and isinstance(e.right.right, ast.Constant)
                    and isinstance(e.right.left, ast.Call) and _attr_chain(e.right.left.func) == ['self', '_beta'] and len(e.right.left.args) == 5)
        ends = [st.value for st in body if isinstance(st, ast.Assign) and is_endterm(st.value)]
        if len(ends) != 1:
            raise TranslationError('expected one assignment <name> = 1 / self._beta(radius[0], radius[1], radius[2], phi, theta)**n', m, C + '.sphInt')
        endterm = ends[0]
        bargs = endterm.right.left.args
        for k in range(3):
            a = bargs[k]
            if not (isinstance(a, ast.Subscript) and isinstance(a.value, ast.Name) and a.value.id == margs[0] and _const_index(a.slice) == (k,)):
                raise TranslationError('_beta must receive radius[0], radius[1], radius[2]', a, C + '.sphInt')
        if _attr_chain(bargs[3]) != ['self', 'midPhiGrid'] or _attr_chain(bargs[4]) != ['self', 'midThetaGrid']:
            raise TranslationError('_beta must receive self.midPhiGrid, self.midThetaGrid', m, C + '.sphInt')
        ret = body[-1]
        ok = (isinstance(ret, ast.Return) and isinstance(ret.value, ast.BinOp) and isinstance(ret.value.op, ast.Mult)
              and _attr_chain(ret.value.right) == ['self', 'dA'] and isinstance(ret.value.left, ast.BinOp) and isinstance(ret.value.left.op, ast.Mult)
              and isinstance(ret.value.left.left, ast.Constant) and isinstance(ret.value.left.right, ast.Name))
        if not ok:
            raise TranslationError('expected return <number> * d * self.dA', ret, C + '.sphInt')
        self.emit('(* sphInt: endTerm = 1 / beta**%d ; return %s * d * self.dA *)\nDefinition endTerm_power_gen : nat := %d.\nDefinition sphInt_factor_gen : R := %s.\n'
                  % (endterm.right.right.value, _num(ret.value.left.left.value, ret), endterm.right.right.value, _num(ret.value.left.left.value, ret)))
        # Dijkl: return <expr> * self.sphInt(<its two arguments>)   (temporaries substituted)
        m = self.method(C, 'Dijkl')
        margs = self.argnames(m, drop_self=True)
        ret = inline_temporaries(_strip_doc(m.body), C + '.Dijkl')
        ok = (isinstance(ret, ast.BinOp) and isinstance(ret.op, ast.Mult)
              and isinstance(ret.right, ast.Call) and _attr_chain(ret.right.func) == ['self', 'sphInt']
              and [getattr(a, 'id', None) for a in ret.right.args] == margs and len(margs) == 2)
        if not ok:
            raise TranslationError('expected return <prefactor> * self.sphInt(radius, c4)', m, C + '.Dijkl')
        F = Formula(C + '.Dijkl', self, C)
        F.declare_array(margs[0], 'radius', shape=(3,))
        txt = F.expr(ret.left)
        self.emit('(* Dijkl: return <this> * self.sphInt(radius, c4) *)\n' + F.header('Dijkl_prefactor_gen') + F.wrap(txt) + '.\n')
        # Sijmn: S = <number> * np.tensordot(...)
        m = self.method(C, 'Sijmn')
        pref = None
        for st in _strip_doc(m.body):
            if isinstance(st, ast.Assign) and isinstance(st.value, ast.BinOp) and isinstance(st.value.op, ast.Mult) \
                    and isinstance(st.value.right, ast.Call) and _is_np(st.value.right.func, 'tensordot'):
                pref = st.value.left
        if pref is None:
            raise TranslationError('expected S = <number> * np.tensordot(...)', m, C + '.Sijmn')
        self.emit('(* Sijmn: S = <this> * np.tensordot(...) *)\nDefinition Sijmn_prefactor_gen : R := %s.\n' % Formula(C + '.Sijmn', self, C).expr(pref))
        # _strainEnergy(stress, strain, V): return <expr in V> * np.sum(stress * strain)
        m = self.method(C, '_strainEnergy')
        margs = self.argnames(m, drop_self=True)
        ret = inline_temporaries(_strip_doc(m.body), C + '._strainEnergy')
        ok = (len(margs) == 3 and isinstance(ret, ast.BinOp) and isinstance(ret.op, ast.Mult)
              and isinstance(ret.right, ast.Call) and _is_np(ret.right.func, 'sum') and len(ret.right.args) == 1
              and isinstance(ret.right.args[0], ast.BinOp) and isinstance(ret.right.args[0].op, ast.Mult)
              and sorted(getattr(x, 'id', '') for x in (ret.right.args[0].left, ret.right.args[0].right)) == sorted(margs[:2]))
        if not ok:
            raise TranslationError('expected return <prefactor> * np.sum(stress * strain)', m, C + '._strainEnergy')
        F = Formula(C + '._strainEnergy', self, C)
        F.declare_scalar(margs[2], 'V')
        txt = F.expr(ret.left)
        self.emit('(* _strainEnergy: return <this> * np.sum(stress * strain) *)\n' + F.header('strainEnergy_prefactor_gen') + F.wrap(txt) + '.\n')
        # the particle volume of the four energy methods; weights of the two 6x6 methods
        vols = []
        for mn in ('strainEnergyEllipsoid', 'strainEnergyEllipsoid2ndRank', 'strainEnergyBohm', 'strainEnergyBohm2ndRank'):
            found = sorted(set(self.radius_expressions(C, mn)))
            if len(found) != 1:
                raise TranslationError('expected exactly one scalar expression of the radii (the volume), found %d' % len(found), self.method(C, mn), C + '.' + mn)
            vols.append(found[0])
        if len(set(vols)) != 1:
            raise TranslationError('the four energy methods must use the same volume expression of radius', None, C)
        self.emit('(* V of the four energy methods *)\nDefinition volume_gen (radius_0 radius_1 radius_2 : R) : R :=\n  %s.\n' % vols[0])
        for mn, tag in (('strainEnergyEllipsoid2ndRank', 'ellipsoid2'), ('strainEnergyBohm2ndRank', 'bohm2')):
            m = self.method(C, mn)
            ws = []
            for st in _strip_doc(m.body):
                if isinstance(st, ast.Assign) and len(st.targets) == 1 and isinstance(st.targets[0], ast.Name):
                    w = self.weights_value(st.value, mn)
                    if w is not None:
                        ws.append(w)
            w = ws[0] if ws else [1, 1, 1, 1, 1, 1]
            if len(ws) > 1 or len(w) != 6:
                raise TranslationError('at most one 6-entry weight vector expected', m, C + '.' + mn)
            self.emit('Definition %s_weights_gen : list R := [%s].\n' % (tag, '; '.join(_num(x, m) for x in w)))
        # setLebedevIntegration: self.dA = np.pi/2
        m = self.method(C, 'setLebedevIntegration')
        da = [st for st in ast.walk(m) if isinstance(st, ast.Assign) and len(st.targets) == 1 and _attr_chain(st.targets[0]) == ['self', 'dA']]
        if len(da) != 1:
            raise TranslationError('expected one assignment self.dA = ...', m, C + '.setLebedevIntegration')
        self.emit('(* setLebedevIntegration: self.dA *)\nDefinition lebedev_dA_gen : R := %s.\n' % Formula(C, self, C).expr(da[0].value))

    # ---- rotation setters ---------------------------------------------------------------------------------
    def tr_rotation_setters(self):
        res = {}
        for mn, attr in (('setRotationMatrix', 'rotation'), ('setRotationPrecipitate', 'rotationPrec')):
            m = self.method('StrainEnergy', mn)
            where = 'StrainEnergy.' + mn
            (rot,) = self.argnames(m, drop_self=True)
            body = _strip_doc(m.body)
            st = body[0] if body else None
            ok = (isinstance(st, ast.Assign) and len(st.targets) == 1 and _attr_chain(st.targets[0]) == ['self', attr]
                  and isinstance(st.value, ast.Call) and _is_np(st.value.func, 'array') and len(st.value.args) == 1
                  and isinstance(st.value.args[0], ast.Name) and st.value.args[0].id == rot)
            if not ok:
                raise TranslationError('expected self.%s = np.array(%s)' % (attr, rot), m, where)
            rest = body[1:]
            if not rest:
                res[mn] = 'StoreOnly'
            else:
                g = rest[0]
                ok = (len(rest) == 1 and isinstance(g, ast.If) and not g.orelse and isinstance(g.test, ast.Call) and not g.test.args
                      and _attr_chain(g.test.func) == ['self', 'unrotated_cMatrix_4th', 'any'] and len(g.body) == 1
                      and isinstance(g.body[0], ast.Expr) and isinstance(g.body[0].value, ast.Call) and not g.body[0].value.args
                      and _attr_chain(g.body[0].value.func) == ['self', 'update'])
                if ok:
                    res[mn] = 'UpdateIfMatrixSet'
                else:
                    raise TranslationError('expected nothing or `if self.unrotated_cMatrix_4th.any(): self.update()` after the assignment', m, where)
        self.emit('(* StrainEnergy.setRotationMatrix / setRotationPrecipitate *)\nInductive rot_setter := StoreOnly | UpdateIfMatrixSet.\n'
                  'Definition setRotationMatrix_gen : rot_setter := %s.\nDefinition setRotationPrecipitate_gen : rot_setter := %s.\n'
                  % (res['setRotationMatrix'], res['setRotationPrecipitate']))
        self.info['rotation_setters'] = res

    # ---- driver ---------------------------------------------------------------------------------------------
    def run(self):
        self.emit('(* GENERATED by harness/c16_translate.py from %s - do not edit *)\n'
                  'From Coq Require Import Reals List.\nImport ListNotations.\nOpen Scope R_scope.\n' % SRC)
        self.tr_convert2To4()
        self.tr_convert4To2()
        self.tr_vec_maps()
        self.tr_invert4()
        self.tr_elasticConstantToC()
        self.tr_moduliToC()
        self.tr_khachaturyan()
        self.tr_constant()
        self.tr_quickInverse()
        self.tr_n_beta()
        self.tr_prefactors()
        self.tr_rotation_setters()
        text = '\n'.join(self.out)
        self.info['sha256'] = hashlib.sha256(text.encode()).hexdigest()
        return text, self.info


def translate(source):
    return Translator(source).run()


if __name__ == '__main__':
    import sys
    src = open(sys.argv[1]).read()
    text, info = translate(src)
    sys.stdout.write(text)
    sys.stderr.write(repr(info) + '\n')
