"""Fail-closed Python-ast -> Gallina translator for kawin/precipitation/parameters/ElasticFactors.py (C16).

Anything outside the accepted shapes raises TranslationError, which the check reports as a broken tie.

What is translated (emitted as `Elastic_gen.v`, real-number definitions):

  * convert2To4rankTensor / convert4To2rankTensor: the two Voigt index maps (dict of frozensets, list of
    pairs) and the shape of the loop bodies (`c4[i,j,k,l] = c2[vMap[{i,j}], vMap[{k,l}]]`,
    `c2[i,j] = c4[vMap[i][0], vMap[i][1], vMap[j][0], vMap[j][1]]`)        -> vmap24_gen, vmap42_gen
  * convertVecTo2rankTensor / convert2rankToVec: literal index tables         -> vecTo2_idx_gen, rank2ToVec_idx_gen
  * invert4rankTensor: the weight vector and the expression
    `convert2To4rankTensor(np.linalg.inv(c2 * w) / w)` (or the unweighted form) -> invert4_weights_gen, invert4_form_gen
  * elasticConstantToC: table of entries                                      -> elasticConstantToC_gen
  * moduliToC: the nested truthiness tests (`if E:` is "not None and non-zero"), the assignments of every
    branch, the compliance entries and the final np.linalg.inv               -> moduliToC_gen, moduli_s_gen
  * SphericalEnergyDescription._Khachaturyan, the I1/I2 constants of the sphere and cube descriptions,
    ConstantEnergyDescription.computeStrainEnergy                             -> Khachaturyan_gen, ...
  * EllipsoidalEnergyDescription._ohm_quickInverse, _n, _beta                 -> quickInverse_gen, n_gen, beta_gen
  * the scalar prefactors of the tensor code: Dijkl (-prod(r)/(4 pi)), sphInt (8 * d * dA), Sijmn (-0.5),
    _strainEnergy (-0.5 * V * sum), V = 4 pi / 3 prod(r) of the four energy methods, dA of
    setLebedevIntegration, and the shear-weight vectors of the two 6x6 energy methods
  * StrainEnergy.setRotationMatrix / setRotationPrecipitate: store the rotation and (guarded) call update()

numpy -> Reals: np.pi -> PI, np.sqrt -> sqrt, np.sin -> sin, np.cos -> cos, `x**n` (n a non-negative
integer literal) -> x ^ n, np.prod(radius) -> radius_0 * radius_1 * radius_2, integer literals ->
integers, float literals -> the exact decimal that was written.
"""
import ast, hashlib
from fractions import Fraction
from decimal import Decimal

SRC = 'kawin/precipitation/parameters/ElasticFactors.py'


class TranslationError(Exception):
    def __init__(self, msg, node=None, where=''):
        line = getattr(node, 'lineno', None)
        super().__init__('%s%s%s' % (where + ': ' if where else '', msg, ' (line %d)' % line if line else ''))
        self.lineno = line


NPFUN = {'sqrt': 'sqrt', 'sin': 'sin', 'cos': 'cos'}


def _num(v, node):
    if isinstance(v, bool) or not isinstance(v, (int, float)):
        raise TranslationError('unsupported constant %r' % (v,), node)
    if isinstance(v, int):
        fr = Fraction(v)
    else:
        if v != v or v in (float('inf'), float('-inf')):
            raise TranslationError('non-finite literal', node)
        fr = Fraction(Decimal(repr(v)))
    if fr.denominator == 1:
        return '%d' % fr.numerator if fr.numerator >= 0 else '(%d)' % fr.numerator
    return '(%d / %d)' % (fr.numerator, fr.denominator) if fr.numerator >= 0 else '((%d) / %d)' % (fr.numerator, fr.denominator)


def _is_np(e, attr=None):
    return isinstance(e, ast.Attribute) and isinstance(e.value, ast.Name) and e.value.id == 'np' and (attr is None or e.attr == attr)


def _attr_chain(e):
    """self.params.cMatrix_2nd -> ['self', 'params', 'cMatrix_2nd'] or None"""
    out = []
    while isinstance(e, ast.Attribute):
        out.append(e.attr)
        e = e.value
    if isinstance(e, ast.Name):
        out.append(e.id)
        return out[::-1]
    return None


def _const_index(sl):
    """subscript index -> tuple of ints, or None"""
    if isinstance(sl, ast.Constant) and isinstance(sl.value, int) and not isinstance(sl.value, bool):
        return (sl.value,)
    if isinstance(sl, ast.Tuple) and all(isinstance(x, ast.Constant) and isinstance(x.value, int) and not isinstance(x.value, bool) for x in sl.elts):
        return tuple(x.value for x in sl.elts)
    return None


def _strip_doc(body):
    if body and isinstance(body[0], ast.Expr) and isinstance(body[0].value, ast.Constant) and isinstance(body[0].value.value, str):
        return body[1:]
    return body


class Formula:
    """straight-line scalar formula code -> nested `let`s over R.
    env: python name -> ('scalar', coq text) | ('array', coq prefix)   (arrays are read through constant subscripts:
    prefix_i_j becomes a parameter, collected in order of first use)."""

    def __init__(self, where):
        self.where = where
        self.params = []          # coq parameter names in order of first use
        self.env = {}
        self.lets = []            # (coq name, coq expr)

    def err(self, msg, node=None):
        raise TranslationError(msg, node, self.where)

    def param(self, name):
        if name not in self.params:
            self.params.append(name)
        return name

    def declare_scalar(self, pyname, coqname=None):
        self.env[pyname] = ('scalar', self.param(coqname or pyname))

    def declare_array(self, pyname, prefix=None):
        self.env[pyname] = ('array', prefix or pyname)

    def expr(self, e):
        if isinstance(e, ast.Constant):
            return _num(e.value, e)
        if isinstance(e, ast.Name):
            if e.id in self.env and self.env[e.id][0] == 'scalar':
                return self.env[e.id][1]
            self.err('unknown or non-scalar name %s' % e.id, e)
        if _is_np(e, 'pi'):
            return 'PI'
        if isinstance(e, ast.Attribute):
            ch = _attr_chain(e)
            if ch and ch[0] == 'self' and len(ch) >= 2:
                return self.param('_'.join(ch[1:]))
            self.err('unsupported attribute', e)
        if isinstance(e, ast.Subscript):
            idx = _const_index(e.slice)
            if idx is None:
                self.err('subscript must have constant integer indices', e)
            base = e.value
            if isinstance(base, ast.Name) and base.id in self.env and self.env[base.id][0] == 'array':
                return self.param(self.env[base.id][1] + ''.join('_%d' % i for i in idx))
            ch = _attr_chain(base)
            if ch and ch[0] == 'self' and len(ch) >= 2:
                return self.param('_'.join(ch[1:]) + ''.join('_%d' % i for i in idx))
            self.err('subscript of an unknown array', e)
        if isinstance(e, ast.UnaryOp) and isinstance(e.op, ast.USub):
            return '(- %s)' % self.expr(e.operand)
        if isinstance(e, ast.BinOp):
            if isinstance(e.op, ast.Pow):
                if not (isinstance(e.right, ast.Constant) and isinstance(e.right.value, int) and not isinstance(e.right.value, bool) and e.right.value >= 0):
                    self.err('exponent must be a non-negative integer literal', e)
                return '(%s ^ %d)' % (self.expr(e.left), e.right.value)
            ops = {ast.Add: '+', ast.Sub: '-', ast.Mult: '*', ast.Div: '/'}
            if type(e.op) not in ops:
                self.err('unsupported operator %s' % type(e.op).__name__, e)
            return '(%s %s %s)' % (self.expr(e.left), ops[type(e.op)], self.expr(e.right))
        if isinstance(e, ast.Call):
            if e.keywords:
                self.err('keyword arguments in a formula', e)
            if _is_np(e.func) and e.func.attr in NPFUN and len(e.args) == 1:
                return '(%s %s)' % (NPFUN[e.func.attr], self.expr(e.args[0]))
            if _is_np(e.func, 'prod') and len(e.args) == 1 and isinstance(e.args[0], ast.Name) \
                    and e.args[0].id in self.env and self.env[e.args[0].id][0] == 'array':
                p = self.env[e.args[0].id][1]
                return '(%s * %s * %s)' % (self.param(p + '_0'), self.param(p + '_1'), self.param(p + '_2'))
            self.err('unsupported call', e)
        self.err('unsupported expression %s' % type(e).__name__, e)

    def bind(self, pyname, text):
        """a let-binding; later reads of pyname see the (shadowing) let variable"""
        coq = 'v_' + pyname
        self.lets.append((coq, text))
        self.env[pyname] = ('scalar', coq)

    def stmt(self, st):
        """returns the ast of the returned expression for a Return, else None"""
        if isinstance(st, ast.Assign) and len(st.targets) == 1:
            tg, val = st.targets[0], st.value
            if isinstance(tg, ast.Name):
                ch = _attr_chain(val)
                if ch and ch[0] == 'self' and len(ch) >= 2 and not isinstance(val, ast.Subscript):
                    # alias of an attribute: scalar if it is only used as a scalar, array if subscripted;
                    # recorded as an array prefix, and reads as a scalar go through param()
                    self.env[tg.id] = ('array', '_'.join(ch[1:]))
                    return None
                self.bind(tg.id, self.expr(val))
                return None
            if isinstance(tg, ast.Tuple) and isinstance(val, ast.Tuple) and len(tg.elts) == len(val.elts) \
                    and all(isinstance(x, ast.Name) for x in tg.elts):
                texts = [self.expr(v) for v in val.elts]          # right-hand side evaluated first
                for x, t in zip(tg.elts, texts):
                    self.bind(x.id, t)
                return None
            self.err('unsupported assignment target', st)
        if isinstance(st, ast.AugAssign) and isinstance(st.target, ast.Name):
            ops = {ast.Add: '+', ast.Sub: '-', ast.Mult: '*', ast.Div: '/'}
            if type(st.op) not in ops:
                self.err('unsupported augmented assignment', st)
            cur = self.expr(ast.Name(id=st.target.id, ctx=ast.Load()))
            self.bind(st.target.id, '(%s %s %s)' % (cur, ops[type(st.op)], self.expr(st.value)))
            return None
        if isinstance(st, ast.Return):
            return st.value
        self.err('unsupported statement %s' % type(st).__name__, st)

    def wrap(self, body):
        out = body
        for name, text in reversed(self.lets):
            out = 'let %s := %s in\n  %s' % (name, text, out)
        return out

    def header(self, name, rtype='R'):
        ps = ' '.join(self.params)
        return 'Definition %s %s: %s :=\n  ' % (name, ('(%s : R) ' % ps) if ps else '', rtype)


class Translator:
    def __init__(self, source):
        self.source = source
        self.mod = ast.parse(source)
        self.funcs = {n.name: n for n in self.mod.body if isinstance(n, ast.FunctionDef)}
        self.classes = {n.name: n for n in self.mod.body if isinstance(n, ast.ClassDef)}
        self.out = []
        self.info = {}

    # ---- lookup --------------------------------------------------------------------------------
    def func(self, name):
        if name not in self.funcs:
            raise TranslationError('function %s not found' % name)
        f = self.funcs[name]
        if f.decorator_list:
            raise TranslationError('decorated function', f, name)
        return f

    def method(self, cname, mname):
        if cname not in self.classes:
            raise TranslationError('class %s not found' % cname)
        for st in self.classes[cname].body:
            if isinstance(st, ast.FunctionDef) and st.name == mname:
                if st.decorator_list:
                    raise TranslationError('decorated method', st, '%s.%s' % (cname, mname))
                return st
        raise TranslationError('method %s.%s not found' % (cname, mname))

    @staticmethod
    def argnames(f, drop_self=False):
        a = f.args
        if a.vararg or a.kwarg or a.kwonlyargs or a.posonlyargs:
            raise TranslationError('unsupported parameter kinds', f, f.name)
        names = [x.arg for x in a.args]
        if drop_self:
            if not names or names[0] != 'self':
                raise TranslationError('method without self', f, f.name)
            names = names[1:]
        return names

    def emit(self, text):
        self.out.append(text)

    # ---- index maps ------------------------------------------------------------------------------
    def tr_convert2To4(self):
        f = self.func('convert2To4rankTensor')
        where = f.name
        (src,) = self.argnames(f)
        body = _strip_doc(f.body)
        if len(body) != 4:
            raise TranslationError('expected: vMap dict, zeros, loop, return', f, where)
        st_map, st_zero, st_loop, st_ret = body
        # vMap = {frozenset({..}): int, ...}
        if not (isinstance(st_map, ast.Assign) and len(st_map.targets) == 1 and isinstance(st_map.targets[0], ast.Name) and isinstance(st_map.value, ast.Dict)):
            raise TranslationError('vMap must be a dict literal', st_map, where)
        mapname = st_map.targets[0].id
        table = {}
        for k, v in zip(st_map.value.keys, st_map.value.values):
            if not (isinstance(k, ast.Call) and isinstance(k.func, ast.Name) and k.func.id == 'frozenset' and len(k.args) == 1
                    and isinstance(k.args[0], ast.Set) and all(isinstance(x, ast.Constant) and isinstance(x.value, int) for x in k.args[0].elts)):
                raise TranslationError('vMap keys must be frozenset({ints})', k, where)
            if not (isinstance(v, ast.Constant) and isinstance(v.value, int)):
                raise TranslationError('vMap values must be integers', v, where)
            key = frozenset(x.value for x in k.args[0].elts)
            if key in table:
                raise TranslationError('duplicate vMap key', k, where)
            table[key] = v.value
        dst = self._zeros_target(st_zero, (3, 3, 3, 3), where)
        # for i, j, k, l in itertools.product(range(3), range(3), range(3), range(3)):
        idx = self._product_loop(st_loop, [3, 3, 3, 3], where)
        lb = st_loop.body
        if len(lb) != 3:
            raise TranslationError('loop body: two frozenset assignments and the copy', st_loop, where)
        sets = {}
        for st in lb[:2]:
            if not (isinstance(st, ast.Assign) and len(st.targets) == 1 and isinstance(st.targets[0], ast.Name) and isinstance(st.value, ast.Call)
                    and isinstance(st.value.func, ast.Name) and st.value.func.id == 'frozenset' and len(st.value.args) == 1
                    and isinstance(st.value.args[0], ast.Set) and len(st.value.args[0].elts) == 2
                    and all(isinstance(x, ast.Name) for x in st.value.args[0].elts)):
                raise TranslationError('expected name = frozenset({a, b})', st, where)
            sets[st.targets[0].id] = tuple(x.id for x in st.value.args[0].elts)
        cp = lb[2]
        ok = (isinstance(cp, ast.Assign) and len(cp.targets) == 1 and isinstance(cp.targets[0], ast.Subscript)
              and isinstance(cp.targets[0].value, ast.Name) and cp.targets[0].value.id == dst
              and isinstance(cp.targets[0].slice, ast.Tuple) and [getattr(x, 'id', None) for x in cp.targets[0].slice.elts] == idx
              and isinstance(cp.value, ast.Subscript) and isinstance(cp.value.value, ast.Name) and cp.value.value.id == src
              and isinstance(cp.value.slice, ast.Tuple) and len(cp.value.slice.elts) == 2)
        if not ok:
            raise TranslationError('expected c4[i,j,k,l] = c2[vMap[..], vMap[..]]', cp, where)
        pairs = []
        for s in cp.value.slice.elts:
            if not (isinstance(s, ast.Subscript) and isinstance(s.value, ast.Name) and s.value.id == mapname
                    and isinstance(s.slice, ast.Name) and s.slice.id in sets):
                raise TranslationError('expected vMap[<frozenset name>]', s, where)
            pairs.append(sets[s.slice.id])
        if pairs != [(idx[0], idx[1]), (idx[2], idx[3])]:
            raise TranslationError('the 6x6 row must come from the first index pair, the column from the second', cp, where)
        self._return_name(st_ret, dst, where)
        rows = []
        for i in range(3):
            for j in range(3):
                key = frozenset({i, j})
                if key not in table:
                    raise TranslationError('vMap has no entry for %s' % sorted(key), st_map, where)
                rows.append('  | %d, %d => %d' % (i, j, table[key]))
        self.emit('(* convert2To4rankTensor: c4[i,j,k,l] = c2[vMap[{i,j}], vMap[{k,l}]] *)\n'
                  'Definition vmap24_gen (i j : nat) : nat :=\n  match i, j with\n%s\n  | _, _ => 0\n  end%%nat.\n'
                  'Definition convert2To4_gen (c2 : nat -> nat -> R) : nat -> nat -> nat -> nat -> R :=\n'
                  '  fun i j k l => c2 (vmap24_gen i j) (vmap24_gen k l).\n' % '\n'.join(rows))
        self.info['vmap24'] = {'%d%d' % (i, j): table[frozenset({i, j})] for i in range(3) for j in range(3)}

    def _zeros_target(self, st, shape, where):
        ok = (isinstance(st, ast.Assign) and len(st.targets) == 1 and isinstance(st.targets[0], ast.Name)
              and isinstance(st.value, ast.Call) and _is_np(st.value.func, 'zeros') and len(st.value.args) == 1
              and isinstance(st.value.args[0], ast.Tuple)
              and tuple(getattr(x, 'value', None) for x in st.value.args[0].elts) == tuple(shape))
        if not ok:
            raise TranslationError('expected name = np.zeros(%r)' % (shape,), st, where)
        return st.targets[0].id

    def _product_loop(self, st, ranges, where):
        ok = (isinstance(st, ast.For) and not st.orelse and isinstance(st.target, ast.Tuple)
              and all(isinstance(x, ast.Name) for x in st.target.elts) and len(st.target.elts) == len(ranges)
              and isinstance(st.iter, ast.Call) and _attr_chain(st.iter.func) == ['itertools', 'product']
              and len(st.iter.args) == len(ranges))
        if ok:
            for a, n in zip(st.iter.args, ranges):
                ok = ok and (isinstance(a, ast.Call) and isinstance(a.func, ast.Name) and a.func.id == 'range'
                             and len(a.args) == 1 and isinstance(a.args[0], ast.Constant) and a.args[0].value == n)
        if not ok:
            raise TranslationError('expected for <names> in itertools.product(%s)' % ', '.join('range(%d)' % n for n in ranges), st, where)
        return [x.id for x in st.target.elts]

    def _return_name(self, st, name, where):
        if not (isinstance(st, ast.Return) and isinstance(st.value, ast.Name) and st.value.id == name):
            raise TranslationError('expected return %s' % name, st, where)

    def tr_convert4To2(self):
        f = self.func('convert4To2rankTensor')
        where = f.name
        (src,) = self.argnames(f)
        body = _strip_doc(f.body)
        if len(body) != 4:
            raise TranslationError('expected: vMap list, zeros, loop, return', f, where)
        st_map, st_zero, st_loop, st_ret = body
        if not (isinstance(st_map, ast.Assign) and len(st_map.targets) == 1 and isinstance(st_map.targets[0], ast.Name) and isinstance(st_map.value, ast.List)):
            raise TranslationError('vMap must be a list literal', st_map, where)
        mapname = st_map.targets[0].id
        pairs = []
        for el in st_map.value.elts:
            if not (isinstance(el, ast.List) and len(el.elts) == 2 and all(isinstance(x, ast.Constant) and isinstance(x.value, int) for x in el.elts)):
                raise TranslationError('vMap entries must be [int, int]', el, where)
            pairs.append((el.elts[0].value, el.elts[1].value))
        if len(pairs) != 6:
            raise TranslationError('vMap must have six entries', st_map, where)
        dst = self._zeros_target(st_zero, (6, 6), where)
        idx = self._product_loop(st_loop, [6, 6], where)
        if len(st_loop.body) != 1:
            raise TranslationError('loop body: one copy statement', st_loop, where)
        cp = st_loop.body[0]
        ok = (isinstance(cp, ast.Assign) and len(cp.targets) == 1 and isinstance(cp.targets[0], ast.Subscript)
              and isinstance(cp.targets[0].value, ast.Name) and cp.targets[0].value.id == dst
              and isinstance(cp.targets[0].slice, ast.Tuple) and [getattr(x, 'id', None) for x in cp.targets[0].slice.elts] == idx
              and isinstance(cp.value, ast.Subscript) and isinstance(cp.value.value, ast.Name) and cp.value.value.id == src
              and isinstance(cp.value.slice, ast.Tuple) and len(cp.value.slice.elts) == 4)
        if not ok:
            raise TranslationError('expected c2[i,j] = c4[vMap[i][0], vMap[i][1], vMap[j][0], vMap[j][1]]', cp, where)
        got = []
        for s in cp.value.slice.elts:
            if not (isinstance(s, ast.Subscript) and isinstance(s.value, ast.Subscript) and isinstance(s.value.value, ast.Name)
                    and s.value.value.id == mapname and isinstance(s.value.slice, ast.Name)
                    and isinstance(s.slice, ast.Constant) and s.slice.value in (0, 1)):
                raise TranslationError('expected vMap[<loop index>][0|1]', s, where)
            got.append((s.value.slice.id, s.slice.value))
        if got != [(idx[0], 0), (idx[0], 1), (idx[1], 0), (idx[1], 1)]:
            raise TranslationError('index order of the copy differs from c4[vMap[i][0], vMap[i][1], vMap[j][0], vMap[j][1]]', cp, where)
        self._return_name(st_ret, dst, where)
        self.emit('(* convert4To2rankTensor: c2[i,j] = c4[vMap[i][0], vMap[i][1], vMap[j][0], vMap[j][1]] *)\n'
                  'Definition vmap42_gen : list (nat * nat) := [%s]%%nat.\n'
                  'Definition convert4To2_gen (c4 : nat -> nat -> nat -> nat -> R) : nat -> nat -> R :=\n'
                  '  fun i j => c4 (fst (nth i vmap42_gen (0, 0)%%nat)) (snd (nth i vmap42_gen (0, 0)%%nat))\n'
                  '                (fst (nth j vmap42_gen (0, 0)%%nat)) (snd (nth j vmap42_gen (0, 0)%%nat)).\n'
                  % '; '.join('(%d, %d)' % p for p in pairs))
        self.info['vmap42'] = pairs

    def tr_vec_maps(self):
        # convertVecTo2rankTensor: return np.array([[v[0], v[5], v[4]], ...])
        f = self.func('convertVecTo2rankTensor')
        (v,) = self.argnames(f)
        body = _strip_doc(f.body)
        if not (len(body) == 1 and isinstance(body[0], ast.Return) and isinstance(body[0].value, ast.Call)
                and _is_np(body[0].value.func, 'array') and len(body[0].value.args) == 1 and isinstance(body[0].value.args[0], ast.List)):
            raise TranslationError('expected return np.array([[...],[...],[...]])', f, f.name)
        rows = []
        for row in body[0].value.args[0].elts:
            if not (isinstance(row, ast.List) and len(row.elts) == 3):
                raise TranslationError('expected rows of three entries', row, f.name)
            r = []
            for el in row.elts:
                if not (isinstance(el, ast.Subscript) and isinstance(el.value, ast.Name) and el.value.id == v and _const_index(el.slice) and len(_const_index(el.slice)) == 1):
                    raise TranslationError('entries must be %s[int]' % v, el, f.name)
                r.append(_const_index(el.slice)[0])
            rows.append(r)
        if len(rows) != 3:
            raise TranslationError('expected three rows', f, f.name)
        self.emit('(* convertVecTo2rankTensor *)\nDefinition vecTo2_idx_gen : list (list nat) := [%s]%%nat.\n'
                  % '; '.join('[' + '; '.join(str(x) for x in r) + ']' for r in rows))
        # convert2rankToVec: return np.array([c[0,0], c[1,1], ...])
        f = self.func('convert2rankToVec')
        (c,) = self.argnames(f)
        body = _strip_doc(f.body)
        if not (len(body) == 1 and isinstance(body[0], ast.Return) and isinstance(body[0].value, ast.Call)
                and _is_np(body[0].value.func, 'array') and len(body[0].value.args) == 1 and isinstance(body[0].value.args[0], ast.List)):
            raise TranslationError('expected return np.array([...])', f, f.name)
        ps = []
        for el in body[0].value.args[0].elts:
            if not (isinstance(el, ast.Subscript) and isinstance(el.value, ast.Name) and el.value.id == c and _const_index(el.slice) and len(_const_index(el.slice)) == 2):
                raise TranslationError('entries must be %s[int,int]' % c, el, f.name)
            ps.append(_const_index(el.slice))
        if len(ps) != 6:
            raise TranslationError('expected six entries', f, f.name)
        self.emit('(* convert2rankToVec *)\nDefinition rank2ToVec_idx_gen : list (nat * nat) := [%s]%%nat.\n' % '; '.join('(%d, %d)' % p for p in ps))

    # ---- invert4rankTensor -----------------------------------------------------------------------
    def _weights(self, st, where):
        """name = np.array([ints]) -> (name, list)"""
        if not (isinstance(st, ast.Assign) and len(st.targets) == 1 and isinstance(st.targets[0], ast.Name)
                and isinstance(st.value, ast.Call) and _is_np(st.value.func, 'array') and len(st.value.args) == 1
                and isinstance(st.value.args[0], ast.List)
                and all(isinstance(x, ast.Constant) and isinstance(x.value, (int, float)) and not isinstance(x.value, bool) for x in st.value.args[0].elts)):
            raise TranslationError('expected w = np.array([numbers])', st, where)
        return st.targets[0].id, [x.value for x in st.value.args[0].elts]

    def tr_invert4(self):
        f = self.func('invert4rankTensor')
        where = f.name
        (src,) = self.argnames(f)
        body = _strip_doc(f.body)
        w, wname = None, None
        if len(body) == 3:
            wname, w = self._weights(body[0], where)
            body = body[1:]
        if len(body) != 2:
            raise TranslationError('expected [w = ...;] c2 = convert4To2rankTensor(c4); return ...', f, where)
        st_c2, st_ret = body
        ok = (isinstance(st_c2, ast.Assign) and len(st_c2.targets) == 1 and isinstance(st_c2.targets[0], ast.Name)
              and isinstance(st_c2.value, ast.Call) and isinstance(st_c2.value.func, ast.Name) and st_c2.value.func.id == 'convert4To2rankTensor'
              and len(st_c2.value.args) == 1 and isinstance(st_c2.value.args[0], ast.Name) and st_c2.value.args[0].id == src)
        if not ok:
            raise TranslationError('expected c2 = convert4To2rankTensor(%s)' % src, st_c2, where)
        c2 = st_c2.targets[0].id
        if not (isinstance(st_ret, ast.Return) and isinstance(st_ret.value, ast.Call) and isinstance(st_ret.value.func, ast.Name)
                and st_ret.value.func.id == 'convert2To4rankTensor' and len(st_ret.value.args) == 1):
            raise TranslationError('expected return convert2To4rankTensor(...)', st_ret, where)
        inner = st_ret.value.args[0]

        def is_inv(e, arg_pred):
            return (isinstance(e, ast.Call) and _attr_chain(e.func) == ['np', 'linalg', 'inv'] and len(e.args) == 1 and arg_pred(e.args[0]))
        is_c2 = lambda e: isinstance(e, ast.Name) and e.id == c2
        is_w = lambda e: isinstance(e, ast.Name) and e.id == wname
        if is_inv(inner, is_c2) and w is None:
            form = 'Unweighted'
            w = [1, 1, 1, 1, 1, 1]
        elif (w is not None and isinstance(inner, ast.BinOp) and isinstance(inner.op, ast.Div) and is_w(inner.right)
              and is_inv(inner.left, lambda a: isinstance(a, ast.BinOp) and isinstance(a.op, ast.Mult) and is_c2(a.left) and is_w(a.right))):
            form = 'ColumnWeighted'
        else:
            raise TranslationError('expected np.linalg.inv(c2) or np.linalg.inv(c2 * w) / w', st_ret, where)
        if len(w) != 6:
            raise TranslationError('weight vector must have six entries', f, where)
        self.emit('(* invert4rankTensor: convert2To4rankTensor(%s) *)\n'
                  'Inductive invert4_form := Unweighted | ColumnWeighted.\n'
                  'Definition invert4_form_gen : invert4_form := %s.\n'
                  'Definition invert4_weights_gen : list R := [%s].\n'
                  % ('np.linalg.inv(c2 * w) / w' if form == 'ColumnWeighted' else 'np.linalg.inv(c2)', form, '; '.join(_num(x, f) for x in w)))
        self.info['invert4_form'] = form

    # ---- elasticConstantToC ----------------------------------------------------------------------
    def tr_elasticConstantToC(self):
        f = self.func('elasticConstantToC')
        where = f.name
        args = self.argnames(f)
        body = _strip_doc(f.body)
        dst = self._zeros_target(body[0], (6, 6), where)
        table = {}
        for st in body[1:-1]:
            if not (isinstance(st, ast.Assign) and isinstance(st.value, ast.Name) and st.value.id in args):
                raise TranslationError('expected c[i,j] = ... = <argument>', st, where)
            for tg in st.targets:
                idx = _const_index(tg.slice) if isinstance(tg, ast.Subscript) and isinstance(tg.value, ast.Name) and tg.value.id == dst else None
                if idx is None or len(idx) != 2:
                    raise TranslationError('targets must be %s[int,int]' % dst, st, where)
                table[idx] = st.value.id
        self._return_name(body[-1], dst, where)
        rows = ['  | %d%%nat, %d%%nat => %s' % (i, j, table[(i, j)]) for (i, j) in sorted(table)]
        self.emit('(* elasticConstantToC *)\nDefinition elasticConstantToC_gen (%s : R) (i j : nat) : R :=\n  match i, j with\n%s\n  | _, _ => 0\n  end.\n'
                  % (' '.join(args), '\n'.join(rows)))

    # ---- moduliToC -------------------------------------------------------------------------------
    def tr_moduliToC(self):
        f = self.func('moduliToC')
        where = f.name
        args = self.argnames(f)
        if len(f.args.defaults) != len(args) or not all(isinstance(d, ast.Constant) and d.value is None for d in f.args.defaults):
            raise TranslationError('every parameter must default to None', f, where)
        body = _strip_doc(f.body)
        if not body or not isinstance(body[0], ast.If):
            raise TranslationError('expected the if/elif chain first', f, where)
        chain, tail = body[0], body[1:]
        outs = ['E', 'nu', 'G']
        if not all(o in args for o in outs):
            raise TranslationError('parameters E, nu, G expected', f, where)

        def expr(e, known):
            """real-valued expression over option variables: reads must be of variables known to be numbers"""
            if isinstance(e, ast.Constant):
                return _num(e.value, e)
            if isinstance(e, ast.Name):
                if e.id not in args:
                    raise TranslationError('unknown name %s' % e.id, e, where)
                if e.id not in known:
                    raise TranslationError('%s may be None where it is read' % e.id, e, where)
                return '(val %s)' % e.id
            if isinstance(e, ast.UnaryOp) and isinstance(e.op, ast.USub):
                return '(- %s)' % expr(e.operand, known)
            if isinstance(e, ast.BinOp):
                if isinstance(e.op, ast.Pow):
                    if not (isinstance(e.right, ast.Constant) and isinstance(e.right.value, int) and e.right.value >= 0):
                        raise TranslationError('exponent must be a non-negative integer literal', e, where)
                    return '(%s ^ %d)' % (expr(e.left, known), e.right.value)
                ops = {ast.Add: '+', ast.Sub: '-', ast.Mult: '*', ast.Div: '/'}
                if type(e.op) not in ops:
                    raise TranslationError('unsupported operator', e, where)
                return '(%s %s %s)' % (expr(e.left, known), ops[type(e.op)], expr(e.right, known))
            if isinstance(e, ast.Call) and _is_np(e.func, 'sqrt') and len(e.args) == 1 and not e.keywords:
                return '(sqrt %s)' % expr(e.args[0], known)
            raise TranslationError('unsupported expression', e, where)

        nbranch = [0]

        def block(stmts, known, indent, locals_):
            """sequence of assignments / nested ifs; falls through to `fin`"""
            if not stmts:
                return 'fin %s' % ' '.join(outs)
            st = stmts[0]
            if isinstance(st, ast.Assign) and len(st.targets) == 1 and isinstance(st.targets[0], ast.Name):
                nm = st.targets[0].id
                if nm in args:
                    txt = expr_l(st.value, known, locals_)
                    return 'let %s := Some %s in\n%s%s' % (nm, txt, indent, block(stmts[1:], known | {nm}, indent, locals_))
                # local helper value (R, S)
                txt = expr_l(st.value, known, locals_)
                return 'let l_%s := %s in\n%s%s' % (nm, txt, indent, block(stmts[1:], known, indent, locals_ | {nm}))
            if isinstance(st, ast.If):
                if len(stmts) != 1:
                    raise TranslationError('statements after a nested if', st, where)
                return ifchain(st, known, indent, locals_)
            raise TranslationError('unsupported statement in a branch', st, where)

        def expr_l(e, known, locals_):
            # expressions may read local helper values
            class R(ast.NodeTransformer):
                pass
            def go(e):
                if isinstance(e, ast.Name) and e.id in locals_:
                    return 'l_%s' % e.id
                if isinstance(e, ast.BinOp):
                    if isinstance(e.op, ast.Pow):
                        if not (isinstance(e.right, ast.Constant) and isinstance(e.right.value, int) and e.right.value >= 0):
                            raise TranslationError('exponent must be a non-negative integer literal', e, where)
                        return '(%s ^ %d)' % (go(e.left), e.right.value)
                    ops = {ast.Add: '+', ast.Sub: '-', ast.Mult: '*', ast.Div: '/'}
                    if type(e.op) not in ops:
                        raise TranslationError('unsupported operator', e, where)
                    return '(%s %s %s)' % (go(e.left), ops[type(e.op)], go(e.right))
                if isinstance(e, ast.UnaryOp) and isinstance(e.op, ast.USub):
                    return '(- %s)' % go(e.operand)
                if isinstance(e, ast.Call) and _is_np(e.func, 'sqrt') and len(e.args) == 1 and not e.keywords:
                    return '(sqrt %s)' % go(e.args[0])
                return expr(e, known)
            return go(e)

        def ifchain(node, known, indent, locals_):
            if not (isinstance(node.test, ast.Name) and node.test.id in args):
                raise TranslationError('tests must be bare parameter names (truthiness)', node, where)
            v = node.test.id
            ind2 = indent + '  '
            nbranch[0] += 1
            then = block(node.body, known | {v}, ind2, locals_)
            if not node.orelse:
                els = 'fin %s' % ' '.join(outs)
            elif len(node.orelse) == 1 and isinstance(node.orelse[0], ast.If):
                els = ifchain(node.orelse[0], known, indent, locals_)
                return 'if truthy %s then\n%s(%s)\n%selse %s' % (v, ind2, then, indent, els)
            else:
                els = block(node.orelse, known, ind2, locals_)
            return 'if truthy %s then\n%s(%s)\n%selse (%s)' % (v, ind2, then, indent, els)

        text = ifchain(chain, frozenset(), '  ', frozenset())
        # tail: s = np.zeros((6,6)); tuple assignments; return np.linalg.inv(s)
        if len(tail) < 3:
            raise TranslationError('expected the compliance matrix after the branches', f, where)
        dst = self._zeros_target(tail[0], (6, 6), where)
        F = Formula(where)
        for o in outs:
            F.declare_scalar(o)
        table = {}
        for st in tail[1:-1]:
            if not (isinstance(st, ast.Assign) and len(st.targets) == 1 and isinstance(st.targets[0], ast.Tuple)
                    and isinstance(st.value, ast.Tuple) and len(st.targets[0].elts) == len(st.value.elts)):
                raise TranslationError('expected s[..], s[..] = expr, expr', st, where)
            for tg, val in zip(st.targets[0].elts, st.value.elts):
                idx = _const_index(tg.slice) if isinstance(tg, ast.Subscript) and isinstance(tg.value, ast.Name) and tg.value.id == dst else None
                if idx is None or len(idx) != 2:
                    raise TranslationError('targets must be %s[int,int]' % dst, st, where)
                table[idx] = F.expr(val)
        if F.params != outs:
            raise TranslationError('compliance entries may only use E, nu, G', f, where)
        ret = tail[-1]
        if not (isinstance(ret, ast.Return) and isinstance(ret.value, ast.Call) and _attr_chain(ret.value.func) == ['np', 'linalg', 'inv']
                and len(ret.value.args) == 1 and isinstance(ret.value.args[0], ast.Name) and ret.value.args[0].id == dst):
            raise TranslationError('expected return np.linalg.inv(%s)' % dst, ret, where)
        self.emit('(* moduliToC: `if x:` is true for a number different from zero, false for None and for 0.\n'
                  '   A parameter is an [option R]; every read on a path is of a parameter that was tested or assigned\n'
                  '   on that path (checked by the translator), so [val] is never applied to None. *)\n'
                  'Definition truthy (x : option R) : bool :=\n  match x with Some v => if Req_EM_T v 0 then false else true | None => false end.\n'
                  'Definition val (x : option R) : R := match x with Some v => v | None => 0 end.\n'
                  'Definition fin (E nu G : option R) : option (R * R * R) :=\n'
                  '  match E, nu, G with Some a, Some b, Some c => Some (a, b, c) | _, _, _ => None end.\n'
                  'Definition moduliToC_gen (%s : option R) : option (R * R * R) :=\n  %s.\n'
                  % (' '.join(args), text))
        rows = ['  | %d%%nat, %d%%nat => %s' % (i, j, table[(i, j)]) for (i, j) in sorted(table)]
        self.emit('(* the compliance matrix handed to np.linalg.inv *)\nDefinition moduli_s_gen (E nu G : R) (i j : nat) : R :=\n  match i, j with\n%s\n  | _, _ => 0\n  end.\n'
                  % '\n'.join(rows))
        self.info['moduli_branches'] = nbranch[0]

    # ---- straight-line formula methods ---------------------------------------------------------------
    def formula_method(self, cname, mname, gen_name, array_args=(), scalar_args=None, array_result=False):
        m = self.method(cname, mname)
        where = '%s.%s' % (cname, mname)
        names = self.argnames(m, drop_self=True)
        F = Formula(where)
        for a in names:
            if a in array_args:
                F.declare_array(a)
            else:
                F.declare_scalar(a)
        body = _strip_doc(m.body)
        ret = None
        for st in body:
            if ret is not None:
                F.err('statement after return', st)
            ret = F.stmt(st)
        if ret is None:
            F.err('no return', m)
        return F, ret, names

    def tr_khachaturyan(self):
        F, ret, names = self.formula_method('SphericalEnergyDescription', '_Khachaturyan', 'Khachaturyan_gen', array_args=('radius',))
        txt = F.expr(ret)
        self.emit('(* SphericalEnergyDescription._Khachaturyan; parameters in order of first use *)\n'
                  + F.header('Khachaturyan_gen') + F.wrap(txt) + '.\n')
        self.info['Khachaturyan_params'] = list(F.params)
        for cname, tag in (('SphericalEnergyDescription', 'sphere'), ('CuboidalEnergyDescription', 'cube')):
            m = self.method(cname, 'computeStrainEnergy')
            body = _strip_doc(m.body)
            (rad,) = self.argnames(m, drop_self=True)
            ok = (len(body) == 1 and isinstance(body[0], ast.Return) and isinstance(body[0].value, ast.Call)
                  and _attr_chain(body[0].value.func) == ['self', '_Khachaturyan'] and len(body[0].value.args) == 3
                  and isinstance(body[0].value.args[2], ast.Name) and body[0].value.args[2].id == rad)
            if not ok:
                raise TranslationError('expected return self._Khachaturyan(I1, I2, radius)', m, cname)
            G = Formula(cname)
            self.emit('Definition %s_I1_gen : R := %s.\nDefinition %s_I2_gen : R := %s.\n'
                      % (tag, G.expr(body[0].value.args[0]), tag, G.expr(body[0].value.args[1])))
            if G.params:
                raise TranslationError('I1 / I2 must be constants', m, cname)
        if names != ['I1', 'I2', 'radius']:
            raise TranslationError('_Khachaturyan(self, I1, I2, radius) expected', None, 'SphericalEnergyDescription._Khachaturyan')

    def tr_constant(self):
        F, ret, names = self.formula_method('ConstantEnergyDescription', 'computeStrainEnergy', 'constantEnergy_gen', array_args=('radius',))
        txt = F.expr(ret)
        self.emit('(* ConstantEnergyDescription.computeStrainEnergy *)\n' + F.header('constantEnergy_gen') + F.wrap(txt) + '.\n')
        self.info['constant_params'] = list(F.params)

    def tr_quickInverse(self):
        m = self.method('EllipsoidalEnergyDescription', '_ohm_quickInverse')
        where = 'EllipsoidalEnergyDescription._ohm_quickInverse'
        (arg,) = self.argnames(m, drop_self=True)
        F = Formula(where)
        F.declare_array(arg, 'm')
        for i in range(3):
            for j in range(3):
                F.param('m_%d_%d' % (i, j))
        body = _strip_doc(m.body)
        for st in body[:-1]:
            if F.stmt(st) is not None:
                F.err('early return', st)
        ret = body[-1]
        ok = (isinstance(ret, ast.Return) and isinstance(ret.value, ast.BinOp) and isinstance(ret.value.op, ast.Div)
              and isinstance(ret.value.left, ast.Call) and _is_np(ret.value.left.func, 'array') and len(ret.value.left.args) == 1
              and isinstance(ret.value.left.args[0], ast.List) and len(ret.value.left.args[0].elts) == 3)
        if not ok:
            F.err('expected return np.array([[..],[..],[..]]) / det', ret)
        den = F.expr(ret.value.right)
        rows = []
        for row in ret.value.left.args[0].elts:
            if not (isinstance(row, ast.List) and len(row.elts) == 3):
                F.err('expected rows of three entries', row)
            rows.append('[' + '; '.join('%s / %s' % (F.expr(x), den) for x in row.elts) + ']')
        if len(F.params) != 9:
            F.err('unexpected free names: %s' % F.params[9:], m)
        self.emit('(* EllipsoidalEnergyDescription._ohm_quickInverse (entry-wise; m_i_j = m[i,j]) *)\n'
                  + F.header('quickInverse_gen', 'list (list R)') + F.wrap('[' + ';\n   '.join(rows) + ']') + '.\n')

    def tr_n_beta(self):
        F, ret, names = self.formula_method('EllipsoidalEnergyDescription', '_n', 'n_gen')
        ok = (isinstance(ret, ast.Call) and _is_np(ret.func, 'array') and len(ret.args) == 1 and isinstance(ret.args[0], ast.List) and len(ret.args[0].elts) == 3)
        if not ok or names != ['phi', 'theta']:
            raise TranslationError('expected _n(self, phi, theta): return np.array([x, y, z])', None, 'EllipsoidalEnergyDescription._n')
        comps = [F.expr(x) for x in ret.args[0].elts]
        if F.params != ['phi', 'theta']:
            raise TranslationError('_n may only use phi, theta', None, 'EllipsoidalEnergyDescription._n')
        self.emit('(* EllipsoidalEnergyDescription._n *)\n' + F.header('n_gen', 'R * R * R') + F.wrap('(%s, %s, %s)' % tuple(comps)) + '.\n')
        F, ret, names = self.formula_method('EllipsoidalEnergyDescription', '_beta', 'beta_gen')
        if names != ['a', 'b', 'c', 'phi', 'theta']:
            raise TranslationError('expected _beta(self, a, b, c, phi, theta)', None, 'EllipsoidalEnergyDescription._beta')
        txt = F.expr(ret)
        if F.params != names:
            raise TranslationError('_beta may only use its arguments', None, 'EllipsoidalEnergyDescription._beta')
        self.emit('(* EllipsoidalEnergyDescription._beta *)\n' + F.header('beta_gen') + F.wrap(txt) + '.\n')

    # ---- scalar prefactors of the tensor code ----------------------------------------------------------
    def tr_prefactors(self):
        C = 'EllipsoidalEnergyDescription'
        # sphInt: endTerm = 1 / self._beta(radius[0], radius[1], radius[2], phi, theta)**3 ; return 8*d*self.dA
        m = self.method(C, 'sphInt')
        body = _strip_doc(m.body)
        endterm = None
        for st in body:
            if isinstance(st, ast.Assign) and len(st.targets) == 1 and isinstance(st.targets[0], ast.Name) and st.targets[0].id == 'endTerm':
                endterm = st.value
        ok = (isinstance(endterm, ast.BinOp) and isinstance(endterm.op, ast.Div) and isinstance(endterm.left, ast.Constant) and endterm.left.value == 1
              and isinstance(endterm.right, ast.BinOp) and isinstance(endterm.right.op, ast.Pow) and isinstance(endterm.right.right, ast.Constant)
              and isinstance(endterm.right.left, ast.Call) and _attr_chain(endterm.right.left.func) == ['self', '_beta'] and len(endterm.right.left.args) == 5)
        if not ok:
            raise TranslationError('expected endTerm = 1 / self._beta(radius[0], radius[1], radius[2], phi, theta)**n', m, C + '.sphInt')
        bargs = endterm.right.left.args
        for k in range(3):
            a = bargs[k]
            if not (isinstance(a, ast.Subscript) and isinstance(a.value, ast.Name) and a.value.id == 'radius' and _const_index(a.slice) == (k,)):
                raise TranslationError('_beta must receive radius[0], radius[1], radius[2]', a, C + '.sphInt')
        if _attr_chain(bargs[3]) != ['self', 'midPhiGrid'] or _attr_chain(bargs[4]) != ['self', 'midThetaGrid']:
            raise TranslationError('_beta must receive self.midPhiGrid, self.midThetaGrid', m, C + '.sphInt')
        ret = body[-1]
        ok = (isinstance(ret, ast.Return) and isinstance(ret.value, ast.BinOp) and isinstance(ret.value.op, ast.Mult)
              and _attr_chain(ret.value.right) == ['self', 'dA'] and isinstance(ret.value.left, ast.BinOp) and isinstance(ret.value.left.op, ast.Mult)
              and isinstance(ret.value.left.left, ast.Constant) and isinstance(ret.value.left.right, ast.Name))
        if not ok:
            raise TranslationError('expected return <number> * d * self.dA', ret, C + '.sphInt')
        self.emit('(* sphInt: endTerm = 1 / beta**%d ; return %s * d * self.dA *)\nDefinition endTerm_power_gen : nat := %d.\nDefinition sphInt_factor_gen : R := %s.\n'
                  % (endterm.right.right.value, _num(ret.value.left.left.value, ret), endterm.right.right.value, _num(ret.value.left.left.value, ret)))
        # Dijkl: return <expr> * self.sphInt(radius, c4)
        m = self.method(C, 'Dijkl')
        body = _strip_doc(m.body)
        ret = body[-1]
        ok = (len(body) == 1 and isinstance(ret, ast.Return) and isinstance(ret.value, ast.BinOp) and isinstance(ret.value.op, ast.Mult)
              and isinstance(ret.value.right, ast.Call) and _attr_chain(ret.value.right.func) == ['self', 'sphInt']
              and [getattr(a, 'id', None) for a in ret.value.right.args] == ['radius', 'c4'])
        if not ok:
            raise TranslationError('expected return <prefactor> * self.sphInt(radius, c4)', m, C + '.Dijkl')
        F = Formula(C + '.Dijkl')
        F.declare_array('radius')
        txt = F.expr(ret.value.left)
        self.emit('(* Dijkl: return <this> * self.sphInt(radius, c4) *)\n' + F.header('Dijkl_prefactor_gen') + txt + '.\n')
        # Sijmn: S = <number> * np.tensordot(...)
        m = self.method(C, 'Sijmn')
        pref = None
        for st in _strip_doc(m.body):
            if isinstance(st, ast.Assign) and isinstance(st.value, ast.BinOp) and isinstance(st.value.op, ast.Mult) \
                    and isinstance(st.value.right, ast.Call) and _is_np(st.value.right.func, 'tensordot'):
                pref = st.value.left
        if pref is None:
            raise TranslationError('expected S = <number> * np.tensordot(...)', m, C + '.Sijmn')
        self.emit('(* Sijmn: S = <this> * np.tensordot(...) *)\nDefinition Sijmn_prefactor_gen : R := %s.\n' % Formula(C + '.Sijmn').expr(pref))
        # _strainEnergy: return <expr in V> * np.sum(stress * strain)
        m = self.method(C, '_strainEnergy')
        body = _strip_doc(m.body)
        ret = body[-1]
        ok = (len(body) == 1 and isinstance(ret, ast.Return) and isinstance(ret.value, ast.BinOp) and isinstance(ret.value.op, ast.Mult)
              and isinstance(ret.value.right, ast.Call) and _is_np(ret.value.right.func, 'sum') and len(ret.value.right.args) == 1
              and isinstance(ret.value.right.args[0], ast.BinOp) and isinstance(ret.value.right.args[0].op, ast.Mult)
              and sorted(getattr(x, 'id', '') for x in (ret.value.right.args[0].left, ret.value.right.args[0].right)) == ['strain', 'stress'])
        if not ok:
            raise TranslationError('expected return <prefactor> * np.sum(stress * strain)', m, C + '._strainEnergy')
        F = Formula(C + '._strainEnergy')
        F.declare_scalar('V')
        txt = F.expr(ret.value.left)
        self.emit('(* _strainEnergy: return <this> * np.sum(stress * strain) *)\n' + F.header('strainEnergy_prefactor_gen') + txt + '.\n')
        # V = 4*np.pi/3 * np.prod(radius) in the four energy methods; weights of the two 6x6 methods
        vols = []
        for mn in ('strainEnergyEllipsoid', 'strainEnergyEllipsoid2ndRank', 'strainEnergyBohm', 'strainEnergyBohm2ndRank'):
            m = self.method(C, mn)
            v = [st for st in _strip_doc(m.body) if isinstance(st, ast.Assign) and len(st.targets) == 1
                 and isinstance(st.targets[0], ast.Name) and st.targets[0].id == 'V']
            if len(v) != 1:
                raise TranslationError('expected one assignment V = ...', m, C + '.' + mn)
            F = Formula(C + '.' + mn)
            F.declare_array('radius')
            vols.append((mn, F.expr(v[0].value), list(F.params)))
        if len(set(t for _, t, _ in vols)) != 1 or vols[0][2] != ['radius_0', 'radius_1', 'radius_2']:
            raise TranslationError('the four energy methods must use the same volume expression of radius', None, C)
        self.emit('(* V of the four energy methods *)\nDefinition volume_gen (radius_0 radius_1 radius_2 : R) : R :=\n  %s.\n' % vols[0][1])
        for mn, tag in (('strainEnergyEllipsoid2ndRank', 'ellipsoid2'), ('strainEnergyBohm2ndRank', 'bohm2')):
            m = self.method(C, mn)
            ws = []
            for st in _strip_doc(m.body):
                try:
                    ws.append(self._weights(st, mn))
                except TranslationError:
                    pass
            w = ws[0][1] if ws else [1, 1, 1, 1, 1, 1]
            if len(ws) > 1 or len(w) != 6:
                raise TranslationError('at most one 6-entry weight vector expected', m, C + '.' + mn)
            self.emit('Definition %s_weights_gen : list R := [%s].\n' % (tag, '; '.join(_num(x, m) for x in w)))
        # setLebedevIntegration: self.dA = np.pi/2
        m = self.method(C, 'setLebedevIntegration')
        da = [st for st in _strip_doc(m.body) if isinstance(st, ast.Assign) and len(st.targets) == 1 and _attr_chain(st.targets[0]) == ['self', 'dA']]
        if len(da) != 1:
            raise TranslationError('expected one assignment self.dA = ...', m, C + '.setLebedevIntegration')
        self.emit('(* setLebedevIntegration: self.dA *)\nDefinition lebedev_dA_gen : R := %s.\n' % Formula(C).expr(da[0].value))

    # ---- rotation setters ---------------------------------------------------------------------------------
    def tr_rotation_setters(self):
        res = {}
        for mn, attr in (('setRotationMatrix', 'rotation'), ('setRotationPrecipitate', 'rotationPrec')):
            m = self.method('StrainEnergy', mn)
            where = 'StrainEnergy.' + mn
            (rot,) = self.argnames(m, drop_self=True)
            body = _strip_doc(m.body)
            st = body[0] if body else None
            ok = (isinstance(st, ast.Assign) and len(st.targets) == 1 and _attr_chain(st.targets[0]) == ['self', attr]
                  and isinstance(st.value, ast.Call) and _is_np(st.value.func, 'array') and len(st.value.args) == 1
                  and isinstance(st.value.args[0], ast.Name) and st.value.args[0].id == rot)
            if not ok:
                raise TranslationError('expected self.%s = np.array(%s)' % (attr, rot), m, where)
            rest = body[1:]
            if not rest:
                res[mn] = 'StoreOnly'
            else:
                g = rest[0]
                ok = (len(rest) == 1 and isinstance(g, ast.If) and not g.orelse and isinstance(g.test, ast.Call) and not g.test.args
                      and _attr_chain(g.test.func) == ['self', 'unrotated_cMatrix_4th', 'any'] and len(g.body) == 1
                      and isinstance(g.body[0], ast.Expr) and isinstance(g.body[0].value, ast.Call) and not g.body[0].value.args
                      and _attr_chain(g.body[0].value.func) == ['self', 'update'])
                if ok:
                    res[mn] = 'UpdateIfMatrixSet'
                else:
                    raise TranslationError('expected nothing or `if self.unrotated_cMatrix_4th.any(): self.update()` after the assignment', m, where)
        self.emit('(* StrainEnergy.setRotationMatrix / setRotationPrecipitate *)\nInductive rot_setter := StoreOnly | UpdateIfMatrixSet.\n'
                  'Definition setRotationMatrix_gen : rot_setter := %s.\nDefinition setRotationPrecipitate_gen : rot_setter := %s.\n'
                  % (res['setRotationMatrix'], res['setRotationPrecipitate']))
        self.info['rotation_setters'] = res

    # ---- driver ---------------------------------------------------------------------------------------------
    def run(self):
        self.emit('(* GENERATED by harness/c16_translate.py from %s - do not edit *)\n'
                  'From Coq Require Import Reals List.\nImport ListNotations.\nOpen Scope R_scope.\n' % SRC)
        self.tr_convert2To4()
        self.tr_convert4To2()
        self.tr_vec_maps()
        self.tr_invert4()
        self.tr_elasticConstantToC()
        self.tr_moduliToC()
        self.tr_khachaturyan()
        self.tr_constant()
        self.tr_quickInverse()
        self.tr_n_beta()
        self.tr_prefactors()
        self.tr_rotation_setters()
        text = '\n'.join(self.out)
        self.info['sha256'] = hashlib.sha256(text.encode()).hexdigest()
        return text, self.info


def translate(source):
    return Translator(source).run()


if __name__ == '__main__':
    import sys
    src = open(sys.argv[1]).read()
    text, info = translate(src)
    sys.stdout.write(text)
    sys.stderr.write(repr(info) + '\n')
