"""Fail-closed Python-ast -> Gallina translator for kawin/precipitation/parameters/Nucleation.py (C14).

What is translated (anything outside the accepted subset raises TranslationError, which the check
reports as a broken tie):

  * the five nucleation descriptions (Bulk, Dislocation, GrainBoundary, GrainEdge, GrainCorner):
    `_gbRemoval`, `_areaFactor`, `_volumeFactor`, `_areaRemoval` and every helper they call through
    `self.<helper>(gbk)`, resolved along the (single-inheritance) method resolution order of each
    concrete class, as real-valued functions of the energy ratio; `maxRatio` of each class; `gbRatio`;
  * the mask idiom of the public wrappers (`_createArrays`: valid <=> gbk < maxRatio, placeholder -1;
    `gbRemoval/areaFactor/volumeFactor/areaRemoval` = formula on the valid entries): accepted in exactly
    the shape it has, emitted as the predicate `createArrays_valid_gen` and the constant
    `invalid_value_gen`;
  * NucleationBarrierParameters: `Rcrit`, `Gcrit` (attributes read through `self.` become parameters,
    in order of first use), the comparison of `_validateGBk` (`raises` predicate), the conditions of
    `_validateInputs`, the list of cache slots `_resetFactors` clears, which setters call
    `_resetFactors`, and for every cached property which validation it runs and which description
    method it stores.

numpy -> Reals: np.pi -> PI, np.sqrt -> sqrt, np.arcsin -> asin, np.arccos -> acos, `x**n` (n a
non-negative integer literal) -> x ^ n, np.zeros(x.shape) -> 0, np.ones(x.shape) -> 1, int literals ->
integers, float literals -> the exact decimal that was written.  Formula methods are assumed to act
elementwise on arrays (validated by the pointwise enclosures of the check, scalar and array calls).
"""
import ast, hashlib
from fractions import Fraction
from decimal import Decimal


class TranslationError(Exception):
    def __init__(self, msg, node=None, where=''):
        line = getattr(node, 'lineno', None)
        super().__init__('%s%s%s' % (where + ': ' if where else '', msg, ' (line %d)' % line if line else ''))
        self.lineno = line


DESCRIPTIONS = [('Bulk', 'BulkDescription'), ('Dislocation', 'DislocationDescription'),
                ('GrainBoundary', 'GrainBoundaryDescription'), ('GrainEdge', 'GrainEdgeDescription'),
                ('GrainCorner', 'GrainCornerDescription')]
BASE = 'NucleationDescriptionBase'
FACTORS = ['_gbRemoval', '_areaFactor', '_volumeFactor', '_areaRemoval']
SLOTS = {'_GBk': 'SGBk', '_areaFactor': 'SArea', '_volumeFactor': 'SVol', '_gbRemoval': 'SGbRem', '_areaRemoval': 'SAreaRem'}
NPFUN = {'sqrt': 'sqrt', 'arcsin': 'asin', 'arccos': 'acos'}


def _num(v, node):
    if isinstance(v, bool) or not isinstance(v, (int, float)):
        raise TranslationError('unsupported constant %r' % (v,), node)
    if isinstance(v, int):
        fr = Fraction(v)
    else:
        if v != v or v in (float('inf'), float('-inf')):
            raise TranslationError('non-finite literal', node)
        fr = Fraction(Decimal(repr(v)))
    if fr.denominator == 1:
        return '%d' % fr.numerator if fr.numerator >= 0 else '(%d)' % fr.numerator
    return '(%d / %d)' % (fr.numerator, fr.denominator)


def _is_np(e, attr=None):
    return isinstance(e, ast.Attribute) and isinstance(e.value, ast.Name) and e.value.id == 'np' and (attr is None or e.attr == attr)


def _is_self_attr(e, attr=None):
    return isinstance(e, ast.Attribute) and isinstance(e.value, ast.Name) and e.value.id == 'self' and (attr is None or e.attr == attr)


class _Classes:
    def __init__(self, mod):
        self.cls = {}
        for n in mod.body:
            if isinstance(n, ast.ClassDef):
                if n.decorator_list or n.keywords:
                    raise TranslationError('decorated class / class keywords', n)
                bases = []
                for b in n.bases:
                    if not isinstance(b, ast.Name):
                        raise TranslationError('unsupported base class expression', n)
                    bases.append(b.id)
                if len(bases) > 1:
                    raise TranslationError('multiple inheritance', n)
                self.cls[n.name] = (n, bases[0] if bases else None)

    def mro(self, name):
        out = []
        while name is not None:
            if name not in self.cls:
                raise TranslationError('class %s not found' % name)
            out.append(name)
            name = self.cls[name][1]
        return out

    def find(self, cname, member):
        """(defining class, node) of a method or class attribute along the MRO"""
        for c in self.mro(cname):
            for st in self.cls[c][0].body:
                if isinstance(st, ast.FunctionDef) and st.name == member:
                    return c, st
                if isinstance(st, ast.Assign) and len(st.targets) == 1 and isinstance(st.targets[0], ast.Name) and st.targets[0].id == member:
                    return c, st
        raise TranslationError('%s.%s not found' % (cname, member))


class _Formula:
    """translation of one straight-line formula method for one concrete class"""

    def __init__(self, tr, short, cname):
        self.tr, self.short, self.cname = tr, short, cname

    def expr(self, e, env):
        if isinstance(e, ast.Constant):
            return _num(e.value, e)
        if isinstance(e, ast.Name):
            if e.id in env:
                return env[e.id]
            raise TranslationError('unknown name %s' % e.id, e)
        if _is_np(e, 'pi'):
            return 'PI'
        if isinstance(e, ast.UnaryOp) and isinstance(e.op, ast.USub):
            return '(- %s)' % self.expr(e.operand, env)
        if isinstance(e, ast.BinOp):
            if isinstance(e.op, ast.Pow):
                if not (isinstance(e.right, ast.Constant) and isinstance(e.right.value, int) and not isinstance(e.right.value, bool) and e.right.value >= 0):
                    raise TranslationError('exponent must be a non-negative integer literal', e)
                return '(%s ^ %d)' % (self.expr(e.left, env), e.right.value)
            ops = {ast.Add: '+', ast.Sub: '-', ast.Mult: '*', ast.Div: '/'}
            if type(e.op) not in ops:
                raise TranslationError('unsupported operator %s' % type(e.op).__name__, e)
            return '(%s %s %s)' % (self.expr(e.left, env), ops[type(e.op)], self.expr(e.right, env))
        if isinstance(e, ast.Call):
            if e.keywords:
                raise TranslationError('keyword arguments in a formula', e)
            if _is_np(e.func) and e.func.attr in NPFUN and len(e.args) == 1:
                return '(%s %s)' % (NPFUN[e.func.attr], self.expr(e.args[0], env))
            if _is_np(e.func) and e.func.attr in ('zeros', 'ones') and len(e.args) == 1:
                a = e.args[0]
                if isinstance(a, ast.Attribute) and a.attr == 'shape' and isinstance(a.value, ast.Name) and a.value.id in env:
                    return '0' if e.func.attr == 'zeros' else '1'
                raise TranslationError('np.%s of something that is not <argument>.shape' % e.func.attr, e)
            if _is_self_attr(e.func) and len(e.args) == 1:
                callee = self.tr.formula(self.short, self.cname, e.func.attr)
                return '(%s %s)' % (callee, self.expr(e.args[0], env))
            raise TranslationError('unsupported call', e)
        raise TranslationError('unsupported expression %s' % type(e).__name__, e)

    def body(self, fn, params):
        env = {p: p for p in params}
        lets, ret, cnt = [], None, {}
        for st in fn.body:
            if ret is not None:
                raise TranslationError('statement after return', st)
            if isinstance(st, ast.Expr) and isinstance(st.value, ast.Constant) and isinstance(st.value.value, str):
                continue
            if isinstance(st, ast.Assign) and len(st.targets) == 1 and isinstance(st.targets[0], ast.Name):
                n = st.targets[0].id
                txt = self.expr(st.value, env)
                cnt[n] = cnt.get(n, 0) + 1
                v = n if cnt[n] == 1 and n not in params else '%s_%d' % (n, cnt[n])
                if v in ('beta', 'delta', 'iota', 'zeta', 'eta', 'fix', 'let', 'in', 'fun', 'match', 'end', 'if', 'then', 'else', 'PI', 'sqrt'):
                    v = v + '_'
                lets.append('let %s := %s in' % (v, txt))
                env[n] = v
            elif isinstance(st, ast.Return) and st.value is not None:
                ret = self.expr(st.value, env)
            else:
                raise TranslationError('unsupported statement %s' % type(st).__name__, st)
        if ret is None:
            raise TranslationError('no return', fn)
        return ('\n  '.join(lets) + '\n  ' if lets else '') + ret


class Translator:
    def __init__(self, src):
        try:
            self.mod = ast.parse(src)
        except SyntaxError as e:
            raise TranslationError('source does not parse: %s' % e)
        self.C = _Classes(self.mod)
        self.done = {}        # (short, method) -> gen name
        self.out = []         # definitions in dependency order
        self.names = []
        self.active = set()

    # ---- formulas ------------------------------------------------------------------------
    def formula(self, short, cname, meth):
        key = (short, meth)
        if key in self.done:
            return self.done[key]
        if key in self.active:
            raise TranslationError('recursive formula %s.%s' % (cname, meth))
        self.active.add(key)
        dc, fn = self.C.find(cname, meth)
        if not isinstance(fn, ast.FunctionDef):
            raise TranslationError('%s.%s is not a method' % (cname, meth), fn)
        if fn.decorator_list:
            raise TranslationError('decorated formula method', fn)
        a = fn.args
        if a.vararg or a.kwarg or a.kwonlyargs or a.defaults or a.posonlyargs:
            raise TranslationError('unsupported signature', fn)
        params = [x.arg for x in a.args]
        if not params or params[0] != 'self':
            raise TranslationError('formula method without self', fn)
        params = params[1:]
        if len(params) != 1:
            raise TranslationError('formula method %s.%s must take exactly one argument' % (dc, meth), fn)
        body = _Formula(self, short, cname).body(fn, params)
        gname = '%s_%s_gen' % (short, meth.lstrip('_'))
        self.out.append('(* %s.%s (defined in %s, line %d) *)\nDefinition %s (%s : R) : R :=\n  %s.' % (cname, meth, dc, fn.lineno, gname, params[0], body))
        self.names.append(gname)
        self.active.discard(key)
        self.done[key] = gname
        return gname

    def max_ratio(self, short, cname):
        dc, st = self.C.find(cname, 'maxRatio')
        if not isinstance(st, ast.Assign):
            raise TranslationError('maxRatio of %s is not a class attribute' % cname, st)
        v = st.value
        if _is_np(v, 'inf'):
            txt = 'None'
        else:
            txt = 'Some %s' % _Formula(self, short, cname).expr(v, {})
            if not txt.startswith('Some (') and not txt[5:].isdigit():
                txt = 'Some (%s)' % txt[5:]
        self.out.append('Definition %s_maxRatio_gen : option R := %s.' % (short, txt))
        self.names.append('%s_maxRatio_gen' % short)

    def is_gb(self, short, cname):
        dc, fn = self.C.find(cname, 'isGrainBoundaryNucleation')
        ok = (isinstance(fn, ast.FunctionDef) and len(fn.decorator_list) == 1 and isinstance(fn.decorator_list[0], ast.Name)
              and fn.decorator_list[0].id == 'property' and len(fn.body) == 1 and isinstance(fn.body[0], ast.Return)
              and isinstance(fn.body[0].value, ast.Constant) and isinstance(fn.body[0].value.value, bool))
        if not ok:
            raise TranslationError('isGrainBoundaryNucleation of %s is not a constant property' % cname, fn)
        self.out.append('Definition %s_isGrainBoundaryNucleation_gen : bool := %s.' % (short, 'true' if fn.body[0].value.value else 'false'))
        self.names.append('%s_isGrainBoundaryNucleation_gen' % short)

    # ---- mask idiom of the public wrappers -------------------------------------------------
    @staticmethod
    def _same(node, template_src):
        t = ast.parse(template_src).body[0]
        return ast.dump(node) == ast.dump(t)

    def wrappers(self):
        dc, ca = self.C.find(BASE, '_createArrays')
        want = ['gbk = np.atleast_1d(gbk)', 'indices = gbk < self.maxRatio', 'valid_gbk = gbk[indices]',
                'values = -1*np.ones(gbk.shape, dtype=np.float64)', 'return gbk, valid_gbk, indices, values']
        body = [s for s in ca.body if not (isinstance(s, ast.Expr) and isinstance(s.value, ast.Constant))]
        if [x.arg for x in ca.args.args] != ['self', 'gbk'] or len(body) != len(want):
            raise TranslationError('_createArrays has an unexpected shape', ca)
        cmpop = None
        for st, w in zip(body, want):
            if w.startswith('indices ='):
                ok = (isinstance(st, ast.Assign) and len(st.targets) == 1 and isinstance(st.targets[0], ast.Name) and st.targets[0].id == 'indices'
                      and isinstance(st.value, ast.Compare) and len(st.value.ops) == 1 and isinstance(st.value.left, ast.Name)
                      and st.value.left.id == 'gbk' and _is_self_attr(st.value.comparators[0], 'maxRatio'))
                if not ok:
                    raise TranslationError('_createArrays: validity mask is not a comparison of gbk with self.maxRatio', st)
                cmpop = {ast.Lt: '<', ast.LtE: '<=', ast.Gt: '>', ast.GtE: '>='}.get(type(st.value.ops[0]))
                if cmpop is None:
                    raise TranslationError('_createArrays: unsupported comparison', st)
            elif w.startswith('values ='):
                v = st.value if isinstance(st, ast.Assign) else None
                ok = (v is not None and isinstance(v, ast.BinOp) and isinstance(v.op, ast.Mult) and isinstance(v.right, ast.Call)
                      and _is_np(v.right.func, 'ones'))
                if not ok:
                    raise TranslationError('_createArrays: placeholder is not <constant>*np.ones(...)', st)
                inv = _Formula(self, 'Base', BASE).expr(v.left, {})
            elif not self._same(st, w):
                raise TranslationError('_createArrays: unexpected statement', st)
        self.out.append('(* %s._createArrays: which entries are computed by the formula, and the placeholder of the others *)\n'
                        'Definition createArrays_valid_gen (gbk maxRatio : R) : Prop := gbk %s maxRatio.\n'
                        'Definition invalid_value_gen : R := %s * 1.' % (BASE, cmpop, inv))
        self.names += ['createArrays_valid_gen', 'invalid_value_gen']
        dc, fa = self.C.find(BASE, '_formatArray')
        fbody = [s for s in fa.body if not (isinstance(s, ast.Expr) and isinstance(s.value, ast.Constant))]
        ok = (len(fbody) == 2 and self._same(fbody[0], 'if setInvalidToNan:\n    values[~indices] = np.nan') and self._same(fbody[1], 'return np.squeeze(values)'))
        if not ok:
            raise TranslationError('_formatArray has an unexpected shape', fa)
        for m in FACTORS:
            pub = m.lstrip('_')
            dc, fn = self.C.find(BASE, pub)
            body = [s for s in fn.body if not (isinstance(s, ast.Expr) and isinstance(s.value, ast.Constant))]
            want = ['gbk, valid_gbk, indices, values = self._createArrays(gbk)', 'values[indices] = self.%s(valid_gbk)' % m,
                    'return self._formatArray(values, indices, setInvalidToNan)']
            if len(body) != 3 or not all(self._same(s, w) for s, w in zip(body, want)):
                raise TranslationError('public wrapper %s is not the mask idiom around %s' % (pub, m), fn)

    # ---- NucleationBarrierParameters -------------------------------------------------------
    def nbp_formula(self, meth):
        dc, fn = self.C.find('NucleationBarrierParameters', meth)
        params = [x.arg for x in fn.args.args][1:]
        attrs = []

        class F(_Formula):
            def expr(s, e, env):
                if _is_self_attr(e):
                    if e.attr not in attrs:
                        attrs.append(e.attr)
                    return e.attr
                return _Formula.expr(s, e, env)
        f = F(self, 'NBP', 'NucleationBarrierParameters')
        # first pass collects the attributes in order of first use
        body = f.body(fn, params)
        for p in params:
            if p in attrs:
                raise TranslationError('parameter %s shadows an attribute' % p, fn)
        gname = 'NBP_%s_gen' % meth
        self.out.append('(* NucleationBarrierParameters.%s (line %d); attributes read through self become parameters *)\n'
                        'Definition %s (%s : R) : R :=\n  %s.' % (meth, fn.lineno, gname, ' '.join(attrs + params), body))
        self.names.append(gname)
        return attrs + params

    def nbp_validate(self):
        dc, fn = self.C.find('NucleationBarrierParameters', '_validateGBk')
        body = [s for s in fn.body if not (isinstance(s, ast.Expr) and isinstance(s.value, ast.Constant))]
        ok = len(body) == 1 and isinstance(body[0], ast.If) and not body[0].orelse and isinstance(body[0].body[-1], ast.Raise)
        t = body[0].test if ok else None
        ok = ok and isinstance(t, ast.Compare) and len(t.ops) == 1 and _is_self_attr(t.left, 'GBk')
        c = t.comparators[0] if ok else None
        ok = ok and isinstance(c, ast.Attribute) and c.attr == 'maxRatio' and _is_self_attr(c.value, 'description')
        if not ok:
            raise TranslationError('_validateGBk is not `if self.GBk <cmp> self.description.maxRatio: ... raise`', fn)
        op = {ast.Lt: '<', ast.LtE: '<=', ast.Gt: '>', ast.GtE: '>='}.get(type(t.ops[0]))
        if op is None:
            raise TranslationError('_validateGBk: unsupported comparison', fn)
        self.out.append('(* NucleationBarrierParameters._validateGBk raises exactly when: *)\n'
                        'Definition NBP_validateGBk_raises_gen (GBk maxRatio : R) : Prop := GBk %s maxRatio.' % op)
        self.names.append('NBP_validateGBk_raises_gen')
        dc, fn = self.C.find('NucleationBarrierParameters', '_validateInputs')
        body = [s for s in fn.body if not (isinstance(s, ast.Expr) and isinstance(s.value, ast.Constant))]
        t1 = 'if self.gamma is None or self.gamma == 0:\n    raise ValueError(0)'
        t2 = 'if self.gbEnergy is None:\n    raise ValueError(0)'
        ok = len(body) == 2 and all(isinstance(b, ast.If) and not b.orelse and len(b.body) == 1 and isinstance(b.body[0], ast.Raise) for b in body)
        ok = ok and ast.dump(body[0].test) == ast.dump(ast.parse(t1).body[0].test) and ast.dump(body[1].test) == ast.dump(ast.parse(t2).body[0].test)
        if not ok:
            raise TranslationError('_validateInputs is not the expected pair of checks (gamma None or 0; gbEnergy None)', fn)
        self.out.append('Definition NBP_validateInputs_gen : bool * bool * bool := (true, true, true). (* gamma None, gamma = 0, gbEnergy None are rejected *)')
        self.names.append('NBP_validateInputs_gen')

    def nbp_cache(self):
        cname = 'NucleationBarrierParameters'
        node = self.C.cls[cname][0]
        # _resetFactors
        dc, fn = self.C.find(cname, '_resetFactors')
        cleared = []
        for st in fn.body:
            if isinstance(st, ast.Expr) and isinstance(st.value, ast.Constant):
                continue
            ok = (isinstance(st, ast.Assign) and len(st.targets) == 1 and _is_self_attr(st.targets[0]) and isinstance(st.value, ast.Constant) and st.value.value is None)
            if not ok or st.targets[0].attr not in SLOTS:
                raise TranslationError('_resetFactors: unexpected statement', st)
            cleared.append(SLOTS[st.targets[0].attr])
        self.out.append('Definition NBP_reset_clears_gen : list slot := [%s].' % '; '.join(cleared))
        self.names.append('NBP_reset_clears_gen')
        # setters
        setters = {}
        readers = {}
        for st in node.body:
            if not isinstance(st, ast.FunctionDef):
                continue
            decs = st.decorator_list
            if len(decs) == 1 and isinstance(decs[0], ast.Attribute) and decs[0].attr == 'setter' and isinstance(decs[0].value, ast.Name):
                prop = decs[0].value.id
                if prop not in ('description', 'gamma', 'gbEnergy'):
                    raise TranslationError('unexpected property setter %s' % prop, st)
                body = list(st.body)
                if not (body and self._same(body[0], 'self._%s = value' % prop)):
                    raise TranslationError('setter of %s does not start with self._%s = value' % (prop, prop), st)
                resets = False
                for s2 in body[1:]:
                    if self._same(s2, 'self._resetFactors()'):
                        resets = True
                    elif prop == 'description' and self._same(s2, 'for callback in self._updateCallbacks:\n    callback()'):
                        pass
                    else:
                        raise TranslationError('setter of %s: unexpected statement' % prop, s2)
                setters[prop] = resets
            elif len(decs) == 1 and isinstance(decs[0], ast.Name) and decs[0].id == 'property' and st.name in ('GBk', 'areaFactor', 'volumeFactor', 'gbRemoval', 'areaRemoval'):
                slot = '_' + st.name if st.name != 'GBk' else '_GBk'
                body = list(st.body)
                ok = (len(body) == 2 and isinstance(body[0], ast.If) and not body[0].orelse
                      and ast.dump(body[0].test) == ast.dump(ast.parse('self.%s is None' % slot).body[0].value)
                      and self._same(body[1], 'return self.%s' % slot) and len(body[0].body) == 2)
                if not ok:
                    raise TranslationError('cached property %s is not `if self.%s is None: validate; store` + return' % (st.name, slot), st)
                v, store = body[0].body
                if st.name == 'GBk':
                    ok = self._same(v, 'self._validateInputs()') and self._same(store, 'self._GBk = self.description.gbRatio(self.gbEnergy, self.gamma)')
                else:
                    ok = self._same(v, 'self._validateGBk()') and self._same(store, 'self.%s = self.description.%s(self.GBk, setInvalidToNan=False)' % (slot, st.name))
                if not ok:
                    raise TranslationError('cached property %s: unexpected validation / stored expression' % st.name, st)
                readers[st.name] = SLOTS[slot]
            elif len(decs) == 1 and isinstance(decs[0], ast.Name) and decs[0].id == 'property' and st.name in ('description', 'gamma', 'gbEnergy'):
                if not (len(st.body) == 1 and self._same(st.body[0], 'return self._%s' % st.name)):
                    raise TranslationError('getter of %s is not `return self._%s`' % (st.name, st.name), st)
        for p in ('description', 'gamma', 'gbEnergy'):
            if p not in setters:
                raise TranslationError('no setter for %s' % p)
        if sorted(readers) != sorted(['GBk', 'areaFactor', 'volumeFactor', 'gbRemoval', 'areaRemoval']):
            raise TranslationError('cached properties missing: have %s' % sorted(readers))
        self.out.append('Definition NBP_setter_resets_gen (p : param) : bool :=\n  match p with PDesc => %s | PGamma => %s | PGbE => %s end.'
                        % tuple('true' if setters[p] else 'false' for p in ('description', 'gamma', 'gbEnergy')))
        self.out.append('(* every cached property has the shape: if slot is None: validate; slot = description.<same name>(GBk) *)\n'
                        'Definition NBP_cached_slots_gen : list slot := [%s].' % '; '.join(readers[k] for k in ('GBk', 'areaFactor', 'volumeFactor', 'gbRemoval', 'areaRemoval')))
        self.names += ['NBP_setter_resets_gen', 'NBP_cached_slots_gen']
        # __init__ must end in a reset / go through the description setter
        dc, init = self.C.find(cname, '__init__')
        if not any(self._same(s, 'self._resetFactors()') for s in init.body):
            raise TranslationError('__init__ does not call _resetFactors', init)

    def run(self):
        for _, cname in DESCRIPTIONS:
            if cname not in self.C.cls:
                raise TranslationError('class %s missing' % cname)
        exp_bases = {'BulkDescription': BASE, 'DislocationDescription': 'BulkDescription', 'GrainBoundaryDescription': BASE,
                     'GrainEdgeDescription': BASE, 'GrainCornerDescription': BASE}
        for c, b in exp_bases.items():
            if self.C.cls[c][1] != b:
                raise TranslationError('class %s derives from %s, expected %s' % (c, self.C.cls[c][1], b))
        for short, cname in DESCRIPTIONS:
            self.out.append('(* ---- %s ---- *)' % cname)
            self.max_ratio(short, cname)
            self.is_gb(short, cname)
            for m in FACTORS:
                self.formula(short, cname, m)
        self.out.append('(* ---- %s: wrappers ---- *)' % BASE)
        dc, fn = self.C.find(BASE, 'gbRatio')
        f = _Formula(self, 'Base', BASE)
        params = [x.arg for x in fn.args.args][1:]
        self.out.append('Definition gbRatio_gen (%s : R) : R :=\n  %s.' % (' '.join(params), f.body(fn, params)))
        self.names.append('gbRatio_gen')
        self.wrappers()
        self.out.append('(* ---- NucleationBarrierParameters ---- *)')
        sig_r = self.nbp_formula('Rcrit')
        sig_g = self.nbp_formula('Gcrit')
        self.nbp_validate()
        self.nbp_cache()
        header = ('(* GENERATED on every run by harness/c14_translate.py from kawin/precipitation/parameters/Nucleation.py.\n'
                  '   Do not edit. *)\nFrom Coq Require Import Reals List.\nRequire Import Kawin.C14.Model.\nImport ListNotations.\nOpen Scope R_scope.\n\n')
        text = header + '\n\n'.join(self.out) + '\n'
        info = {'definitions': self.names, 'sha256': hashlib.sha256(text.encode()).hexdigest(),
                'Rcrit_signature': sig_r, 'Gcrit_signature': sig_g}
        return text, info


def translate(src):
    return Translator(src).run()


if __name__ == '__main__':
    import sys
    t, i = translate(open(sys.argv[1]).read())
    sys.stdout.write(t)
