"""Fail-closed Python-ast -> Gallina translator for kawin/precipitation/parameters/Nucleation.py (C14).

What is translated (anything outside the accepted subset raises TranslationError, which the check
reports as a broken tie):

  * the five nucleation descriptions (Bulk, Dislocation, GrainBoundary, GrainEdge, GrainCorner):
    `_gbRemoval`, `_areaFactor`, `_volumeFactor`, `_areaRemoval` and every helper they call through
    `self.<helper>(gbk)`, resolved along the (single-inheritance) method resolution order of each
    concrete class, as real-valued functions of the energy ratio; `maxRatio` of each class; `gbRatio`;
  * the mask idiom of the public wrappers (`_createArrays`: valid <=> gbk < maxRatio, placeholder -1;
    `gbRemoval/areaFactor/volumeFactor/areaRemoval` = formula on the valid entries): accepted in exactly
    the shape it has, emitted as the predicate `createArrays_valid_gen` and the constant
    `invalid_value_gen`;
  * NucleationBarrierParameters: `Rcrit`, `Gcrit` (attributes read through `self.` become parameters,
    in order of first use), the comparison of `_validateGBk` (`raises` predicate), the conditions of
    `_validateInputs`, the list of cache slots `_resetFactors` clears, which setters call
    `_resetFactors`, and for every cached property which validation it runs and which description
    method it stores.

numpy -> Reals: np.pi -> PI, np.sqrt -> sqrt, np.arcsin -> asin, np.arccos -> acos, `x**n` (n a
non-negative integer literal) -> x ^ n, np.zeros(x.shape) -> 0, np.ones(x.shape) -> 1, int literals ->
integers, float literals -> the exact decimal that was written.  Formula methods are assumed to act
elementwise on arrays (validated by the pointwise enclosures of the check, scalar and array calls).
"""
import ast, hashlib
from fractions import Fraction
from decimal import Decimal


class TranslationError(Exception):
    def __init__(self, msg, node=None, where=''):
        line = getattr(node, 'lineno', None)
        super().__init__('%s%s%s' % (where + ': ' if where else '', msg, ' (line %d)' % line if line else ''))
        self.lineno = line


DESCRIPTIONS = [('Bulk', 'BulkDescription'), ('Dislocation', 'DislocationDescription'),
                ('GrainBoundary', 'GrainBoundaryDescription'), ('GrainEdge', 'GrainEdgeDescription'),
                ('GrainCorner', 'GrainCornerDescription')]
BASE = 'NucleationDescriptionBase'
FACTORS = ['_gbRemoval', '_areaFactor', '_volumeFactor', '_areaRemoval']
SLOTS = {'_GBk': 'SGBk', '_areaFactor': 'SArea', '_volumeFactor': 'SVol', '_gbRemoval': 'SGbRem', '_areaRemoval': 'SAreaRem'}
NPFUN = {'sqrt': 'sqrt', 'arcsin': 'asin', 'arccos': 'acos'}


def _num(v, node):
    if isinstance(v, bool) or not isinstance(v, (int, float)):
        raise TranslationError('unsupported constant %r' % (v,), node)
    if isinstance(v, int):
        fr = Fraction(v)
    else:
        if v != v or v in (float('inf'), float('-inf')):
            raise TranslationError('non-finite literal', node)
        fr = Fraction(Decimal(repr(v)))
    if fr.denominator == 1:
        return '%d' % fr.numerator if fr.numerator >= 0 else '(%d)' % fr.numerator
    return '(%d / %d)' % (fr.numerator, fr.denominator)


def _is_np(e, attr=None):
    return isinstance(e, ast.Attribute) and isinstance(e.value, ast.Name) and e.value.id == 'np' and (attr is None or e.attr == attr)


def _is_self_attr(e, attr=None):
    return isinstance(e, ast.Attribute) and isinstance(e.value, ast.Name) and e.value.id == 'self' and (attr is None or e.attr == attr)


def _strip_doc(body):
    return [st for st in body if not (isinstance(st, ast.Expr) and isinstance(st.value, ast.Constant) and isinstance(st.value.value, str))]


class _Rename(ast.NodeTransformer):
    def __init__(self, m):
        self.m = m

    def visit_Name(self, n):
        return ast.copy_location(ast.Name(id=self.m.get(n.id, n.id), ctx=n.ctx), n)

    def visit_arg(self, n):
        n.arg = self.m.get(n.arg, n.arg)
        return n


def _canon(stmts, params):
    """alpha-normal form of a statement list: parameters -> p0, p1, ...; local names (assignment / loop targets, in order of
    first binding) -> l0, l1, ...; docstrings dropped.  Two bodies that differ only in the spelling of locals / parameters
    have the same dump."""
    import copy
    stmts = copy.deepcopy(_strip_doc(stmts))
    m = {p: 'p%d' % i for i, p in enumerate(params)}
    k = [0]

    def bind(t):
        if isinstance(t, ast.Name):
            if t.id not in m:
                m[t.id] = 'l%d' % k[0]
                k[0] += 1
        elif isinstance(t, (ast.Tuple, ast.List)):
            for e in t.elts:
                bind(e)
    for st in stmts:
        for n in ast.walk(st):
            if isinstance(n, ast.Assign):
                for t in n.targets:
                    bind(t)
            elif isinstance(n, ast.For):
                bind(n.target)
    out = [_Rename(m).visit(st) for st in stmts]
    return '\n'.join(ast.dump(st) for st in out)


def _canon_src(src, params):
    return _canon(ast.parse(src).body, params)


class _Subst(ast.NodeTransformer):
    """parameter -> argument expression (inlining of a private helper)"""
    def __init__(self, m):
        self.m = m

    def visit_Name(self, n):
        if n.id in self.m and isinstance(n.ctx, ast.Load):
            import copy
            return copy.deepcopy(self.m[n.id])
        return n


class _Classes:
    def __init__(self, mod):
        self.cls = {}
        for n in mod.body:
            if isinstance(n, ast.ClassDef):
                if n.decorator_list or n.keywords:
                    raise TranslationError('decorated class / class keywords', n)
                bases = []
                for b in n.bases:
                    if not isinstance(b, ast.Name):
                        raise TranslationError('unsupported base class expression', n)
                    bases.append(b.id)
                if len(bases) > 1:
                    raise TranslationError('multiple inheritance', n)
                self.cls[n.name] = (n, bases[0] if bases else None)

    def mro(self, name):
        out = []
        while name is not None:
            if name not in self.cls:
                raise TranslationError('class %s not found' % name)
            out.append(name)
            name = self.cls[name][1]
        return out

    def find(self, cname, member):
        """(defining class, node) of a method or class attribute along the MRO"""
        for c in self.mro(cname):
            for st in self.cls[c][0].body:
                if isinstance(st, ast.FunctionDef) and st.name == member:
                    return c, st
                if isinstance(st, ast.Assign) and len(st.targets) == 1 and isinstance(st.targets[0], ast.Name) and st.targets[0].id == member:
                    return c, st
        raise TranslationError('%s.%s not found' % (cname, member))


class _Formula:
    """translation of one straight-line formula method for one concrete class"""

    def __init__(self, tr, short, cname):
        self.tr, self.short, self.cname = tr, short, cname

    def expr(self, e, env):
        if isinstance(e, ast.Constant):
            return _num(e.value, e)
        if isinstance(e, ast.Name):
            if e.id in env:
                return env[e.id]
            if e.id in self.tr.module_consts:
                # module-level numeric constant: its defining expression is inlined
                return self.expr(self.tr.module_consts[e.id], {})
            raise TranslationError('unknown name %s' % e.id, e)
        if _is_np(e, 'pi'):
            return 'PI'
        if isinstance(e, ast.UnaryOp) and isinstance(e.op, ast.USub):
            return '(- %s)' % self.expr(e.operand, env)
        if isinstance(e, ast.BinOp):
            if isinstance(e.op, ast.Pow):
                if not (isinstance(e.right, ast.Constant) and isinstance(e.right.value, int) and not isinstance(e.right.value, bool) and e.right.value >= 0):
                    raise TranslationError('exponent must be a non-negative integer literal', e)
                return '(%s ^ %d)' % (self.expr(e.left, env), e.right.value)
            ops = {ast.Add: '+', ast.Sub: '-', ast.Mult: '*', ast.Div: '/'}
            if type(e.op) not in ops:
                raise TranslationError('unsupported operator %s' % type(e.op).__name__, e)
            return '(%s %s %s)' % (self.expr(e.left, env), ops[type(e.op)], self.expr(e.right, env))
        if isinstance(e, ast.Call):
            if e.keywords and not (_is_np(e.func, 'full') and all(k.arg == 'dtype' for k in e.keywords)):
                raise TranslationError('keyword arguments in a formula', e)
            if _is_np(e.func) and e.func.attr in NPFUN and len(e.args) == 1:
                return '(%s %s)' % (NPFUN[e.func.attr], self.expr(e.args[0], env))
            if _is_np(e.func, 'square') and len(e.args) == 1:
                return '(%s ^ 2)' % self.expr(e.args[0], env)
            if _is_np(e.func, 'full') and len(e.args) == 2 and all(k.arg == 'dtype' for k in e.keywords):
                # np.full(x.shape, c) = c * np.ones(x.shape): the constant itself (formulas act elementwise)
                a = e.args[0]
                if isinstance(a, ast.Attribute) and a.attr == 'shape' and isinstance(a.value, ast.Name) and a.value.id in env:
                    return self.expr(e.args[1], env)
                raise TranslationError('np.full of something that is not <argument>.shape', e)
            if _is_np(e.func) and e.func.attr in ('zeros', 'ones') and len(e.args) == 1:
                a = e.args[0]
                if isinstance(a, ast.Attribute) and a.attr == 'shape' and isinstance(a.value, ast.Name) and a.value.id in env:
                    return '0' if e.func.attr == 'zeros' else '1'
                raise TranslationError('np.%s of something that is not <argument>.shape' % e.func.attr, e)
            if _is_self_attr(e.func) and len(e.args) == 1:
                callee = self.tr.formula(self.short, self.cname, e.func.attr)
                return '(%s %s)' % (callee, self.expr(e.args[0], env))
            raise TranslationError('unsupported call', e)
        raise TranslationError('unsupported expression %s' % type(e).__name__, e)

    def body(self, fn, params):
        return self.body_env(fn, {p: p for p in params})

    def body_env(self, fn, env0):
        env = dict(env0)
        params = list(env0)
        lets, ret, cnt = [], None, {}
        for st in fn.body:
            if ret is not None:
                raise TranslationError('statement after return', st)
            if isinstance(st, ast.Expr) and isinstance(st.value, ast.Constant) and isinstance(st.value.value, str):
                continue
            if isinstance(st, ast.Assign) and len(st.targets) == 1 and isinstance(st.targets[0], ast.Name):
                n = st.targets[0].id
                txt = self.expr(st.value, env)
                cnt[n] = cnt.get(n, 0) + 1
                v = n if cnt[n] == 1 and n not in params else '%s_%d' % (n, cnt[n])
                if v in ('beta', 'delta', 'iota', 'zeta', 'eta', 'fix', 'let', 'in', 'fun', 'match', 'end', 'if', 'then', 'else', 'PI', 'sqrt'):
                    v = v + '_'
                lets.append('let %s := %s in' % (v, txt))
                env[n] = v
            elif isinstance(st, ast.Return) and st.value is not None:
                ret = self.expr(st.value, env)
            else:
                raise TranslationError('unsupported statement %s' % type(st).__name__, st)
        if ret is None:
            raise TranslationError('no return', fn)
        return ('\n  '.join(lets) + '\n  ' if lets else '') + ret


class Translator:
    def __init__(self, src):
        try:
            self.mod = ast.parse(src)
        except SyntaxError as e:
            raise TranslationError('source does not parse: %s' % e)
        self.C = _Classes(self.mod)
        self.module_consts = {}
        for st in self.mod.body:
            if isinstance(st, ast.Assign) and len(st.targets) == 1 and isinstance(st.targets[0], ast.Name):
                self.module_consts[st.targets[0].id] = st.value
        self.done = {}        # (short, method) -> gen name
        self.out = []         # definitions in dependency order
        self.names = []
        self.active = set()

    # ---- formulas ------------------------------------------------------------------------
    def formula(self, short, cname, meth):
        key = (short, meth)
        if key in self.done:
            return self.done[key]
        if key in self.active:
            raise TranslationError('recursive formula %s.%s' % (cname, meth))
        self.active.add(key)
        dc, fn = self.C.find(cname, meth)
        if not isinstance(fn, ast.FunctionDef):
            raise TranslationError('%s.%s is not a method' % (cname, meth), fn)
        if fn.decorator_list:
            raise TranslationError('decorated formula method', fn)
        a = fn.args
        if a.vararg or a.kwarg or a.kwonlyargs or a.defaults or a.posonlyargs:
            raise TranslationError('unsupported signature', fn)
        params = [x.arg for x in a.args]
        if not params or params[0] != 'self':
            raise TranslationError('formula method without self', fn)
        params = params[1:]
        if len(params) != 1:
            raise TranslationError('formula method %s.%s must take exactly one argument' % (dc, meth), fn)
        body = _Formula(self, short, cname).body(fn, params)
        gname = '%s_%s_gen' % (short, meth.lstrip('_'))
        self.out.append('(* %s.%s (defined in %s, line %d) *)\nDefinition %s (%s : R) : R :=\n  %s.' % (cname, meth, dc, fn.lineno, gname, params[0], body))
        self.names.append(gname)
        self.active.discard(key)
        self.done[key] = gname
        return gname

    def max_ratio(self, short, cname):
        dc, st = self.C.find(cname, 'maxRatio')
        if not isinstance(st, ast.Assign):
            raise TranslationError('maxRatio of %s is not a class attribute' % cname, st)
        v = st.value
        if _is_np(v, 'inf'):
            txt = 'None'
        else:
            txt = 'Some %s' % _Formula(self, short, cname).expr(v, {})
            if not txt.startswith('Some (') and not txt[5:].isdigit():
                txt = 'Some (%s)' % txt[5:]
        self.out.append('Definition %s_maxRatio_gen : option R := %s.' % (short, txt))
        self.names.append('%s_maxRatio_gen' % short)

    def is_gb(self, short, cname):
        dc, fn = self.C.find(cname, 'isGrainBoundaryNucleation')
        ok = (isinstance(fn, ast.FunctionDef) and len(fn.decorator_list) == 1 and isinstance(fn.decorator_list[0], ast.Name)
              and fn.decorator_list[0].id == 'property' and len(fn.body) == 1 and isinstance(fn.body[0], ast.Return)
              and isinstance(fn.body[0].value, ast.Constant) and isinstance(fn.body[0].value.value, bool))
        if not ok:
            raise TranslationError('isGrainBoundaryNucleation of %s is not a constant property' % cname, fn)
        self.out.append('Definition %s_isGrainBoundaryNucleation_gen : bool := %s.' % (short, 'true' if fn.body[0].value.value else 'false'))
        self.names.append('%s_isGrainBoundaryNucleation_gen' % short)

    # ---- mask idiom of the public wrappers -------------------------------------------------
    @staticmethod
    def _same(node, template_src):
        t = ast.parse(template_src).body[0]
        return ast.dump(node) == ast.dump(t)

    def inline_method_call(self, cname, fn):
        """a method whose body is `return self.<private helper>(args...)` is replaced by the helper's body with the arguments
        substituted for the parameters (bound methods `self._x` may be passed as arguments); returns (params, statements)"""
        import copy
        params = [x.arg for x in fn.args.args][1:]
        body = _strip_doc(fn.body)
        depth = 0
        while (len(body) == 1 and isinstance(body[0], ast.Return) and isinstance(body[0].value, ast.Call)
               and _is_self_attr(body[0].value.func) and body[0].value.func.attr.startswith('_') and depth < 3):
            call = body[0].value
            try:
                dc, h = self.C.find(cname, call.func.attr)
            except TranslationError:
                break
            if not isinstance(h, ast.FunctionDef) or h.decorator_list or call.keywords:
                break
            hp = [x.arg for x in h.args.args][1:]
            if h.args.vararg or h.args.kwarg or h.args.kwonlyargs or len(hp) != len(call.args):
                break
            hbody = copy.deepcopy(_strip_doc(h.body))
            # parameters of the helper must not be re-bound inside it unless the argument is the same plain name
            sub = {}
            for q, arg in zip(hp, call.args):
                if not (isinstance(arg, ast.Name) and arg.id == q):
                    sub[q] = arg
            rebound = set()
            for st in hbody:
                for n in ast.walk(st):
                    if isinstance(n, ast.Assign):
                        for t in n.targets:
                            for m in ast.walk(t):
                                if isinstance(m, ast.Name):
                                    rebound.add(m.id)
            if rebound & set(sub):
                # re-bound parameter whose argument is another expression: rename is needed -> only plain names are handled
                if not all(isinstance(sub[q], ast.Name) for q in rebound & set(sub)):
                    break
                ren = {q: sub[q].id for q in rebound & set(sub)}
                hbody = [_Rename(ren).visit(st) for st in hbody]
                sub = {q: v for q, v in sub.items() if q not in ren}
            body = [ast.fix_missing_locations(_Subst(sub).visit(st)) for st in hbody]
            depth += 1
        return params, body

    def wrappers(self):
        dc, ca = self.C.find(BASE, '_createArrays')
        if [x.arg for x in ca.args.args] != ['self', 'gbk'] or ca.decorator_list:
            raise TranslationError('_createArrays has an unexpected signature', ca)
        # semantic reading of the mask idiom (names of locals and the spelling of the placeholder are free):
        #   [g = np.atleast_1d(g)]; m = g <cmp> self.maxRatio; v = g[m]; w = <const> (as an array of g.shape); return g, v, m, w
        cmpop, inv, mask, valid, values = None, None, None, None, None
        ret = None
        for st in _strip_doc(ca.body):
            if ret is not None:
                raise TranslationError('_createArrays: statement after return', st)
            if self._same(st, 'gbk = np.atleast_1d(gbk)'):
                continue
            if isinstance(st, ast.Return):
                ret = st
                continue
            if not (isinstance(st, ast.Assign) and len(st.targets) == 1 and isinstance(st.targets[0], ast.Name)):
                raise TranslationError('_createArrays: unexpected statement', st)
            name, v = st.targets[0].id, st.value
            if isinstance(v, ast.Compare) and len(v.ops) == 1:
                l, r, op = v.left, v.comparators[0], type(v.ops[0])
                flip = {ast.Lt: ast.Gt, ast.Gt: ast.Lt, ast.LtE: ast.GtE, ast.GtE: ast.LtE}
                if isinstance(r, ast.Name) and r.id == 'gbk' and _is_self_attr(l, 'maxRatio') and op in flip:
                    l, r, op = r, l, flip[op]
                if not (isinstance(l, ast.Name) and l.id == 'gbk' and _is_self_attr(r, 'maxRatio')):
                    raise TranslationError('_createArrays: validity mask is not a comparison of gbk with self.maxRatio', st)
                cmpop = {ast.Lt: '<', ast.LtE: '<=', ast.Gt: '>', ast.GtE: '>='}.get(op)
                if cmpop is None or mask is not None:
                    raise TranslationError('_createArrays: unsupported comparison', st)
                mask = name
            elif (isinstance(v, ast.Subscript) and isinstance(v.value, ast.Name) and v.value.id == 'gbk'
                  and isinstance(v.slice, ast.Name) and v.slice.id == mask):
                valid = name
            else:
                # placeholder: c * np.ones(gbk.shape[, dtype]) | np.ones(...) * c | -np.ones(...) | np.full(gbk.shape, c[, dtype])
                def is_shape_call(cl, fname, nargs):
                    return (isinstance(cl, ast.Call) and _is_np(cl.func, fname) and len(cl.args) == nargs and all(k.arg == 'dtype' for k in cl.keywords)
                            and isinstance(cl.args[0], ast.Attribute) and cl.args[0].attr == 'shape' and isinstance(cl.args[0].value, ast.Name) and cl.args[0].value.id == 'gbk')
                F = _Formula(self, 'Base', BASE)
                if isinstance(v, ast.BinOp) and isinstance(v.op, ast.Mult) and is_shape_call(v.right, 'ones', 1):
                    inv = F.expr(v.left, {})
                elif isinstance(v, ast.BinOp) and isinstance(v.op, ast.Mult) and is_shape_call(v.left, 'ones', 1):
                    inv = F.expr(v.right, {})
                elif isinstance(v, ast.UnaryOp) and isinstance(v.op, ast.USub) and is_shape_call(v.operand, 'ones', 1):
                    inv = '(- 1)'
                elif is_shape_call(v, 'full', 2):
                    inv = F.expr(v.args[1], {})
                else:
                    raise TranslationError('_createArrays: unexpected statement (neither the mask, the valid entries nor a constant placeholder array)', st)
                if values is not None:
                    raise TranslationError('_createArrays: two placeholder arrays', st)
                values = name
        ok = (ret is not None and isinstance(ret.value, ast.Tuple) and len(ret.value.elts) == 4 and all(isinstance(e, ast.Name) for e in ret.value.elts)
              and None not in (mask, valid, values) and [e.id for e in ret.value.elts] == ['gbk', valid, mask, values])
        if not ok:
            raise TranslationError('_createArrays does not return (gbk, valid entries, mask, placeholder array)', ca)
        self.out.append('(* %s._createArrays: which entries are computed by the formula, and the placeholder of the others *)\n'
                        'Definition createArrays_valid_gen (gbk maxRatio : R) : Prop := gbk %s maxRatio.\n'
                        'Definition invalid_value_gen : R := %s * 1.' % (BASE, cmpop, inv))
        self.names += ['createArrays_valid_gen', 'invalid_value_gen']
        dc, fa = self.C.find(BASE, '_formatArray')
        fparams = [x.arg for x in fa.args.args][1:]
        if len(fparams) != 3 or _canon(fa.body, fparams) != _canon_src('if setInvalidToNan:\n    values[~indices] = np.nan\nreturn np.squeeze(values)', ['values', 'indices', 'setInvalidToNan']):
            raise TranslationError('_formatArray has an unexpected shape', fa)
        for m in FACTORS:
            pub = m.lstrip('_')
            dc, fn = self.C.find(BASE, pub)
            if [x.arg for x in fn.args.args][:2] != ['self', 'gbk'] or len(fn.args.args) != 3:
                raise TranslationError('public wrapper %s has an unexpected signature' % pub, fn)
            params, body = self.inline_method_call(BASE, fn)       # a private helper shared by the four wrappers is inlined
            want = ('gbk, b, c, d = self._createArrays(gbk)\nd[c] = self.%s(b)\nreturn self._formatArray(d, c, setInvalidToNan)' % m)
            if _canon(body, params) != _canon_src(want, ['gbk', 'setInvalidToNan']):
                raise TranslationError('public wrapper %s is not the mask idiom around %s' % (pub, m), fn)

    # ---- NucleationBarrierParameters -------------------------------------------------------
    def nbp_formula(self, meth):
        dc, fn = self.C.find('NucleationBarrierParameters', meth)
        params = [x.arg for x in fn.args.args][1:]
        attrs = []
        s_active = set()

        class F(_Formula):
            def expr(s, e, env):
                if _is_self_attr(e):
                    if e.attr not in attrs:
                        attrs.append(e.attr)
                    return e.attr
                if isinstance(e, ast.Call) and _is_self_attr(e.func) and not e.keywords:
                    # private helper method of the parameter object (straight-line formula): inlined
                    hname = e.func.attr
                    if hname in s_active:
                        raise TranslationError('recursive helper %s' % hname, e)
                    dc2, h = self.C.find('NucleationBarrierParameters', hname)
                    if not isinstance(h, ast.FunctionDef) or h.decorator_list:
                        raise TranslationError('%s is not a plain method' % hname, e)
                    hp = [x.arg for x in h.args.args][1:]
                    if len(hp) != len(e.args) or h.args.vararg or h.args.kwarg or h.args.kwonlyargs:
                        raise TranslationError('helper %s: unsupported signature / call' % hname, e)
                    henv = {q: s.expr(a_, env) for q, a_ in zip(hp, e.args)}
                    s_active.add(hname)
                    try:
                        txt = s.body_env(h, henv)
                    finally:
                        s_active.discard(hname)
                    return '(%s)' % txt
                return _Formula.expr(s, e, env)
        f = F(self, 'NBP', 'NucleationBarrierParameters')
        # first pass collects the attributes in order of first use
        body = f.body(fn, params)
        for p in params:
            if p in attrs:
                raise TranslationError('parameter %s shadows an attribute' % p, fn)
        gname = 'NBP_%s_gen' % meth
        self.out.append('(* NucleationBarrierParameters.%s (line %d); attributes read through self become parameters *)\n'
                        'Definition %s (%s : R) : R :=\n  %s.' % (meth, fn.lineno, gname, ' '.join(attrs + params), body))
        self.names.append(gname)
        return attrs + params

    def nbp_validate(self):
        dc, fn = self.C.find('NucleationBarrierParameters', '_validateGBk')
        body = [s for s in fn.body if not (isinstance(s, ast.Expr) and isinstance(s.value, ast.Constant))]
        ok = len(body) == 1 and isinstance(body[0], ast.If) and not body[0].orelse and isinstance(body[0].body[-1], ast.Raise)
        t = body[0].test if ok else None
        ok = ok and isinstance(t, ast.Compare) and len(t.ops) == 1 and _is_self_attr(t.left, 'GBk')
        c = t.comparators[0] if ok else None
        ok = ok and isinstance(c, ast.Attribute) and c.attr == 'maxRatio' and _is_self_attr(c.value, 'description')
        if not ok:
            raise TranslationError('_validateGBk is not `if self.GBk <cmp> self.description.maxRatio: ... raise`', fn)
        op = {ast.Lt: '<', ast.LtE: '<=', ast.Gt: '>', ast.GtE: '>='}.get(type(t.ops[0]))
        if op is None:
            raise TranslationError('_validateGBk: unsupported comparison', fn)
        self.out.append('(* NucleationBarrierParameters._validateGBk raises exactly when: *)\n'
                        'Definition NBP_validateGBk_raises_gen (GBk maxRatio : R) : Prop := GBk %s maxRatio.' % op)
        self.names.append('NBP_validateGBk_raises_gen')
        dc, fn = self.C.find('NucleationBarrierParameters', '_validateInputs')
        body = [s for s in fn.body if not (isinstance(s, ast.Expr) and isinstance(s.value, ast.Constant))]
        t1 = 'if self.gamma is None or self.gamma == 0:\n    raise ValueError(0)'
        t2 = 'if self.gbEnergy is None:\n    raise ValueError(0)'
        ok = len(body) == 2 and all(isinstance(b, ast.If) and not b.orelse and len(b.body) == 1 and isinstance(b.body[0], ast.Raise) for b in body)
        ok = ok and ast.dump(body[0].test) == ast.dump(ast.parse(t1).body[0].test) and ast.dump(body[1].test) == ast.dump(ast.parse(t2).body[0].test)
        if not ok:
            raise TranslationError('_validateInputs is not the expected pair of checks (gamma None or 0; gbEnergy None)', fn)
        self.out.append('Definition NBP_validateInputs_gen : bool * bool * bool := (true, true, true). (* gamma None, gamma = 0, gbEnergy None are rejected *)')
        self.names.append('NBP_validateInputs_gen')

    def nbp_cache(self):
        """the cache structure of NucleationBarrierParameters, read through its PUBLIC properties: the private attribute that
        backs a property may have any name, as long as the property, its setter and _resetFactors agree on it"""
        cname = 'NucleationBarrierParameters'
        node = self.C.cls[cname][0]
        PUB = {'GBk': 'SGBk', 'areaFactor': 'SArea', 'volumeFactor': 'SVol', 'gbRemoval': 'SGbRem', 'areaRemoval': 'SAreaRem'}
        setters, readers, slot_attr, backing, getters = {}, {}, {}, {}, {}

        def cached_shape(st):
            """(attr, validation stmt, stored expression) of `if self.A is None: validate; self.A = e` + `return self.A`
            or of the early-return form `if self.A is not None: return self.A` + validate; store; return"""
            body = _strip_doc(st.body)
            def is_none_test(t, neg):
                return (isinstance(t, ast.Compare) and len(t.ops) == 1 and isinstance(t.ops[0], ast.IsNot if neg else ast.Is) and _is_self_attr(t.left)
                        and isinstance(t.comparators[0], ast.Constant) and t.comparators[0].value is None)
            def ret_attr(r):
                return r.value.attr if isinstance(r, ast.Return) and _is_self_attr(r.value) else None
            def store_of(x):
                return (x.targets[0].attr, x.value) if isinstance(x, ast.Assign) and len(x.targets) == 1 and _is_self_attr(x.targets[0]) else (None, None)
            if len(body) == 2 and isinstance(body[0], ast.If) and not body[0].orelse and is_none_test(body[0].test, False) and len(body[0].body) == 2:
                attr = body[0].test.left.attr
                v, store = body[0].body
                sa, sv = store_of(store)
                if sa == attr and ret_attr(body[1]) == attr:
                    return attr, v, sv
            if (len(body) == 4 and isinstance(body[0], ast.If) and not body[0].orelse and is_none_test(body[0].test, True)
                    and len(body[0].body) == 1 and ret_attr(body[0].body[0]) == body[0].test.left.attr):
                attr = body[0].test.left.attr
                sa, sv = store_of(body[2])
                if sa == attr and ret_attr(body[3]) == attr:
                    return attr, body[1], sv
            return None
        for st in node.body:
            if not isinstance(st, ast.FunctionDef):
                continue
            decs = st.decorator_list
            if len(decs) == 1 and isinstance(decs[0], ast.Attribute) and decs[0].attr == 'setter' and isinstance(decs[0].value, ast.Name):
                prop = decs[0].value.id
                if prop not in ('description', 'gamma', 'gbEnergy'):
                    raise TranslationError('unexpected property setter %s' % prop, st)
                body = _strip_doc(st.body)
                vname = st.args.args[1].arg if len(st.args.args) == 2 else None
                first = body[0] if body else None
                ok = (vname is not None and isinstance(first, ast.Assign) and len(first.targets) == 1 and _is_self_attr(first.targets[0])
                      and isinstance(first.value, ast.Name) and first.value.id == vname)
                if not ok:
                    raise TranslationError('setter of %s does not start with self.<attribute> = <value>' % prop, st)
                backing[prop] = first.targets[0].attr
                resets = False
                for s2 in body[1:]:
                    if self._same(s2, 'self._resetFactors()'):
                        resets = True
                    elif prop == 'description' and _canon([s2], []) == _canon_src('for callback in self._updateCallbacks:\n    callback()', []):
                        pass
                    else:
                        raise TranslationError('setter of %s: unexpected statement' % prop, s2)
                setters[prop] = resets
            elif len(decs) == 1 and isinstance(decs[0], ast.Name) and decs[0].id == 'property' and st.name in PUB:
                sh = cached_shape(st)
                if sh is None:
                    raise TranslationError('cached property %s is not `if <slot> is None: validate; store` + return' % st.name, st)
                attr, v, stored = sh
                if st.name == 'GBk':
                    ok = self._same(v, 'self._validateInputs()') and ast.dump(stored) == ast.dump(ast.parse('self.description.gbRatio(self.gbEnergy, self.gamma)').body[0].value)
                else:
                    ok = self._same(v, 'self._validateGBk()') and ast.dump(stored) == ast.dump(ast.parse('self.description.%s(self.GBk, setInvalidToNan=False)' % st.name).body[0].value)
                if not ok:
                    raise TranslationError('cached property %s: unexpected validation / stored expression' % st.name, st)
                if attr in slot_attr:
                    raise TranslationError('cache attribute %s backs two properties' % attr, st)
                slot_attr[attr] = PUB[st.name]
                readers[st.name] = PUB[st.name]
            elif len(decs) == 1 and isinstance(decs[0], ast.Name) and decs[0].id == 'property' and st.name in ('description', 'gamma', 'gbEnergy'):
                body = _strip_doc(st.body)
                if not (len(body) == 1 and isinstance(body[0], ast.Return) and _is_self_attr(body[0].value)):
                    raise TranslationError('getter of %s is not `return self.<attribute>`' % st.name, st)
                getters[st.name] = body[0].value.attr
        for p in ('description', 'gamma', 'gbEnergy'):
            if p not in setters:
                raise TranslationError('no setter for %s' % p)
            if getters.get(p) != backing[p]:
                raise TranslationError('getter and setter of %s use different attributes (%s / %s)' % (p, getters.get(p), backing[p]))
        if sorted(readers) != sorted(PUB):
            raise TranslationError('cached properties missing: have %s' % sorted(readers))
        if set(slot_attr) & set(backing.values()):
            raise TranslationError('a cache slot shares its attribute with a parameter')
        # _resetFactors: clears cache slots only
        dc, fn = self.C.find(cname, '_resetFactors')
        cleared = []
        for st in _strip_doc(fn.body):
            ok = (isinstance(st, ast.Assign) and len(st.targets) == 1 and _is_self_attr(st.targets[0]) and isinstance(st.value, ast.Constant) and st.value.value is None)
            if not ok or st.targets[0].attr not in slot_attr:
                raise TranslationError('_resetFactors: statement that is not `<cache slot> = None`', st)
            cleared.append(slot_attr[st.targets[0].attr])
        self.out.append('Definition NBP_reset_clears_gen : list slot := [%s].' % '; '.join(sorted(cleared, key=list(PUB.values()).index)))
        self.names.append('NBP_reset_clears_gen')
        self.out.append('Definition NBP_setter_resets_gen (p : param) : bool :=\n  match p with PDesc => %s | PGamma => %s | PGbE => %s end.'
                        % tuple('true' if setters[p] else 'false' for p in ('description', 'gamma', 'gbEnergy')))
        self.out.append('(* every cached property has the shape: if slot is None: validate; slot = description.<same name>(GBk) *)\n'
                        'Definition NBP_cached_slots_gen : list slot := [%s].' % '; '.join(readers[k] for k in ('GBk', 'areaFactor', 'volumeFactor', 'gbRemoval', 'areaRemoval')))
        self.names += ['NBP_setter_resets_gen', 'NBP_cached_slots_gen']
        # __init__ must leave every slot empty: it calls _resetFactors (directly or through the description setter that resets)
        dc, init = self.C.find(cname, '__init__')
        if not any(self._same(s2, 'self._resetFactors()') for s2 in init.body):
            raise TranslationError('__init__ does not call _resetFactors', init)

    def run(self):
        for _, cname in DESCRIPTIONS:
            if cname not in self.C.cls:
                raise TranslationError('class %s missing' % cname)
        exp_bases = {'BulkDescription': BASE, 'DislocationDescription': 'BulkDescription', 'GrainBoundaryDescription': BASE,
                     'GrainEdgeDescription': BASE, 'GrainCornerDescription': BASE}
        for c, b in exp_bases.items():
            if self.C.cls[c][1] != b:
                raise TranslationError('class %s derives from %s, expected %s' % (c, self.C.cls[c][1], b))
        for short, cname in DESCRIPTIONS:
            self.out.append('(* ---- %s ---- *)' % cname)
            self.max_ratio(short, cname)
            self.is_gb(short, cname)
            for m in FACTORS:
                self.formula(short, cname, m)
        self.out.append('(* ---- %s: wrappers ---- *)' % BASE)
        dc, fn = self.C.find(BASE, 'gbRatio')
        f = _Formula(self, 'Base', BASE)
        params = [x.arg for x in fn.args.args][1:]
        self.out.append('Definition gbRatio_gen (%s : R) : R :=\n  %s.' % (' '.join(params), f.body(fn, params)))
        self.names.append('gbRatio_gen')
        self.wrappers()
        self.out.append('(* ---- NucleationBarrierParameters ---- *)')
        sig_r = self.nbp_formula('Rcrit')
        sig_g = self.nbp_formula('Gcrit')
        self.nbp_validate()
        self.nbp_cache()
        header = ('(* GENERATED on every run by harness/c14_translate.py from kawin/precipitation/parameters/Nucleation.py.\n'
                  '   Do not edit. *)\nFrom Coq Require Import Reals List.\nRequire Import Kawin.C14.Model.\nImport ListNotations.\nOpen Scope R_scope.\n\n')
        text = header + '\n\n'.join(self.out) + '\n'
        info = {'definitions': self.names, 'sha256': hashlib.sha256(text.encode()).hexdigest(),
                'Rcrit_signature': sig_r, 'Gcrit_signature': sig_g}
        return text, info


def translate(src):
    return Translator(src).run()


if __name__ == '__main__':
    import sys
    t, i = translate(open(sys.argv[1]).read())
    sys.stdout.write(t)
