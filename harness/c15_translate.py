"""Fail-closed Python-ast -> Gallina translator for kawin/precipitation/parameters/ShapeFactors.py (C15).

The translator works on a NORMALISED form of the source: every method it reads is executed symbolically
(single-assignment temporaries are substituted, locals may have any name, tuple assignments, augmented
assignments, conditional expressions, private helper methods are inlined, module-level numeric constants
are substituted) into an expression over the method's inputs, and that expression is what is emitted.
Anything outside the accepted subset raises TranslationError, which the check reports as a broken tie.

What is translated:
  * the four shape descriptions (Sphere, Needle, Plate, Cuboidal): `_eqRadius`, `_normalRadii`,
    `_kineticFactor`, `_thermoFactor` and `eccentricity`, resolved along the single-inheritance MRO, as
    real functions of the aspect ratio (`_normalRadii`: a triple of reals, one row of the n x 3 array);
  * the constructors: `__init__` of every description is executed symbolically (super().__init__(),
    `self.<x>Min = <expr>`); a call of a PUBLIC wrapper inside a constructor is translated as that
    wrapper applied to the value the `...Min` attribute holds AT THAT POINT of the constructor;
  * `_processAspectRatio` and the public wrappers `eqRadiusFactor / kineticFactor / thermoFactor / normalRadii`
    as elementwise array programs: np.atleast_1d / np.squeeze are the identity on elements,
    `c * np.ones(x.shape)` and `np.full(x.shape, c, dtype=np.float64)` are the constant c, `m = x > c` is a mask,
    `y[m] = f(x[m])` is  if m then f x else y,  `np.where(m, a, b)` is  if m then a else b,  np.maximum /
    np.minimum are Rmax / Rmin.  A masked assignment INTO THE ARGUMENT (or np.atleast_1d of it) is recorded as
    `processAspectRatio_inplace_gen = true`;
  * ShapeFactor: the four compositions with `self.aspectRatio`, `_scalarAspectRatioEquation`,
    the dispatch of `setAspectRatio`, `_findRcritScalar`, and the bisection `_findRcrit`:
    the statements before the loop, the loop (`while <test>: ...; n += 1; if n == N: return g`  or
    `for _ in range(N): if not <test>: return f; ...` followed by `return g`) and its body are executed
    symbolically over the scalar record `Ops`; the loop-carried variables are mapped onto the six fields of the
    model's state by their ROLE in the normalised update (which one is tested, returned, replaced by the
    midpoint in which branch), not by their names or order.

numpy -> Reals: np.pi -> PI, np.sqrt -> sqrt, np.exp -> exp, np.log -> ln, np.arcsin -> asin,
np.arccos -> acos, np.cbrt -> cbrt (= Rpower x (1/3), positive arguments), `x ** n` (n a non-negative
integer literal) -> x ^ n, `x ** (p / q)` (integer literals) -> Rpower x (p / q), np.ones((len(x), 3)) -> (1, 1, 1),
np.array([a, b, c]).T -> (a, b, c), scalar * triple -> componentwise product, int literals -> integers, float
literals -> the exact decimal that was written.  Formula methods are assumed to act elementwise on arrays
(validated on every run by the pointwise enclosures of the check, scalar and array calls).
np.full WITHOUT dtype=np.float64 and np.full_like are rejected (their dtype follows the data).
"""
import ast, copy, hashlib
from fractions import Fraction
from decimal import Decimal


class TranslationError(Exception):
    def __init__(self, msg, node=None, where=''):
        line = getattr(node, 'lineno', None)
        super().__init__('%s%s%s' % (where + ': ' if where else '', msg, ' (line %d)' % line if line else ''))
        self.lineno = line


DESCRIPTIONS = [('Sphere', 'SphereDescription'), ('Needle', 'NeedleDescription'),
                ('Plate', 'PlateDescription'), ('Cuboidal', 'CuboidalDescription')]
BASE = 'ShapeDescriptionBase'
SHORT = {c: s for s, c in DESCRIPTIONS}
SHORT[BASE] = 'Base'
FORMULAS = ['_eqRadius', '_normalRadii', '_kineticFactor', '_thermoFactor']
WRAPPERS = {'eqRadiusFactor': ('eqRadiusFactorMin', '_eqRadius'),
            'kineticFactor': ('kineticFactorMin', '_kineticFactor'),
            'thermoFactor': ('thermoFactorMin', '_thermoFactor')}
MINS = ['eqRadiusFactorMin', 'kineticFactorMin', 'thermoFactorMin']
NPFUN = {'sqrt': 'sqrt', 'exp': 'exp', 'log': 'ln', 'arcsin': 'asin', 'arccos': 'acos', 'cbrt': 'cbrt'}
RESERVED = {'R', 'PI', 'sqrt', 'exp', 'ln', 'asin', 'acos', 'cbrt', 'fix', 'let', 'in', 'fun', 'match', 'end',
            'if', 'then', 'else', 'T', 'O', 'beta', 'delta', 'iota', 'zeta', 'eta', 'two', 'tol', 's', 'f', 'fmin'}
# names the description / ShapeFactor contexts treat as entities (never inlined)
KNOWN_DESCR = set(FORMULAS) | set(WRAPPERS) | {'normalRadii', '_processAspectRatio', 'eccentricity'}
KNOWN_SF = {'thermoFactor', 'eqRadiusFactor', 'kineticFactor', 'normalRadii', 'aspectRatio'}


def _frac(v, node):
    if isinstance(v, bool) or not isinstance(v, (int, float)):
        raise TranslationError('unsupported constant %r' % (v,), node)
    if isinstance(v, int):
        return Fraction(v)
    if v != v or v in (float('inf'), float('-inf')):
        raise TranslationError('non-finite literal', node)
    return Fraction(Decimal(repr(v)))


def _ident(n):
    return n + '_' if n in RESERVED else n


def _is_np(e, attr=None):
    return isinstance(e, ast.Attribute) and isinstance(e.value, ast.Name) and e.value.id == 'np' and (attr is None or e.attr == attr)


def _is_self_attr(e, attr=None):
    return isinstance(e, ast.Attribute) and isinstance(e.value, ast.Name) and e.value.id == 'self' and (attr is None or e.attr == attr)


def _strip_doc(body):
    return [s for s in body if not (isinstance(s, ast.Expr) and isinstance(s.value, ast.Constant) and isinstance(s.value.value, str))]


def _same(node, template_src):
    t = ast.parse(template_src).body[0]
    if isinstance(t, ast.Expr) and not isinstance(node, ast.Expr):
        t = t.value
    return ast.dump(node) == ast.dump(t)


# ==========================================================================================
# class table
class _Classes:
    def __init__(self, mod):
        self.cls = {}
        for n in mod.body:
            if isinstance(n, ast.ClassDef):
                if n.decorator_list or n.keywords:
                    raise TranslationError('decorated class / class keywords', n)
                bases = []
                for b in n.bases:
                    if not isinstance(b, ast.Name):
                        raise TranslationError('unsupported base class expression', n)
                    bases.append(b.id)
                if len(bases) > 1:
                    raise TranslationError('multiple inheritance', n)
                if n.name in self.cls:
                    raise TranslationError('class %s defined twice' % n.name, n)
                self.cls[n.name] = (n, bases[0] if bases else None)

    def mro(self, name):
        out = []
        while name is not None:
            if name not in self.cls:
                raise TranslationError('class %s not found' % name)
            out.append(name)
            name = self.cls[name][1]
        return out

    def find(self, cname, member, required=True):
        """(defining class, FunctionDef) of a method along the MRO; the LAST definition in a class body wins"""
        for c in self.mro(cname):
            found = None
            for st in self.cls[c][0].body:
                if isinstance(st, (ast.FunctionDef, ast.AsyncFunctionDef)) and st.name == member:
                    found = st
                if isinstance(st, ast.Assign) and any(isinstance(t, ast.Name) and t.id == member for t in st.targets):
                    raise TranslationError('%s.%s is rebound by a class-level assignment' % (c, member), st)
            if found is not None:
                if not isinstance(found, ast.FunctionDef) or found.decorator_list:
                    raise TranslationError('%s.%s is decorated / async' % (c, member), found)
                return c, found
        if required:
            raise TranslationError('%s.%s not found' % (cname, member))
        return None, None


def _params(fn, n=None):
    a = fn.args
    if a.vararg or a.kwarg or a.kwonlyargs or a.defaults or a.posonlyargs or a.kw_defaults:
        raise TranslationError('unsupported signature of %s' % fn.name, fn)
    ps = [x.arg for x in a.args]
    if not ps or ps[0] != 'self':
        raise TranslationError('%s is not a method (no self)' % fn.name, fn)
    ps = ps[1:]
    if n is not None and len(ps) != n:
        raise TranslationError('%s must take exactly %d argument(s)' % (fn.name, n), fn)
    return ps


# ==========================================================================================
# inlining of private helper methods (AST level)
class _Rename(ast.NodeTransformer):
    def __init__(self, prefix):
        self.prefix = prefix

    def visit_Name(self, node):
        if node.id in ('np', 'self', 'len', 'range', 'super'):
            return node
        return ast.copy_location(ast.Name(id=self.prefix + node.id, ctx=node.ctx), node)


class _Subst(ast.NodeTransformer):
    def __init__(self, m):
        self.m = m

    def visit_Name(self, node):
        if node.id in self.m and isinstance(node.ctx, ast.Load):
            return copy.deepcopy(self.m[node.id])
        return node


class _Inliner:
    """replaces calls self.<helper>(...) of methods that are not entities of the context by the helper's body"""

    def __init__(self, C, cname, known):
        self.C, self.cname, self.known = C, cname, known
        self.counter = 0

    def helper(self, call):
        if not (isinstance(call, ast.Call) and _is_self_attr(call.func) and call.func.attr not in self.known):
            return None
        dc, fn = self.C.find(self.cname, call.func.attr, required=False)
        if fn is None:
            return None
        if call.keywords:
            raise TranslationError('keyword arguments in a call of the helper %s' % fn.name, call)
        ps = _params(fn)
        if len(ps) != len(call.args):
            raise TranslationError('helper %s called with %d arguments' % (fn.name, len(call.args)), call)
        return fn, ps

    def expr(self, e, depth=0):
        """expression-level inlining: helper whose body is a single return"""
        outer = self

        class T(ast.NodeTransformer):
            def visit_Call(self, node):
                self.generic_visit(node)
                h = outer.helper(node)
                if h is None:
                    return node
                fn, ps = h
                body = _strip_doc(fn.body)
                if not (len(body) == 1 and isinstance(body[0], ast.Return) and body[0].value is not None):
                    raise TranslationError('helper %s is used inside an expression but is not a single return' % fn.name, node)
                if depth > 6:
                    raise TranslationError('helper inlining too deep (%s)' % fn.name, node)
                inner = outer.expr(copy.deepcopy(body[0].value), depth + 1)
                return ast.copy_location(_Subst(dict(zip(ps, node.args))).visit(inner), node)
        return T().visit(e)

    def stmts(self, body, depth=0):
        out = []
        for st in body:
            tgt_call = None
            if isinstance(st, ast.Return) and st.value is not None:
                tgt_call = st.value
            elif isinstance(st, ast.Assign) and len(st.targets) == 1:
                tgt_call = st.value
            h = self.helper(tgt_call) if tgt_call is not None else None
            hb = _strip_doc(h[0].body) if h else None
            if h and not (len(hb) == 1 and isinstance(hb[0], ast.Return)):
                # statement-level inlining: parameters become renamed locals initialised from the arguments
                fn, ps = h
                if depth > 6:
                    raise TranslationError('helper inlining too deep (%s)' % fn.name, st)
                self.counter += 1
                prefix = '_%s%d_' % (fn.name.strip('_'), self.counter)
                for p, a in zip(ps, tgt_call.args):
                    out.append(ast.copy_location(ast.Assign(targets=[ast.Name(id=prefix + p, ctx=ast.Store())], value=self.expr(copy.deepcopy(a))), st))
                inner = [_Rename(prefix).visit(copy.deepcopy(s)) for s in hb]
                inner = self.stmts(inner, depth + 1)
                if not inner or not isinstance(inner[-1], ast.Return) or inner[-1].value is None:
                    raise TranslationError('helper %s does not end with a return' % fn.name, fn)
                for s in inner[:-1]:
                    for sub in ast.walk(s):
                        if isinstance(sub, ast.Return):
                            raise TranslationError('helper %s returns before its last statement' % fn.name, fn)
                out += inner[:-1]
                last = inner[-1].value
                if isinstance(st, ast.Return):
                    out.append(ast.copy_location(ast.Return(value=last), st))
                else:
                    out.append(ast.copy_location(ast.Assign(targets=st.targets, value=last), st))
                continue
            st = copy.deepcopy(st)
            for field, val in ast.iter_fields(st):
                if isinstance(val, ast.expr):
                    setattr(st, field, self.expr(val))
                elif isinstance(val, list) and val and isinstance(val[0], ast.stmt):
                    setattr(st, field, self.stmts(val, depth))
                elif isinstance(val, list) and val and isinstance(val[0], ast.expr):
                    setattr(st, field, [self.expr(v) for v in val])
            out.append(st)
        return out


# ==========================================================================================
# symbolic values: (ir, ty) with ty in R | triple | mask | mref | fresh-array bookkeeping
class Val:
    def __init__(self, ir, ty='R', alias=False, gather=None):
        self.ir, self.ty, self.alias, self.gather = ir, ty, alias, gather


def num(fr):
    return ('num', Fraction(fr))


def mk_ite(c, a, b):
    """conditional with the negations of the test moved into the order of the branches"""
    while c[0] == 'not':
        c, a, b = c[1], b, a
    return ('ite', c, a, b)


def pr_num_R(fr):
    if fr.denominator == 1:
        return '%d' % fr.numerator if fr.numerator >= 0 else '(%d)' % fr.numerator
    return '(%d / %d)' % (fr.numerator, fr.denominator)


CMPDEC = {'Lt': 'Rlt_dec', 'LtE': 'Rle_dec', 'Gt': 'Rgt_dec', 'GtE': 'Rge_dec'}


def pr_R(ir):
    k = ir[0]
    if k == 'num':
        return pr_num_R(ir[1])
    if k == 'var':
        return ir[1]
    if k == 'pi':
        return 'PI'
    if k == 'bin':
        return '(%s %s %s)' % (pr_R(ir[2]), ir[1], pr_R(ir[3]))
    if k == 'neg':
        return '(- %s)' % pr_R(ir[1])
    if k == 'pow':
        return '(%s ^ %d)' % (pr_R(ir[1]), ir[2])
    if k == 'rpow':
        return '(Rpower %s (%d / %d))' % (pr_R(ir[1]), ir[2], ir[3])
    if k == 'fun':
        return '(%s %s)' % (ir[1], pr_R(ir[2]))
    if k == 'app':
        return '(%s %s)' % (ir[1], ' '.join(pr_R(a) for a in ir[2]))
    if k == 'max':
        return '(Rmax %s %s)' % (pr_R(ir[1]), pr_R(ir[2]))
    if k == 'min':
        return '(Rmin %s %s)' % (pr_R(ir[1]), pr_R(ir[2]))
    if k == 'triple':
        return '(%s, %s, %s)' % (pr_R(ir[1]), pr_R(ir[2]), pr_R(ir[3]))
    if k == 'smul3':
        return '(smul3 %s %s)' % (pr_R(ir[1]), pr_R(ir[2]))
    if k == 'ones3':
        return 'ones3'
    if k == 'ite':
        c, t, e = ir[1], ir[2], ir[3]
        while c[0] == 'not':
            c, t, e = c[1], e, t
        if c[0] != 'cmp':
            raise TranslationError('unsupported condition in a real-valued expression')
        return '(if %s %s %s then %s else %s)' % (CMPDEC[c[1]], pr_R(c[2]), pr_R(c[3]), pr_R(t), pr_R(e))
    raise TranslationError('cannot print %r over the reals' % (k,))


def pr_cond_O(c):
    if c[0] == 'not':
        inner = c[1]
        if inner[0] == 'not':
            return pr_cond_O(inner[1])
        return '(negb %s)' % pr_cond_O(inner)
    if c[0] != 'cmp':
        raise TranslationError('unsupported condition in _findRcrit')
    op, a, b = c[1], pr_O(c[2]), pr_O(c[3])
    return {'Gt': '(ltb O %s %s)' % (b, a), 'Lt': '(ltb O %s %s)' % (a, b),
            'GtE': '(leb O %s %s)' % (b, a), 'LtE': '(leb O %s %s)' % (a, b)}[op]


def pr_O(ir):
    k = ir[0]
    if k == 'num':
        fr = ir[1]
        if fr.denominator != 1:
            raise TranslationError('non-integer literal in _findRcrit')
        return '(zero O)' if fr == 0 else '(one O)' if fr == 1 else '(ofZ O (%d))' % fr.numerator
    if k == 'var':
        return ir[1]
    if k == 'bin':
        return '(%s O %s %s)' % ({'+': 'add', '-': 'sub', '*': 'mul', '/': 'dvd'}[ir[1]], pr_O(ir[2]), pr_O(ir[3]))
    if k == 'abs':
        return '(absT O %s)' % pr_O(ir[1])
    if k == 'app':
        return '(%s %s)' % (ir[1], ' '.join(pr_O(a) for a in ir[2]))
    if k == 'ite':
        return '(if %s then %s else %s)' % (pr_cond_O(ir[1]), pr_O(ir[2]), pr_O(ir[3]))
    raise TranslationError('cannot print %r over the scalar record' % (k,))


def subst_ir(ir, m):
    """replace ('var', x) by m[x]"""
    if not isinstance(ir, tuple):
        return ir
    if ir[0] == 'var':
        return m.get(ir[1], ir)
    if ir[0] == 'app':
        return ('app', ir[1], [subst_ir(a, m) for a in ir[2]])
    return tuple(subst_ir(x, m) if isinstance(x, tuple) else x for x in ir)


# ==========================================================================================
class Evaluator:
    """symbolic execution of straight-line (plus if / conditional-expression) code.
    ctx supplies: self_attr(name) -> Val or None, self_call(name, [Val]) -> Val or None, module constants"""

    def __init__(self, tr, ctx, domain='R'):
        self.tr, self.ctx, self.domain = tr, ctx, domain
        self.inplace = False

    # ---- expressions --------------------------------------------------------------------------
    def num_(self, e, env):
        v = self.expr(e, env)
        if v.ty != 'R':
            raise TranslationError('array-of-triples / mask / method where a number is needed', e)
        return v

    def shape_kind(self, a, env):
        """x.shape | np.atleast_1d(x).shape -> 'flat';  (len(x), 3) -> 'rows3'"""
        if isinstance(a, ast.Attribute) and a.attr == 'shape':
            b = a.value
            if isinstance(b, ast.Call) and _is_np(b.func, 'atleast_1d') and len(b.args) == 1 and not b.keywords:
                b = b.args[0]
            if isinstance(b, ast.Name) and b.id in env and env[b.id].ty == 'R':
                return 'flat'
        if (isinstance(a, ast.Tuple) and len(a.elts) == 2 and isinstance(a.elts[1], ast.Constant) and a.elts[1].value == 3
                and isinstance(a.elts[0], ast.Call) and isinstance(a.elts[0].func, ast.Name) and a.elts[0].func.id == 'len'
                and len(a.elts[0].args) == 1 and isinstance(a.elts[0].args[0], ast.Name) and a.elts[0].args[0].id in env):
            return 'rows3'
        raise TranslationError('unsupported array shape expression', a)

    def gather_of(self, *vals):
        g = None
        for v in vals:
            if v.gather is not None:
                if g is not None and g != v.gather:
                    raise TranslationError('values gathered under different masks are combined')
                g = v.gather
        return g

    def cond(self, e, env):
        if isinstance(e, ast.UnaryOp) and isinstance(e.op, ast.Not):
            return ('not', self.cond(e.operand, env))
        v = self.expr(e, env)
        if v.ty != 'mask':
            raise TranslationError('condition is not a comparison', e)
        return v.ir

    def expr(self, e, env):
        if isinstance(e, ast.Constant):
            return Val(num(_frac(e.value, e)))
        if isinstance(e, ast.Name):
            if e.id in env:
                return env[e.id]
            if e.id in self.tr.modconst:
                if self.domain != 'R':
                    raise TranslationError('module constant used in _findRcrit', e)
                return Val(self.tr.modconst[e.id])
            raise TranslationError('unknown name %s' % e.id, e)
        if _is_np(e, 'pi'):
            return Val(('pi',))
        if _is_self_attr(e):
            v = self.ctx.self_attr(e.attr)
            if v is None:
                raise TranslationError('unsupported attribute self.%s' % e.attr, e)
            return v
        if isinstance(e, ast.UnaryOp) and isinstance(e.op, ast.USub):
            v = self.num_(e.operand, env)
            return Val(('neg', v.ir), gather=v.gather)
        if isinstance(e, ast.UnaryOp) and isinstance(e.op, ast.Not):
            return Val(('not', self.cond(e.operand, env)), 'mask')
        if isinstance(e, ast.Compare):
            if len(e.ops) != 1 or type(e.ops[0]).__name__ not in CMPDEC:
                raise TranslationError('unsupported comparison', e)
            a, b = self.num_(e.left, env), self.num_(e.comparators[0], env)
            return Val(('cmp', type(e.ops[0]).__name__, a.ir, b.ir), 'mask', gather=self.gather_of(a, b))
        if isinstance(e, ast.IfExp):
            c = self.cond(e.test, env)
            a, b = self.num_(e.body, env), self.num_(e.orelse, env)
            return Val(mk_ite(c, a.ir, b.ir), gather=self.gather_of(a, b))
        if isinstance(e, ast.BinOp):
            if isinstance(e.op, ast.Pow):
                base = self.num_(e.left, env)
                r = e.right
                if isinstance(r, ast.Constant) and isinstance(r.value, int) and not isinstance(r.value, bool) and r.value >= 0:
                    return Val(('pow', base.ir, r.value), gather=base.gather)
                if (isinstance(r, ast.BinOp) and isinstance(r.op, ast.Div) and all(
                        isinstance(x, ast.Constant) and isinstance(x.value, int) and not isinstance(x.value, bool) and x.value > 0
                        for x in (r.left, r.right))):
                    return Val(('rpow', base.ir, r.left.value, r.right.value), gather=base.gather)
                raise TranslationError('exponent must be a non-negative integer literal or p/q of positive integer literals', e)
            ops = {ast.Add: '+', ast.Sub: '-', ast.Mult: '*', ast.Div: '/'}
            if type(e.op) not in ops:
                raise TranslationError('unsupported operator %s' % type(e.op).__name__, e)
            a, b = self.expr(e.left, env), self.expr(e.right, env)
            if a.ty == 'R' and b.ty == 'R':
                return Val(('bin', ops[type(e.op)], a.ir, b.ir), gather=self.gather_of(a, b))
            if isinstance(e.op, ast.Mult) and a.ty == 'R' and b.ty == 'triple':
                return Val(('smul3', a.ir, b.ir), 'triple')
            raise TranslationError('unsupported array arithmetic', e)
        if isinstance(e, ast.Attribute) and e.attr == 'T' and isinstance(e.value, ast.Call):
            c = e.value
            if _is_np(c.func, 'array') and len(c.args) == 1 and not c.keywords and isinstance(c.args[0], ast.List) and len(c.args[0].elts) == 3:
                xs = [self.num_(x, env).ir for x in c.args[0].elts]
                return Val(('triple', *xs), 'triple')
            raise TranslationError('.T of something that is not np.array([a, b, c])', e)
        if isinstance(e, ast.Subscript):
            base = self.num_(e.value, env)
            m = self.expr(e.slice, env)
            if m.ty != 'mask':
                raise TranslationError('subscript is not a boolean mask', e)
            return Val(base.ir, gather=m.ir)
        if isinstance(e, ast.Call):
            return self.call(e, env)
        raise TranslationError('unsupported expression %s' % type(e).__name__, e)

    def call(self, e, env):
        f = e.func
        if _is_np(f):
            name = f.attr
            if name == 'full':
                kw = {k.arg: k.value for k in e.keywords}
                if len(e.args) != 2 or set(kw) != {'dtype'} or not (_is_np(kw['dtype'], 'float64') or (isinstance(kw['dtype'], ast.Name) and kw['dtype'].id == 'float')):
                    raise TranslationError('np.full must be np.full(shape, value, dtype=np.float64) (without dtype the result takes the dtype of the value)', e)
                sk = self.shape_kind(e.args[0], env)
                v = self.num_(e.args[1], env)
                return Val(v.ir) if sk == 'flat' else Val(('triple', v.ir, v.ir, v.ir), 'triple')
            if e.keywords:
                raise TranslationError('keyword arguments in a numpy call', e)
            if name in NPFUN and len(e.args) == 1:
                if self.domain != 'R':
                    raise TranslationError('transcendental function in _findRcrit', e)
                v = self.num_(e.args[0], env)
                return Val(('fun', NPFUN[name], v.ir), gather=v.gather)
            if name == 'abs' and len(e.args) == 1:
                if self.domain != 'O':
                    raise TranslationError('np.abs outside _findRcrit', e)
                return Val(('abs', self.num_(e.args[0], env).ir))
            if name == 'atleast_1d' and len(e.args) == 1:
                v = self.expr(e.args[0], env)
                return Val(v.ir, v.ty, alias=v.alias, gather=v.gather)       # returns its argument (or a view of it)
            if name == 'squeeze' and len(e.args) == 1:
                v = self.expr(e.args[0], env)
                return Val(v.ir, v.ty, gather=v.gather)
            if name == 'ones' and len(e.args) == 1:
                return Val(num(1)) if self.shape_kind(e.args[0], env) == 'flat' else Val(('ones3',), 'triple')
            if name == 'where' and len(e.args) == 3:
                c = self.cond(e.args[0], env)
                a, b = self.num_(e.args[1], env), self.num_(e.args[2], env)
                return Val(mk_ite(c, a.ir, b.ir))
            if name in ('maximum', 'minimum') and len(e.args) == 2:
                a, b = self.num_(e.args[0], env), self.num_(e.args[1], env)
                return Val(('max' if name == 'maximum' else 'min', a.ir, b.ir))
            raise TranslationError('unsupported numpy call np.%s' % name, e)
        if e.keywords:
            raise TranslationError('keyword arguments in a call', e)
        args = [self.expr(a, env) for a in e.args]
        if isinstance(f, ast.Name) and f.id in env and env[f.id].ty == 'mref':
            g = self.gather_of(*args)
            return Val(('app', env[f.id].ir, [a.ir for a in args]), gather=g)
        v = self.ctx.call(f, args, e)
        if v is None:
            raise TranslationError('unsupported call', e)
        return v

    # ---- statements ------------------------------------------------------------------------------
    def assign(self, target, v, env, st):
        if isinstance(target, ast.Name):
            env[target.id] = v
        elif isinstance(target, ast.Subscript) and isinstance(target.value, ast.Name) and target.value.id in env:
            old = env[target.value.id]
            m = self.expr(target.slice, env)
            if m.ty != 'mask' or old.ty != 'R' or v.ty != 'R':
                raise TranslationError('unsupported masked assignment', st)
            if v.gather is not None and v.gather != m.ir:
                raise TranslationError('masked assignment: right-hand side was gathered under a different mask', st)
            if old.alias:
                self.inplace = True
            env[target.value.id] = Val(mk_ite(m.ir, v.ir, old.ir), alias=old.alias)
        else:
            raise TranslationError('unsupported assignment target', st)

    def block(self, body, env):
        """returns the Val returned, or None when the block falls through"""
        for i, st in enumerate(body):
            if isinstance(st, ast.Expr) and isinstance(st.value, ast.Constant):
                continue
            if isinstance(st, ast.Assign) and len(st.targets) == 1:
                t = st.targets[0]
                if isinstance(t, ast.Tuple):
                    if not (isinstance(st.value, ast.Tuple) and len(st.value.elts) == len(t.elts)):
                        raise TranslationError('tuple assignment from something that is not a tuple of the same length', st)
                    vals = [self.expr(x, env) for x in st.value.elts]       # simultaneous
                    for tt, v in zip(t.elts, vals):
                        self.assign(tt, v, env, st)
                else:
                    self.assign(t, self.expr(st.value, env), env, st)
            elif isinstance(st, ast.AugAssign) and isinstance(st.target, ast.Name):
                v = self.expr(ast.BinOp(left=ast.Name(id=st.target.id, ctx=ast.Load()), op=st.op, right=st.value), env)
                env[st.target.id] = v
            elif isinstance(st, ast.Return) and st.value is not None:
                return self.expr(st.value, env)
            elif isinstance(st, ast.If):
                c = self.cond(st.test, env)
                e1, e2 = dict(env), dict(env)
                r1 = self.block(st.body, e1)
                r2 = self.block(st.orelse, e2) if st.orelse else None
                if r1 is not None and r2 is None and not st.orelse:
                    # early return: the rest of the block is the else branch
                    r2 = self.block(body[i + 1:], e2)
                    if r2 is None:
                        raise TranslationError('missing return after a conditional return', st)
                    if r1.ty != 'R' or r2.ty != 'R':
                        raise TranslationError('conditional return of non-scalars', st)
                    return Val(mk_ite(c, r1.ir, r2.ir))
                if r1 is not None or r2 is not None:
                    if r1 is None or r2 is None or r1.ty != 'R' or r2.ty != 'R':
                        raise TranslationError('only one branch of a conditional returns', st)
                    return Val(mk_ite(c, r1.ir, r2.ir))
                for k in set(e1) | set(e2):
                    a, b = e1.get(k), e2.get(k)
                    if a is None or b is None:
                        env.pop(k, None)      # defined in one branch only: unusable afterwards
                    elif a is b or (a.ty == b.ty and a.ir == b.ir):
                        env[k] = a
                    elif a.ty == 'R' and b.ty == 'R':
                        env[k] = Val(mk_ite(c, a.ir, b.ir))
                    else:
                        raise TranslationError('conditional assignment of non-scalars', st)
            else:
                raise TranslationError('unsupported statement %s' % type(st).__name__, st)
        return None


# ==========================================================================================
class DescrCtx:
    """entities visible through `self` inside a description class"""

    def __init__(self, tr, cname, mins=None, minvars=None, raw=None):
        # mins: constructor context (attribute -> current value); minvars / raw: generic wrapper context, in which
        # the wrapper's own `...Min` attribute and its own formula method are parameters (fmin, f)
        self.tr, self.cname, self.mins, self.minvars, self.raw = tr, cname, mins, minvars, raw

    def self_attr(self, name):
        if self.mins is not None and name in self.mins:
            return Val(self.mins[name])
        if self.minvars is not None and name in self.minvars:
            return Val(('var', self.minvars[name]))
        if name in FORMULAS or name == 'eccentricity':
            if self.minvars is not None and name in FORMULAS:
                if name != self.raw:
                    raise TranslationError('a wrapper uses the formula %s of another factor' % name)
                return Val('f', 'mref')
            gname, ty = self.tr.formula(self.cname, name)
            return Val(gname, 'mref')
        return None

    def call(self, f, args, e):
        if not _is_self_attr(f):
            return None
        m = f.attr
        tr = self.tr
        if m == '_processAspectRatio' and len(args) == 1 and args[0].ty == 'R':
            tr.need_par()
            return Val(('app', 'processAspectRatio_gen', [args[0].ir]))
        if (m in FORMULAS or m == 'eccentricity') and len(args) == 1 and args[0].ty == 'R':
            if self.minvars is not None and m in FORMULAS:
                # inside the generic wrappers the formula is a parameter
                if m != self.raw:
                    raise TranslationError('a wrapper calls the formula %s of another factor' % m, e)
                return Val(('app', 'f', [args[0].ir]), 'triple' if m == '_normalRadii' else 'R', gather=args[0].gather)
            gname, ty = tr.formula(self.cname, m)
            return Val(('app', gname, [args[0].ir]), ty, gather=args[0].gather)
        if m in WRAPPERS and self.mins is not None and len(args) == 1 and args[0].ty == 'R':
            rawname, _ = tr.formula(self.cname, WRAPPERS[m][1])
            return Val(('app', '%s_wrapper_gen' % m, [self.mins[WRAPPERS[m][0]], ('var', rawname), args[0].ir]))
        return None


class SFCtx:
    def __init__(self, tr, attrs, funs, descr=None):
        self.tr, self.attrs, self.funs, self.descr = tr, attrs, funs, descr

    def self_attr(self, name):
        if name in self.attrs:
            return Val(('var', self.attrs[name]))
        return None

    def call(self, f, args, e):
        if _is_self_attr(f) and f.attr in self.funs and len(args) == 1 and args[0].ty == 'R':
            return Val(('app', self.funs[f.attr], [args[0].ir]))
        if (self.descr is not None and isinstance(f, ast.Attribute) and _is_self_attr(f.value, 'description') and f.attr == self.descr[0]
                and len(args) == 1 and args[0].ty == 'R'):
            return Val(('app', self.descr[1], [args[0].ir]), self.descr[2])
        return None


# ==========================================================================================
class Translator:
    def __init__(self, src):
        try:
            self.mod = ast.parse(src)
        except SyntaxError as e:
            raise TranslationError('source does not parse: %s' % e)
        self.C = _Classes(self.mod)
        self.done = {}
        self.out = []
        self.names = []
        self.active = set()
        self.modconst = {}
        self.par_done = False
        self.maxiter = None

    def emit(self, name, text):
        if name in self.names:
            raise TranslationError('definition %s emitted twice' % name)
        self.names.append(name)
        self.out.append(text)

    def method_body(self, cname, meth, known):
        dc, fn = self.C.find(cname, meth)
        body = _Inliner(self.C, cname, known).stmts(_strip_doc(fn.body))
        return dc, fn, body

    # ---- formulas ------------------------------------------------------------------------
    def formula(self, cname, meth):
        dc, fn = self.C.find(cname, meth)
        key = (dc, meth)
        if key in self.done:
            return self.done[key]
        if key in self.active:
            raise TranslationError('recursive formula %s.%s' % (dc, meth))
        self.active.add(key)
        p = _params(fn, 1)[0]
        body = _Inliner(self.C, cname, KNOWN_DESCR).stmts(_strip_doc(fn.body))
        ev = Evaluator(self, DescrCtx(self, cname))
        v = ev.block(body, {p: Val(('var', _ident(p)))})
        if v is None or v.ty not in ('R', 'triple') or v.gather is not None or ev.inplace:
            raise TranslationError('%s.%s does not return a number / a row of three numbers' % (dc, meth), fn)
        gname = '%s_%s_gen' % (SHORT.get(dc, dc), meth.lstrip('_'))
        self.emit(gname, '(* %s.%s (line %d) *)\nDefinition %s (%s : R) : %s :=\n  %s.'
                  % (dc, meth, fn.lineno, gname, _ident(p), 'R' if v.ty == 'R' else 'triple', pr_R(v.ir)))
        self.active.discard(key)
        self.done[key] = (gname, v.ty)
        return gname, v.ty

    # ---- wrappers ------------------------------------------------------------------------
    def need_par(self):
        if not self.par_done:
            self.process_aspect_ratio()

    def process_aspect_ratio(self):
        self.par_done = True
        for _, cname in DESCRIPTIONS:
            if self.C.find(cname, '_processAspectRatio')[0] != BASE:
                raise TranslationError('%s overrides _processAspectRatio' % cname)
        dc, fn, body = self.method_body(BASE, '_processAspectRatio', KNOWN_DESCR)
        p = _params(fn, 1)[0]
        ev = Evaluator(self, DescrCtx(self, BASE))
        v = ev.block(body, {p: Val(('var', _ident(p)), alias=True)})
        if v is None or v.ty != 'R' or v.gather is not None:
            raise TranslationError('_processAspectRatio does not return an array of numbers', fn)
        self.emit('processAspectRatio_gen', '(* %s._processAspectRatio (line %d) *)\nDefinition processAspectRatio_gen (%s : R) : R :=\n  %s.'
                  % (BASE, fn.lineno, _ident(p), pr_R(v.ir)))
        self.emit('processAspectRatio_inplace_gen',
                  '(* does _processAspectRatio write into the array it was given? *)\n'
                  'Definition processAspectRatio_inplace_gen : bool := %s.' % ('true' if ev.inplace else 'false'))

    def wrappers(self):
        self.need_par()
        for pub, (mn, raw) in WRAPPERS.items():
            dc, fn, body = self.method_body(BASE, pub, KNOWN_DESCR)
            p = _params(fn, 1)[0]
            ctx = DescrCtx(self, BASE, minvars={mn: 'fmin'}, raw=raw)
            ev = Evaluator(self, ctx)
            v = ev.block(body, {p: Val(('var', _ident(p)), alias=True)})
            if v is None or v.ty != 'R' or v.gather is not None:
                raise TranslationError('%s does not return an array of numbers' % pub, fn)
            if ev.inplace:
                raise TranslationError('%s writes into its argument' % pub, fn)
            txt = pr_R(v.ir)
            # the wrapper may only use ITS OWN Min attribute and ITS OWN formula (checked: other names do not resolve)
            self.emit('%s_wrapper_gen' % pub,
                      '(* %s.%s (line %d); self.%s is fmin, self.%s is f *)\n'
                      'Definition %s_wrapper_gen (fmin : R) (f : R -> R) (%s : R) : R :=\n  %s.'
                      % (BASE, pub, fn.lineno, mn, raw, pub, _ident(p), txt))
        dc, fn, body = self.method_body(BASE, 'normalRadii', KNOWN_DESCR)
        p = _params(fn, 1)[0]
        ev = Evaluator(self, DescrCtx(self, BASE, minvars={}, raw='_normalRadii'))
        v = ev.block(body, {p: Val(('var', _ident(p)), alias=True)})
        if v is None or v.ty != 'triple' or ev.inplace:
            raise TranslationError('normalRadii does not return rows of three numbers', fn)
        self.emit('normalRadii_wrapper_gen',
                  '(* %s.normalRadii (line %d); self._normalRadii is f *)\nDefinition normalRadii_wrapper_gen (f : R -> triple) (%s : R) : triple :=\n  %s.'
                  % (BASE, fn.lineno, _ident(p), pr_R(v.ir)))
        for _, cname in DESCRIPTIONS:
            for pub in list(WRAPPERS) + ['normalRadii']:
                if self.C.find(cname, pub)[0] != BASE:
                    raise TranslationError('%s overrides the public wrapper %s' % (cname, pub))

    # ---- constructors --------------------------------------------------------------------
    def run_init(self, cname, start=None):
        dc, fn = self.C.find(start or cname, '__init__', required=False)
        if fn is None:
            raise TranslationError('no constructor found for %s' % cname)
        _params(fn, 0)
        mins = {}
        for st in _strip_doc(fn.body):
            if _same(st, 'super().__init__()'):
                parent = self.C.cls[dc][1]
                if parent is None:
                    raise TranslationError('super().__init__() in a class without base', st)
                mins = self.run_init(cname, start=parent)
                continue
            if isinstance(st, ast.Assign) and len(st.targets) == 1 and _is_self_attr(st.targets[0]):
                attr = st.targets[0].attr
                if attr not in MINS:
                    raise TranslationError('constructor of %s sets an unexpected attribute %s' % (dc, attr), st)
                ev = Evaluator(self, DescrCtx(self, cname, mins=dict(mins)))
                v = ev.expr(_Inliner(self.C, cname, KNOWN_DESCR).expr(copy.deepcopy(st.value)), {})
                if v.ty != 'R' or v.gather is not None:
                    raise TranslationError('constructor of %s: %s is not a number' % (dc, attr), st)
                mins[attr] = v.ir
                continue
            raise TranslationError('unsupported statement in %s.__init__' % dc, st)
        return mins

    def description(self, short, cname):
        names = {}
        for m in FORMULAS:
            gname, ty = self.formula(cname, m)
            if (ty == 'triple') != (m == '_normalRadii'):
                raise TranslationError('%s.%s has the wrong kind of value' % (cname, m))
            names[m] = gname
        mins = self.run_init(cname)
        for m in MINS:
            if m not in mins:
                raise TranslationError('constructor of %s does not set %s' % (cname, m))
            self.emit('%s_%s_gen' % (short, m), 'Definition %s_%s_gen : R := %s.' % (short, m, pr_R(mins[m])))
        self.emit('%s_gen' % short,
                  'Definition %s_gen : description :=\n  mkDescr %s %s %s\n          %s %s %s %s.'
                  % (short, *['%s_%s_gen' % (short, m) for m in MINS], names['_eqRadius'], names['_normalRadii'],
                     names['_kineticFactor'], names['_thermoFactor']))
        for pub, (mn, raw) in WRAPPERS.items():
            self.emit('%s_%s_public_gen' % (short, pub), 'Definition %s_%s_public_gen : R -> R := %s_wrapper_gen %s_%s_gen %s.'
                      % (short, pub, pub, short, mn, names[raw]))
        self.emit('%s_normalRadii_public_gen' % short,
                  'Definition %s_normalRadii_public_gen : R -> triple := normalRadii_wrapper_gen %s.' % (short, names['_normalRadii']))

    # ---- ShapeFactor ---------------------------------------------------------------------
    def shape_factor(self):
        cn = 'ShapeFactor'
        if cn not in self.C.cls or self.C.cls[cn][1] is not None:
            raise TranslationError('class ShapeFactor missing or derived')
        for m in ['normalRadii'] + list(WRAPPERS):
            dc, fn, body = self.method_body(cn, m, KNOWN_SF)
            p = _params(fn, 1)[0]
            ty = 'triple' if m == 'normalRadii' else 'R'
            ctx = SFCtx(self, {}, {'aspectRatio': 'aspectRatio'}, descr=(m, 'description_%s' % m, ty))
            v = Evaluator(self, ctx).block(body, {p: Val(('var', _ident(p)))})
            if v is None or v.ty != ty:
                raise TranslationError('ShapeFactor.%s does not return the description\'s %s' % (m, m), fn)
            self.emit('ShapeFactor_%s_gen' % m,
                      '(* ShapeFactor.%s (line %d) *)\nDefinition ShapeFactor_%s_gen (description_%s : R -> %s) (aspectRatio : R -> R) (%s : R) : %s :=\n  %s.'
                      % (m, fn.lineno, m, m, ty, _ident(p), ty, pr_R(v.ir)))
        dc, fn, body = self.method_body(cn, '_scalarAspectRatioEquation', KNOWN_SF)
        p = _params(fn, 1)[0]
        v = Evaluator(self, SFCtx(self, {'_aspectRatioScalar': 'aspectRatioScalar'}, {})).block(body, {p: Val(('var', _ident(p)))})
        if v is None or v.ty != 'R':
            raise TranslationError('_scalarAspectRatioEquation does not return numbers', fn)
        self.emit('scalarAspectRatio_gen',
                  '(* ShapeFactor._scalarAspectRatioEquation (line %d) *)\nDefinition scalarAspectRatio_gen (aspectRatioScalar : R) (%s : R) : R :=\n  %s.'
                  % (fn.lineno, _ident(p), pr_R(v.ir)))
        dc, fn = self.C.find(cn, 'setAspectRatio')
        p = _params(fn, 1)[0]
        body = _strip_doc(fn.body)
        tmpl = ('if np.isscalar(%s):\n    self._aspectRatioScalar = %s\n    self.aspectRatio = self._scalarAspectRatioEquation\n'
                '    self.findRcrit = self._findRcritScalar\nelse:\n    self.aspectRatio = %s\n    self.findRcrit = self._findRcrit' % (p, p, p))
        if not (len(body) == 1 and _same(body[0], tmpl)):
            raise TranslationError('setAspectRatio does not dispatch scalar -> _findRcritScalar / callable -> _findRcrit in the expected way', fn)
        self.emit('setAspectRatio_dispatch_gen',
                  '(* ShapeFactor.setAspectRatio (line %d): scalar -> (_scalarAspectRatioEquation, _findRcritScalar); otherwise -> (the callable, _findRcrit) *)\n'
                  'Definition setAspectRatio_dispatch_gen : bool := true.' % fn.lineno)
        dc, fn, body = self.method_body(cn, '_findRcritScalar', KNOWN_SF)
        ps = _params(fn, 2)
        v = Evaluator(self, SFCtx(self, {}, {'thermoFactor': 'thermoFactor'})).block(body, {x: Val(('var', _ident(x))) for x in ps})
        if v is None or v.ty != 'R':
            raise TranslationError('_findRcritScalar does not return a number', fn)
        self.emit('findRcritScalar_gen',
                  '(* ShapeFactor._findRcritScalar (line %d); self.thermoFactor becomes a parameter *)\n'
                  'Definition findRcritScalar_gen (thermoFactor : R -> R) (%s : R) : R :=\n  %s.'
                  % (fn.lineno, ' '.join(_ident(x) for x in ps), pr_R(v.ir)))
        self.find_rcrit()

    # ---- the bisection, over Ops ----------------------------------------------------------
    def find_rcrit(self):
        dc, fn, body = self.method_body('ShapeFactor', '_findRcrit', KNOWN_SF)
        rs, rmax = _params(fn, 2)
        R, M = _ident(rs), _ident(rmax)
        ctx = SFCtx(self, {'tol': 'tol'}, {'thermoFactor': 'thermoFactor'})
        ev = Evaluator(self, ctx, domain='O')
        loops = [i for i, st in enumerate(body) if isinstance(st, (ast.While, ast.For))]
        if len(loops) != 1:
            raise TranslationError('_findRcrit must contain exactly one top-level loop', fn)
        li = loops[0]
        pre, loop, post = body[:li], body[li], body[li + 1:]
        if getattr(loop, 'orelse', None):
            raise TranslationError('_findRcrit: loop with else', loop)
        # ---- before the loop: integer counters are kept apart
        env = {rs: Val(('var', R)), rmax: Val(('var', M))}
        counters = {}
        pre_exec = []
        for st in pre:
            if (isinstance(st, ast.Assign) and len(st.targets) == 1 and isinstance(st.targets[0], ast.Name) and isinstance(st.value, ast.Constant)
                    and isinstance(st.value.value, int) and not isinstance(st.value.value, bool)):
                counters[st.targets[0].id] = st.value.value
            else:
                pre_exec.append(st)
        if ev.block(pre_exec, env) is not None:
            raise TranslationError('_findRcrit returns before the loop', fn)
        init_env = dict(env)
        pre_vars = [k for k in env if k not in (rs, rmax)]
        for k in pre_vars:
            if env[k].ty != 'R':
                raise TranslationError('_findRcrit: %s is not a number before the loop' % k, fn)

        def ret_ir(st, e):
            if not (isinstance(st, ast.Return) and st.value is not None):
                raise TranslationError('_findRcrit: expected a return', st)
            v = ev.expr(st.value, e)
            if v.ty != 'R':
                raise TranslationError('_findRcrit returns something that is not a number', st)
            return v.ir
        # symbolic state at the head of an iteration: every pre-loop variable is an atom
        state_env = {rs: Val(('var', R)), rmax: Val(('var', M))}
        for k in pre_vars:
            state_env[k] = Val(('var', '@' + k))
        lbody = list(loop.body)
        if isinstance(loop, ast.While):
            cont = ev.cond(loop.test, state_env)
            # ... ; n += 1 ; if n == N: return g      at the end of the body
            if len(lbody) < 2:
                raise TranslationError('_findRcrit: loop body too short', loop)
            inc, guard = lbody[-2], lbody[-1]
            cname = None
            if isinstance(inc, ast.AugAssign) and isinstance(inc.target, ast.Name) and isinstance(inc.op, ast.Add) and isinstance(inc.value, ast.Constant) and inc.value.value == 1:
                cname = inc.target.id
            elif (isinstance(inc, ast.Assign) and len(inc.targets) == 1 and isinstance(inc.targets[0], ast.Name) and isinstance(inc.value, ast.BinOp)
                  and isinstance(inc.value.op, ast.Add) and isinstance(inc.value.left, ast.Name) and inc.value.left.id == inc.targets[0].id
                  and isinstance(inc.value.right, ast.Constant) and inc.value.right.value == 1):
                cname = inc.targets[0].id
            if cname is None or counters.get(cname) != 0:
                raise TranslationError('_findRcrit: the loop body does not end with <counter> += 1; if <counter> == N: return ... (counter starting at 0)', inc)
            ok = (isinstance(guard, ast.If) and not guard.orelse and len(guard.body) == 1 and isinstance(guard.test, ast.Compare) and len(guard.test.ops) == 1
                  and isinstance(guard.test.ops[0], (ast.Eq, ast.GtE)) and isinstance(guard.test.left, ast.Name) and guard.test.left.id == cname
                  and isinstance(guard.test.comparators[0], ast.Constant) and isinstance(guard.test.comparators[0].value, int)
                  and not isinstance(guard.test.comparators[0].value, bool) and guard.test.comparators[0].value >= 1)
            if not ok:
                raise TranslationError('_findRcrit: expected `if <counter> == <N>: return ...` at the end of the loop body', guard)
            nmax = guard.test.comparators[0].value
            upd_stmts = lbody[:-2]
            for st in upd_stmts + post:
                for sub in ast.walk(st):
                    if isinstance(sub, ast.Name) and sub.id == cname:
                        raise TranslationError('_findRcrit: the iteration counter is used elsewhere', sub)
            giveup_stmt, found_stmt = guard.body[0], (post[0] if len(post) == 1 else None)
            if found_stmt is None:
                raise TranslationError('_findRcrit: expected exactly one statement (the final return) after the loop', fn)
        else:
            it = loop.iter
            ok = (isinstance(it, ast.Call) and isinstance(it.func, ast.Name) and it.func.id == 'range' and len(it.args) == 1 and not it.keywords
                  and isinstance(it.args[0], ast.Constant) and isinstance(it.args[0].value, int) and not isinstance(it.args[0].value, bool) and it.args[0].value >= 1
                  and isinstance(loop.target, ast.Name))
            if not ok:
                raise TranslationError('_findRcrit: for loop is not `for <name> in range(<N>)`', loop)
            nmax = it.args[0].value
            for st in lbody + post:
                for sub in ast.walk(st):
                    if isinstance(sub, ast.Name) and sub.id == loop.target.id:
                        raise TranslationError('_findRcrit: the loop index is used', sub)
            g0 = lbody[0] if lbody else None
            if not (isinstance(g0, ast.If) and not g0.orelse and len(g0.body) == 1 and isinstance(g0.body[0], ast.Return)):
                raise TranslationError('_findRcrit: the for body does not start with `if <exit test>: return ...`', loop)
            cont = ('not', ev.cond(g0.test, state_env))
            found_stmt, giveup_stmt = g0.body[0], (post[0] if len(post) == 1 else None)
            if giveup_stmt is None:
                raise TranslationError('_findRcrit: expected exactly one statement (the final return) after the loop', fn)
            upd_stmts = lbody[1:]
            if counters:
                raise TranslationError('_findRcrit: unused integer variable before the loop', fn)
        found = ret_ir(found_stmt, state_env)
        giveup = ret_ir(giveup_stmt, {rs: Val(('var', R)), rmax: Val(('var', M))})
        benv = dict(state_env)
        if ev.block(upd_stmts, benv) is not None:
            raise TranslationError('_findRcrit: return inside the update part of the loop body', loop)
        for k in benv:
            if k not in state_env:
                raise TranslationError('_findRcrit: variable %s is first assigned inside the loop' % k, loop)
            if benv[k].ty != 'R':
                raise TranslationError('_findRcrit: %s is not a number' % k, loop)
        upd = {k: benv[k].ir for k in pre_vars}
        roles = self.roles(pre_vars, upd, cont, found)
        # ---- emit
        atom = {'@' + v: ('var', '(%s s)' % f) for f, v in roles.items()}
        fields = ['minR', 'maxR', 'midR', 'fMin', 'fMax', 'fMid']
        step = ' '.join(pr_O(subst_ir(upd[roles[f]], atom)) for f in fields)
        init = ' '.join(pr_O(init_env[roles[f]].ir) for f in fields)
        txt = ('(* ShapeFactor._findRcrit (line %d), over the scalar record; self.thermoFactor and self.tol are parameters.\n'
               '   Normal form of the loop: state fields <- source variables %s *)\n'
               'Section FindRcrit_gen.\nVariable O : Ops.\nVariable thermoFactor : T O -> T O.\nVariable %s : T O.\nVariable tol : T O.\n\n'
               'Definition findRcrit_step_gen (s : bstate O) : bstate O :=\n  mkB O %s.\n\n'
               'Definition findRcrit_continue_gen (s : bstate O) : bool := %s.\n'
               'Definition findRcrit_found_gen (s : bstate O) : T O := %s.\n'
               'Definition findRcrit_giveup_gen : T O := %s.\n'
               'Definition findRcrit_maxiter_gen : nat := %d%%nat.\n\n'
               'Definition findRcrit_init_gen (%s : T O) : bstate O :=\n  mkB O %s.\n\n'
               '(* fuel = iterations that may still complete before the loop gives up *)\n'
               'Fixpoint findRcrit_loop_gen (fuel n : nat) (s : bstate O) : outcome O :=\n'
               '  if findRcrit_continue_gen s then\n    match fuel with\n    | 0%%nat => GaveUp O\n    | S k => findRcrit_loop_gen k (S n) (findRcrit_step_gen s)\n    end\n'
               '  else Found O (findRcrit_found_gen s) n.\n\n'
               'Definition findRcrit_gen (%s : T O) : outcome O :=\n  findRcrit_loop_gen (pred findRcrit_maxiter_gen) 0%%nat (findRcrit_init_gen %s).\n'
               'Definition findRcrit_value_gen (%s : T O) : T O :=\n  match findRcrit_gen %s with Found _ r _ => r | GaveUp _ => findRcrit_giveup_gen end.\n'
               'End FindRcrit_gen.'
               % (fn.lineno, ', '.join('%s <- %s' % (f, roles[f]) for f in fields), R, step, pr_cond_O(subst_ir(cont, atom)),
                  pr_O(subst_ir(found, atom)), pr_O(giveup), nmax, M, init, M, M, M, M))
        self.maxiter = nmax
        self.emit('findRcrit_gen', txt)
        self.names += ['findRcrit_step_gen', 'findRcrit_continue_gen', 'findRcrit_found_gen', 'findRcrit_giveup_gen',
                       'findRcrit_maxiter_gen', 'findRcrit_init_gen', 'findRcrit_loop_gen', 'findRcrit_value_gen']

    @staticmethod
    def roles(pre_vars, upd, cont, found):
        """which source variable plays which field of the model's state: any bijection gives a faithful text, only the
        right one makes the bridge lemmas hold, so this is a heuristic that cannot make the check unsound"""
        if len(pre_vars) != 6:
            raise TranslationError('_findRcrit carries %d variables through the loop (%s); the model has six' % (len(pre_vars), ', '.join(pre_vars)))

        def atoms(ir, acc):
            if isinstance(ir, tuple):
                if ir[0] == 'var' and ir[1].startswith('@'):
                    acc.add(ir[1][1:])
                elif ir[0] == 'app':
                    for a in ir[2]:
                        atoms(a, acc)
                else:
                    for x in ir:
                        atoms(x, acc)
            return acc
        roles = {}
        ca = atoms(cont, set())
        if len(ca) == 1:
            roles['fMid'] = next(iter(ca))
        if found[0] == 'var' and found[1].startswith('@'):
            roles['midR'] = found[1][1:]
        mid, fmid = roles.get('midR'), roles.get('fMid')
        for v in pre_vars:
            u = upd[v]
            if v in roles.values() or u[0] != 'ite':
                continue
            t, e = u[2], u[3]
            me = ('var', '@' + v)
            if mid and t == ('var', '@' + mid) and e == me:
                roles.setdefault('minR', v)
            elif mid and e == ('var', '@' + mid) and t == me:
                roles.setdefault('maxR', v)
            elif fmid and t == ('var', '@' + fmid) and e == me:
                roles.setdefault('fMin', v)
            elif fmid and e == ('var', '@' + fmid) and t == me:
                roles.setdefault('fMax', v)
        # whatever could not be recognised is filled in order of first assignment
        rest = [v for v in pre_vars if v not in roles.values()]
        for f in ['minR', 'maxR', 'midR', 'fMin', 'fMax', 'fMid']:
            if f not in roles:
                roles[f] = rest.pop(0)
        if len(set(roles.values())) != 6:
            raise TranslationError('_findRcrit: could not map the loop variables onto the state')
        return roles

    # ---- module level -----------------------------------------------------------------------
    def module_level(self):
        for sub in ast.walk(self.mod):
            if isinstance(sub, (ast.Global, ast.Nonlocal)):
                raise TranslationError('global / nonlocal statement', sub)
        assigned = {}
        for st in self.mod.body:
            if isinstance(st, ast.ClassDef) or (isinstance(st, ast.Expr) and isinstance(st.value, ast.Constant)):
                continue
            if isinstance(st, ast.Import) and [(a.name, a.asname) for a in st.names] == [('numpy', 'np')]:
                continue
            if isinstance(st, ast.Assign) and len(st.targets) == 1 and isinstance(st.targets[0], ast.Name):
                n = st.targets[0].id
                if n in assigned or n in ('np',) or n in self.C.cls:
                    raise TranslationError('module-level name %s is assigned twice / shadows a class' % n, st)

                class NoSelf:
                    def self_attr(s, name):
                        return None

                    def call(s, f, args, e):
                        return None
                v = Evaluator(self, NoSelf()).expr(st.value, {})
                if v.ty != 'R':
                    raise TranslationError('module-level constant %s is not a number' % n, st)
                assigned[n] = st
                gname = 'const_%s_gen' % n.strip('_')
                self.emit(gname, '(* module-level constant %s (line %d) *)\nDefinition %s : R := %s.' % (n, st.lineno, gname, pr_R(v.ir)))
                self.modconst[n] = ('var', gname)
                continue
            raise TranslationError('unexpected module-level statement', st)
        # a constant must not be rebound inside a function either
        for sub in ast.walk(self.mod):
            if isinstance(sub, (ast.FunctionDef, ast.Lambda)):
                for x in ast.walk(sub):
                    if isinstance(x, ast.Name) and isinstance(x.ctx, (ast.Store, ast.Del)) and x.id in assigned:
                        raise TranslationError('module-level constant %s is shadowed / rebound in a function' % x.id, x)
                if isinstance(sub, ast.FunctionDef):
                    for a in sub.args.args:
                        if a.arg in assigned:
                            raise TranslationError('module-level constant %s is shadowed by a parameter' % a.arg, sub)

    def run(self):
        for _, cname in DESCRIPTIONS:
            if cname not in self.C.cls:
                raise TranslationError('class %s missing' % cname)
            if self.C.cls[cname][1] != BASE:
                raise TranslationError('class %s derives from %s, expected %s' % (cname, self.C.cls[cname][1], BASE))
        if BASE not in self.C.cls or self.C.cls[BASE][1] is not None:
            raise TranslationError('class %s missing or derived' % BASE)
        self.out.append('(* ---- module level ---- *)')
        self.module_level()
        self.out.append('(* ---- %s: wrappers ---- *)' % BASE)
        self.wrappers()
        for short, cname in DESCRIPTIONS:
            self.out.append('(* ---- %s ---- *)' % cname)
            self.description(short, cname)
        self.out.append('(* ---- ShapeFactor ---- *)')
        self.shape_factor()
        skip = {'findRcrit_gen', 'findRcrit_step_gen', 'findRcrit_continue_gen', 'findRcrit_found_gen', 'findRcrit_giveup_gen',
                'findRcrit_maxiter_gen', 'findRcrit_init_gen', 'findRcrit_loop_gen', 'findRcrit_value_gen',
                'processAspectRatio_inplace_gen', 'setAspectRatio_dispatch_gen'}
        self.out.append('(* for the pointwise enclosures of the check and the bridge *)\nLtac gen_unfold :=\n  repeat progress unfold %s.'
                        % ',\n    '.join(n for n in self.names if n not in skip))
        header = ('(* GENERATED on every run by harness/c15_translate.py from kawin/precipitation/parameters/ShapeFactors.py.\n'
                  '   Do not edit. *)\nFrom Coq Require Import Reals List Bool ZArith.\nRequire Import Kawin.Common.Ops Kawin.Common.Vec Kawin.C15.Model.\n'
                  'Import ListNotations.\nOpen Scope R_scope.\n\n')
        text = header + '\n\n'.join(self.out) + '\n'
        info = {'definitions': self.names, 'sha256': hashlib.sha256(text.encode()).hexdigest(), 'findRcrit_maxiter': self.maxiter}
        return text, info


def translate(src):
    return Translator(src).run()


if __name__ == '__main__':
    import sys
    t, i = translate(open(sys.argv[1]).read())
    sys.stdout.write(t)
