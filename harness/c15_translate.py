"""Fail-closed Python-ast -> Gallina translator for kawin/precipitation/parameters/ShapeFactors.py (C15).

Anything outside the accepted subset raises TranslationError, which the check reports as a broken tie.

What is translated:
  * the four shape descriptions (Sphere, Needle, Plate, Cuboidal): `_eqRadius`, `_normalRadii`,
    `_kineticFactor`, `_thermoFactor` and every helper reached through `self.<helper>(x)` (here:
    `eccentricity`), resolved along the single-inheritance MRO, as real functions of the aspect ratio
    (`_normalRadii`: a triple of reals, one row of the n x 3 array);
  * the constructors: `__init__` of every description is executed symbolically (super().__init__(),
    `self.<x>Min = <expr>`); a call of a PUBLIC wrapper inside a constructor is translated as that
    wrapper applied to the value the `...Min` attribute holds AT THAT POINT of the constructor;
  * `_processAspectRatio` (accepted shapes: the in-place `ar[ar < c] = v; return ar` and the copying
    `return np.where(ar < c, v, ar)`; which of the two is emitted as `processAspectRatio_inplace_gen`),
    the mask idiom of the public wrappers `eqRadiusFactor / kineticFactor / thermoFactor`
    (`factor = self.<x>Min * np.ones(ar.shape); factor[ar > c] = self._<x>(ar[ar > c])`) with the
    comparison and constant read from the source, and `normalRadii`;
  * ShapeFactor: the four compositions with `self.aspectRatio`, `_scalarAspectRatioEquation`,
    the dispatch of `setAspectRatio`, `_findRcritScalar`, and the bisection `_findRcrit`, whose
    statement skeleton is pinned (initialisation, `while np.abs(fMid) > self.tol`, the two-branch
    update, the midpoint/objective recomputation, `n += 1; if n == N: return ...`, `return midR`) while
    its expressions, comparison operators, constants and returned names are read from the source
    and emitted over the scalar record `Ops` (reals for the theorems, binary64 for the trace check).

numpy -> Reals: np.pi -> PI, np.sqrt -> sqrt, np.exp -> exp, np.log -> ln, np.arcsin -> asin,
np.arccos -> acos, np.cbrt -> cbrt (= Rpower x (1/3), positive arguments), `x ** n` (n a non-negative
integer literal) -> x ^ n, `x ** (p / q)` (integer literals) -> Rpower x (p / q),
np.ones(x.shape) -> 1, np.ones((len(x), 3)) -> (1, 1, 1), np.array([a, b, c]).T -> (a, b, c),
scalar * triple -> componentwise product, int literals -> integers, float literals -> the exact
decimal that was written.  Formula methods are assumed to act elementwise on arrays (validated on
every run by the pointwise enclosures of the check, scalar and array calls).
"""
import ast, hashlib
from fractions import Fraction
from decimal import Decimal


class TranslationError(Exception):
    def __init__(self, msg, node=None, where=''):
        line = getattr(node, 'lineno', None)
        super().__init__('%s%s%s' % (where + ': ' if where else '', msg, ' (line %d)' % line if line else ''))
        self.lineno = line


DESCRIPTIONS = [('Sphere', 'SphereDescription'), ('Needle', 'NeedleDescription'),
                ('Plate', 'PlateDescription'), ('Cuboidal', 'CuboidalDescription')]
BASE = 'ShapeDescriptionBase'
SHORT = {c: s for s, c in DESCRIPTIONS}
SHORT[BASE] = 'Base'
FORMULAS = ['_eqRadius', '_normalRadii', '_kineticFactor', '_thermoFactor']
# public wrapper -> (Min attribute, raw formula)
WRAPPERS = {'eqRadiusFactor': ('eqRadiusFactorMin', '_eqRadius'),
            'kineticFactor': ('kineticFactorMin', '_kineticFactor'),
            'thermoFactor': ('thermoFactorMin', '_thermoFactor')}
MINS = ['eqRadiusFactorMin', 'kineticFactorMin', 'thermoFactorMin']
NPFUN = {'sqrt': 'sqrt', 'exp': 'exp', 'log': 'ln', 'arcsin': 'asin', 'arccos': 'acos', 'cbrt': 'cbrt'}
CMP = {ast.Lt: 'Rlt_dec', ast.LtE: 'Rle_dec', ast.Gt: 'Rgt_dec', ast.GtE: 'Rge_dec'}
RESERVED = {'R', 'PI', 'sqrt', 'exp', 'ln', 'asin', 'acos', 'cbrt', 'fix', 'let', 'in', 'fun', 'match', 'end',
            'if', 'then', 'else', 'T', 'O', 'beta', 'delta', 'iota', 'zeta', 'eta', 'two', 'tol'}


def _frac(v, node):
    if isinstance(v, bool) or not isinstance(v, (int, float)):
        raise TranslationError('unsupported constant %r' % (v,), node)
    if isinstance(v, int):
        return Fraction(v)
    if v != v or v in (float('inf'), float('-inf')):
        raise TranslationError('non-finite literal', node)
    return Fraction(Decimal(repr(v)))


def _num(v, node):
    fr = _frac(v, node)
    if fr.denominator == 1:
        return '%d' % fr.numerator if fr.numerator >= 0 else '(%d)' % fr.numerator
    return '(%d / %d)' % (fr.numerator, fr.denominator)


def _ident(n):
    return n + '_' if n in RESERVED else n


def _is_np(e, attr=None):
    return isinstance(e, ast.Attribute) and isinstance(e.value, ast.Name) and e.value.id == 'np' and (attr is None or e.attr == attr)


def _is_self_attr(e, attr=None):
    return isinstance(e, ast.Attribute) and isinstance(e.value, ast.Name) and e.value.id == 'self' and (attr is None or e.attr == attr)


def _strip_doc(body):
    return [s for s in body if not (isinstance(s, ast.Expr) and isinstance(s.value, ast.Constant) and isinstance(s.value.value, str))]


def _same(node, template_src):
    t = ast.parse(template_src).body[0]
    if isinstance(t, ast.Expr) and not isinstance(node, ast.Expr):
        t = t.value
    return ast.dump(node) == ast.dump(t)


class _Classes:
    def __init__(self, mod):
        self.cls = {}
        for n in mod.body:
            if isinstance(n, ast.ClassDef):
                if n.decorator_list or n.keywords:
                    raise TranslationError('decorated class / class keywords', n)
                bases = []
                for b in n.bases:
                    if not isinstance(b, ast.Name):
                        raise TranslationError('unsupported base class expression', n)
                    bases.append(b.id)
                if len(bases) > 1:
                    raise TranslationError('multiple inheritance', n)
                if n.name in self.cls:
                    raise TranslationError('class %s defined twice' % n.name, n)
                self.cls[n.name] = (n, bases[0] if bases else None)

    def mro(self, name):
        out = []
        while name is not None:
            if name not in self.cls:
                raise TranslationError('class %s not found' % name)
            out.append(name)
            name = self.cls[name][1]
        return out

    def find(self, cname, member, required=True):
        """(defining class, FunctionDef) of a method along the MRO; the LAST definition in a class body wins"""
        for c in self.mro(cname):
            found = None
            for st in self.cls[c][0].body:
                if isinstance(st, (ast.FunctionDef, ast.AsyncFunctionDef)) and st.name == member:
                    found = st
                if isinstance(st, ast.Assign) and any(isinstance(t, ast.Name) and t.id == member for t in st.targets):
                    raise TranslationError('%s.%s is rebound by a class-level assignment' % (c, member), st)
            if found is not None:
                if not isinstance(found, ast.FunctionDef) or found.decorator_list:
                    raise TranslationError('%s.%s is decorated / async' % (c, member), found)
                return c, found
        if required:
            raise TranslationError('%s.%s not found' % (cname, member))
        return None, None


def _params(fn, n=None):
    a = fn.args
    if a.vararg or a.kwarg or a.kwonlyargs or a.defaults or a.posonlyargs or a.kw_defaults:
        raise TranslationError('unsupported signature of %s' % fn.name, fn)
    ps = [x.arg for x in a.args]
    if not ps or ps[0] != 'self':
        raise TranslationError('%s is not a method (no self)' % fn.name, fn)
    ps = ps[1:]
    if n is not None and len(ps) != n:
        raise TranslationError('%s must take exactly %d argument(s)' % (fn.name, n), fn)
    return ps


class _Formula:
    """one straight-line formula over the reals for one concrete class; values are 'R' or 'triple'"""

    def __init__(self, tr, cname, mins=None, funparams=None):
        self.tr, self.cname = tr, cname
        self.mins = mins            # constructor context: attribute -> current Coq text
        self.funparams = funparams  # self.<name>(x) calls that become function parameters (in order of use)

    def num(self, e, env):
        txt, ty = self.expr(e, env)
        if ty != 'R':
            raise TranslationError('array-valued expression where a number is needed', e)
        return txt

    def expr(self, e, env):
        if isinstance(e, ast.Constant):
            return _num(e.value, e), 'R'
        if isinstance(e, ast.Name):
            if e.id in env:
                return env[e.id]
            raise TranslationError('unknown name %s' % e.id, e)
        if _is_np(e, 'pi'):
            return 'PI', 'R'
        if _is_self_attr(e) and self.mins is not None and e.attr in self.mins:
            return self.mins[e.attr], 'R'
        if isinstance(e, ast.UnaryOp) and isinstance(e.op, ast.USub):
            return '(- %s)' % self.num(e.operand, env), 'R'
        if isinstance(e, ast.BinOp):
            if isinstance(e.op, ast.Pow):
                base = self.num(e.left, env)
                r = e.right
                if isinstance(r, ast.Constant) and isinstance(r.value, int) and not isinstance(r.value, bool) and r.value >= 0:
                    return '(%s ^ %d)' % (base, r.value), 'R'
                if (isinstance(r, ast.BinOp) and isinstance(r.op, ast.Div) and all(
                        isinstance(x, ast.Constant) and isinstance(x.value, int) and not isinstance(x.value, bool) and x.value > 0
                        for x in (r.left, r.right))):
                    return '(Rpower %s (%d / %d))' % (base, r.left.value, r.right.value), 'R'
                raise TranslationError('exponent must be a non-negative integer literal or p/q of positive integer literals', e)
            ops = {ast.Add: '+', ast.Sub: '-', ast.Mult: '*', ast.Div: '/'}
            if type(e.op) not in ops:
                raise TranslationError('unsupported operator %s' % type(e.op).__name__, e)
            lt, lty = self.expr(e.left, env)
            rt, rty = self.expr(e.right, env)
            if lty == 'R' and rty == 'R':
                return '(%s %s %s)' % (lt, ops[type(e.op)], rt), 'R'
            if isinstance(e.op, ast.Mult) and lty == 'R' and rty == 'triple':
                return '(smul3 %s %s)' % (lt, rt), 'triple'
            raise TranslationError('unsupported array arithmetic', e)
        if isinstance(e, ast.Attribute) and e.attr == 'T' and isinstance(e.value, ast.Call):
            c = e.value
            if _is_np(c.func, 'array') and len(c.args) == 1 and not c.keywords and isinstance(c.args[0], ast.List) and len(c.args[0].elts) == 3:
                return '(%s)' % ', '.join(self.num(x, env) for x in c.args[0].elts), 'triple'
            raise TranslationError('.T of something that is not np.array([a, b, c])', e)
        if isinstance(e, ast.Call):
            if e.keywords:
                raise TranslationError('keyword arguments in a formula', e)
            if _is_np(e.func) and e.func.attr in NPFUN and len(e.args) == 1:
                return '(%s %s)' % (NPFUN[e.func.attr], self.num(e.args[0], env)), 'R'
            if _is_np(e.func, 'ones') and len(e.args) == 1:
                a = e.args[0]
                if isinstance(a, ast.Attribute) and a.attr == 'shape' and isinstance(a.value, ast.Name) and a.value.id in env:
                    return '1', 'R'
                if (isinstance(a, ast.Tuple) and len(a.elts) == 2 and isinstance(a.elts[1], ast.Constant) and a.elts[1].value == 3
                        and isinstance(a.elts[0], ast.Call) and isinstance(a.elts[0].func, ast.Name) and a.elts[0].func.id == 'len'
                        and len(a.elts[0].args) == 1 and isinstance(a.elts[0].args[0], ast.Name) and a.elts[0].args[0].id in env):
                    return 'ones3', 'triple'
                raise TranslationError('np.ones of something that is neither <arg>.shape nor (len(<arg>), 3)', e)
            if _is_self_attr(e.func) and len(e.args) == 1:
                m = e.func.attr
                arg = self.num(e.args[0], env)
                if self.funparams is not None:
                    if m not in self.funparams:
                        self.funparams.append(m)
                    return '(%s %s)' % (_ident(m), arg), 'R'
                if m in WRAPPERS:
                    if self.mins is None:
                        raise TranslationError('public wrapper %s called from a formula' % m, e)
                    gname = self.tr.wrapper_instance(self.cname, m, self.mins[WRAPPERS[m][0]])
                    return '(%s %s)' % (gname, arg), 'R'
                gname, ty = self.tr.formula(self.cname, m)
                return '(%s %s)' % (gname, arg), ty
            raise TranslationError('unsupported call', e)
        raise TranslationError('unsupported expression %s' % type(e).__name__, e)

    def body(self, fn, params):
        env = {p: (_ident(p), 'R') for p in params}
        lets, ret, cnt = [], None, {}
        for st in _strip_doc(fn.body):
            if ret is not None:
                raise TranslationError('statement after return', st)
            if isinstance(st, ast.Assign) and len(st.targets) == 1 and isinstance(st.targets[0], ast.Name):
                n = st.targets[0].id
                txt, ty = self.expr(st.value, env)
                cnt[n] = cnt.get(n, 0) + 1
                v = _ident(n) if cnt[n] == 1 and n not in params else '%s_%d' % (n, cnt[n])
                lets.append('let %s := %s in' % (v, txt))
                env[n] = (v, ty)
            elif isinstance(st, ast.Return) and st.value is not None:
                ret = self.expr(st.value, env)
            else:
                raise TranslationError('unsupported statement %s' % type(st).__name__, st)
        if ret is None:
            raise TranslationError('no return', fn)
        return ('\n  '.join(lets) + '\n  ' if lets else '') + ret[0], ret[1]


class Translator:
    def __init__(self, src):
        try:
            self.mod = ast.parse(src)
        except SyntaxError as e:
            raise TranslationError('source does not parse: %s' % e)
        self.C = _Classes(self.mod)
        self.done = {}
        self.out = []
        self.names = []
        self.active = set()
        self.wrapper_defs = {}
        self.winst = {}

    def emit(self, name, text):
        if name in self.names:
            raise TranslationError('definition %s emitted twice' % name)
        self.names.append(name)
        self.out.append(text)

    # ---- formulas ------------------------------------------------------------------------
    def formula(self, cname, meth):
        dc, fn = self.C.find(cname, meth)
        key = (dc, meth)
        if key in self.done:
            return self.done[key]
        if key in self.active:
            raise TranslationError('recursive formula %s.%s' % (dc, meth))
        self.active.add(key)
        params = _params(fn, 1)
        # helpers are resolved from the concrete class; a helper overridden below `dc` would make the
        # text class dependent: only allow formulas whose helpers resolve identically for every user
        body, ty = _Formula(self, cname).body(fn, params)
        gname = '%s_%s_gen' % (SHORT.get(dc, dc), meth.lstrip('_'))
        self.emit(gname, '(* %s.%s (line %d) *)\nDefinition %s (%s : R) : %s :=\n  %s.'
                  % (dc, meth, fn.lineno, gname, _ident(params[0]), 'R' if ty == 'R' else 'triple', body))
        self.active.discard(key)
        self.done[key] = (gname, ty)
        return gname, ty

    # ---- wrappers ------------------------------------------------------------------------
    def process_aspect_ratio(self):
        dc, fn = self.C.find(BASE, '_processAspectRatio')
        for _, cname in DESCRIPTIONS:
            if self.C.find(cname, '_processAspectRatio')[0] != BASE:
                raise TranslationError('%s overrides _processAspectRatio' % cname)
        ps = _params(fn, 1)
        body = _strip_doc(fn.body)
        p = ps[0]
        if not body or not _same(body[0], '%s = np.atleast_1d(%s)' % (p, p)):
            raise TranslationError('_processAspectRatio does not start with `%s = np.atleast_1d(%s)`' % (p, p), fn)

        def mask(t):
            ok = (isinstance(t, ast.Compare) and len(t.ops) == 1 and type(t.ops[0]) in CMP and isinstance(t.left, ast.Name)
                  and t.left.id == p and isinstance(t.comparators[0], ast.Constant))
            if not ok:
                raise TranslationError('_processAspectRatio: mask is not `%s <cmp> <constant>`' % p, t)
            return CMP[type(t.ops[0])], _num(t.comparators[0].value, t)
        inplace = None
        if len(body) == 3 and isinstance(body[1], ast.Assign) and len(body[1].targets) == 1 and isinstance(body[1].targets[0], ast.Subscript):
            tg = body[1].targets[0]
            if not (isinstance(tg.value, ast.Name) and tg.value.id == p and isinstance(body[1].value, ast.Constant) and _same(body[2], 'return %s' % p)):
                raise TranslationError('_processAspectRatio: unexpected in-place form', body[1])
            op, c = mask(tg.slice)
            v = _num(body[1].value.value, body[1])
            inplace = True
        elif len(body) == 2 and isinstance(body[1], ast.Return) and isinstance(body[1].value, ast.Call) and _is_np(body[1].value.func, 'where'):
            call = body[1].value
            if call.keywords or len(call.args) != 3 or not isinstance(call.args[1], ast.Constant) or not (isinstance(call.args[2], ast.Name) and call.args[2].id == p):
                raise TranslationError('_processAspectRatio: np.where is not np.where(%s <cmp> c, v, %s)' % (p, p), call)
            op, c = mask(call.args[0])
            v = _num(call.args[1].value, call)
            inplace = False
        else:
            raise TranslationError('_processAspectRatio has an unexpected shape', fn)
        self.emit('processAspectRatio_gen',
                  '(* %s._processAspectRatio (line %d) *)\nDefinition processAspectRatio_gen (%s : R) : R := if %s %s %s then %s else %s.'
                  % (BASE, fn.lineno, _ident(p), op, _ident(p), c, v, _ident(p)))
        self.emit('processAspectRatio_inplace_gen',
                  '(* does _processAspectRatio write into the array it was given? *)\n'
                  'Definition processAspectRatio_inplace_gen : bool := %s.' % ('true' if inplace else 'false'))

    def wrappers(self):
        for pub, (mn, raw) in WRAPPERS.items():
            dc, fn = self.C.find(BASE, pub)
            p = _params(fn, 1)[0]
            body = _strip_doc(fn.body)
            if len(body) != 4:
                raise TranslationError('public wrapper %s is not the four-statement mask idiom' % pub, fn)
            if not _same(body[0], '%s = self._processAspectRatio(%s)' % (p, p)):
                raise TranslationError('%s: first statement is not the call of _processAspectRatio' % pub, body[0])
            if not _same(body[1], 'factor = self.%s * np.ones(%s.shape)' % (mn, p)):
                raise TranslationError('%s: second statement is not `factor = self.%s * np.ones(%s.shape)`' % (pub, mn, p), body[1])
            st = body[2]
            ok = (isinstance(st, ast.Assign) and len(st.targets) == 1 and isinstance(st.targets[0], ast.Subscript)
                  and isinstance(st.targets[0].value, ast.Name) and st.targets[0].value.id == 'factor')
            m = st.targets[0].slice if ok else None
            ok = (ok and isinstance(m, ast.Compare) and len(m.ops) == 1 and type(m.ops[0]) in CMP and isinstance(m.left, ast.Name)
                  and m.left.id == p and isinstance(m.comparators[0], ast.Constant))
            if not ok:
                raise TranslationError('%s: third statement is not `factor[%s <cmp> c] = ...`' % (pub, p), st)
            want = ast.parse('self.%s(%s[MASK])' % (raw, p)).body[0].value
            want.args[0].slice = m
            if ast.dump(st.value) != ast.dump(want):
                raise TranslationError('%s: right-hand side is not self.%s(%s[<same mask>])' % (pub, raw, p), st)
            if not _same(body[3], 'return np.squeeze(factor)'):
                raise TranslationError('%s: does not end with return np.squeeze(factor)' % pub, body[3])
            self.emit('%s_wrapper_gen' % pub,
                      '(* %s.%s (line %d): factor = self.%s * np.ones(...); factor[mask] = self.%s(%s[mask]) *)\n'
                      'Definition %s_wrapper_gen (fmin : R) (f : R -> R) (%s : R) : R :=\n'
                      '  let %s := processAspectRatio_gen %s in\n  if %s %s %s then f %s else fmin * 1.'
                      % (BASE, pub, fn.lineno, mn, raw, p, pub, _ident(p), _ident(p), _ident(p),
                         CMP[type(m.ops[0])], _ident(p), _num(m.comparators[0].value, m), _ident(p)))
        dc, fn = self.C.find(BASE, 'normalRadii')
        p = _params(fn, 1)[0]
        body = _strip_doc(fn.body)
        if not (len(body) == 2 and _same(body[0], '%s = self._processAspectRatio(%s)' % (p, p))
                and _same(body[1], 'return np.squeeze(self._normalRadii(%s))' % p)):
            raise TranslationError('normalRadii is not `ar = self._processAspectRatio(ar); return np.squeeze(self._normalRadii(ar))`', fn)
        self.emit('normalRadii_wrapper_gen',
                  '(* %s.normalRadii (line %d) *)\nDefinition normalRadii_wrapper_gen (f : R -> triple) (%s : R) : triple := f (processAspectRatio_gen %s).'
                  % (BASE, fn.lineno, _ident(p), _ident(p)))
        for _, cname in DESCRIPTIONS:
            for pub in list(WRAPPERS) + ['normalRadii']:
                if self.C.find(cname, pub)[0] != BASE:
                    raise TranslationError('%s overrides the public wrapper %s' % (cname, pub))

    def wrapper_instance(self, cname, pub, mintext):
        """a public wrapper called inside a constructor, with the Min value of that moment"""
        mn, raw = WRAPPERS[pub]
        rawname, _ = self.formula(cname, raw)
        return '(%s_wrapper_gen %s %s)' % (pub, mintext, rawname)

    # ---- constructors --------------------------------------------------------------------
    def run_init(self, cname, start=None):
        """symbolic execution of cname.__init__ along the MRO; returns attribute -> Coq text"""
        dc, fn = self.C.find(start or cname, '__init__', required=False)
        if fn is None:
            raise TranslationError('no constructor found for %s' % cname)
        _params(fn, 0)
        mins = {}
        for st in _strip_doc(fn.body):
            if _same(st, 'super().__init__()'):
                parent = self.C.cls[dc][1]
                if parent is None:
                    raise TranslationError('super().__init__() in a class without base', st)
                mins = self.run_init(cname, start=parent)
                continue
            if isinstance(st, ast.Assign) and len(st.targets) == 1 and _is_self_attr(st.targets[0]):
                attr = st.targets[0].attr
                if attr not in MINS:
                    raise TranslationError('constructor of %s sets an unexpected attribute %s' % (dc, attr), st)
                cur = dict(mins)
                for m in MINS:
                    if m not in cur:
                        cur[m] = None
                f = _Formula(self, cname, mins={k: v for k, v in cur.items() if v is not None})
                mins[attr] = f.num(st.value, {})
                continue
            raise TranslationError('unsupported statement in %s.__init__' % dc, st)
        return mins

    def description(self, short, cname):
        names = {}
        for m in FORMULAS:
            gname, ty = self.formula(cname, m)
            if (ty == 'triple') != (m == '_normalRadii'):
                raise TranslationError('%s.%s has the wrong kind of value' % (cname, m))
            names[m] = gname
        mins = self.run_init(cname)
        for m in MINS:
            if m not in mins:
                raise TranslationError('constructor of %s does not set %s' % (cname, m))
            self.emit('%s_%s_gen' % (short, m), 'Definition %s_%s_gen : R := %s.' % (short, m, mins[m]))
        self.emit('%s_gen' % short,
                  'Definition %s_gen : description :=\n  mkDescr %s %s %s\n          %s %s %s %s.'
                  % (short, *['%s_%s_gen' % (short, m) for m in MINS], names['_eqRadius'], names['_normalRadii'],
                     names['_kineticFactor'], names['_thermoFactor']))
        for pub, (mn, raw) in WRAPPERS.items():
            self.emit('%s_%s_public_gen' % (short, pub), 'Definition %s_%s_public_gen : R -> R := %s_wrapper_gen %s_%s_gen %s.'
                      % (short, pub, pub, short, mn, names[raw]))
        self.emit('%s_normalRadii_public_gen' % short,
                  'Definition %s_normalRadii_public_gen : R -> triple := normalRadii_wrapper_gen %s.' % (short, names['_normalRadii']))

    # ---- ShapeFactor ---------------------------------------------------------------------
    def shape_factor(self):
        cn = 'ShapeFactor'
        if cn not in self.C.cls or self.C.cls[cn][1] is not None:
            raise TranslationError('class ShapeFactor missing or derived')
        for m in ['normalRadii'] + list(WRAPPERS):
            dc, fn = self.C.find(cn, m)
            p = _params(fn, 1)[0]
            body = _strip_doc(fn.body)
            if not (len(body) == 2 and _same(body[0], 'ar = self.aspectRatio(%s)' % p) and _same(body[1], 'return self.description.%s(ar)' % m)):
                raise TranslationError('ShapeFactor.%s is not `ar = self.aspectRatio(R); return self.description.%s(ar)`' % (m, m), fn)
            ty = 'triple' if m == 'normalRadii' else 'R'
            self.emit('ShapeFactor_%s_gen' % m,
                      '(* ShapeFactor.%s (line %d) *)\nDefinition ShapeFactor_%s_gen (description_%s : R -> %s) (aspectRatio : R -> R) (%s : R) : %s :=\n'
                      '  let ar := aspectRatio %s in\n  description_%s ar.' % (m, fn.lineno, m, m, ty, _ident(p), ty, _ident(p), m))
        dc, fn = self.C.find(cn, '_scalarAspectRatioEquation')
        p = _params(fn, 1)[0]
        body = _strip_doc(fn.body)
        if not (len(body) == 2 and _same(body[0], '%s = np.atleast_1d(%s)' % (p, p))
                and _same(body[1], 'return np.squeeze(self._aspectRatioScalar * np.ones(%s.shape))' % p)):
            raise TranslationError('_scalarAspectRatioEquation has an unexpected shape', fn)
        self.emit('scalarAspectRatio_gen',
                  '(* ShapeFactor._scalarAspectRatioEquation (line %d) *)\nDefinition scalarAspectRatio_gen (aspectRatioScalar : R) (%s : R) : R := aspectRatioScalar * 1.'
                  % (fn.lineno, _ident(p)))
        dc, fn = self.C.find(cn, 'setAspectRatio')
        p = _params(fn, 1)[0]
        body = _strip_doc(fn.body)
        tmpl = ('if np.isscalar(%s):\n    self._aspectRatioScalar = %s\n    self.aspectRatio = self._scalarAspectRatioEquation\n'
                '    self.findRcrit = self._findRcritScalar\nelse:\n    self.aspectRatio = %s\n    self.findRcrit = self._findRcrit' % (p, p, p))
        if not (len(body) == 1 and _same(body[0], tmpl)):
            raise TranslationError('setAspectRatio does not dispatch scalar -> _findRcritScalar / callable -> _findRcrit in the expected way', fn)
        self.emit('setAspectRatio_dispatch_gen',
                  '(* ShapeFactor.setAspectRatio (line %d): scalar -> (_scalarAspectRatioEquation, _findRcritScalar); otherwise -> (the callable, _findRcrit) *)\n'
                  'Definition setAspectRatio_dispatch_gen : bool := true.' % fn.lineno)
        # _findRcritScalar
        dc, fn = self.C.find(cn, '_findRcritScalar')
        ps = _params(fn, 2)
        fp = []
        body, ty = _Formula(self, cn, funparams=fp).body(fn, ps)
        if fp != ['thermoFactor'] or ty != 'R':
            raise TranslationError('_findRcritScalar must use self.thermoFactor only', fn)
        self.emit('findRcritScalar_gen',
                  '(* ShapeFactor._findRcritScalar (line %d); self.thermoFactor becomes a parameter *)\n'
                  'Definition findRcritScalar_gen (thermoFactor : R -> R) (%s : R) : R :=\n  %s.'
                  % (fn.lineno, ' '.join(_ident(x) for x in ps), body))
        self.find_rcrit()

    # ---- the bisection, over Ops ----------------------------------------------------------
    def ops_expr(self, e, env, attrs, funs):
        """arithmetic expression over the scalar record O"""
        if isinstance(e, ast.Constant):
            fr = _frac(e.value, e)
            if fr.denominator != 1:
                raise TranslationError('non-integer literal in _findRcrit', e)
            if fr == 0:
                return '(zero O)'
            if fr == 1:
                return '(one O)'
            return '(ofZ O (%d))' % fr.numerator
        if isinstance(e, ast.Name):
            if e.id in env:
                return env[e.id]
            raise TranslationError('unknown name %s in _findRcrit' % e.id, e)
        if _is_self_attr(e) and e.attr in attrs:
            return attrs[e.attr]
        if isinstance(e, ast.BinOp):
            ops = {ast.Add: 'add', ast.Sub: 'sub', ast.Mult: 'mul', ast.Div: 'dvd'}
            if type(e.op) not in ops:
                raise TranslationError('unsupported operator in _findRcrit', e)
            return '(%s O %s %s)' % (ops[type(e.op)], self.ops_expr(e.left, env, attrs, funs), self.ops_expr(e.right, env, attrs, funs))
        if isinstance(e, ast.Call) and not e.keywords and len(e.args) == 1:
            if _is_self_attr(e.func) and e.func.attr in funs:
                return '(%s %s)' % (funs[e.func.attr], self.ops_expr(e.args[0], env, attrs, funs))
            if _is_np(e.func, 'abs'):
                return '(absT O %s)' % self.ops_expr(e.args[0], env, attrs, funs)
        raise TranslationError('unsupported expression in _findRcrit', e)

    def ops_test(self, t, env, attrs, funs):
        if not (isinstance(t, ast.Compare) and len(t.ops) == 1):
            raise TranslationError('unsupported test in _findRcrit', t)
        a = self.ops_expr(t.left, env, attrs, funs)
        b = self.ops_expr(t.comparators[0], env, attrs, funs)
        op = type(t.ops[0])
        if op is ast.Gt:
            return '(ltb O %s %s)' % (b, a)
        if op is ast.Lt:
            return '(ltb O %s %s)' % (a, b)
        if op is ast.GtE:
            return '(leb O %s %s)' % (b, a)
        if op is ast.LtE:
            return '(leb O %s %s)' % (a, b)
        raise TranslationError('unsupported comparison in _findRcrit', t)

    def find_rcrit(self):
        dc, fn = self.C.find('ShapeFactor', '_findRcrit')
        ps = _params(fn, 2)
        rs, rmax = ps
        body = _strip_doc(fn.body)
        attrs = {'tol': 'tol'}
        funs = {'thermoFactor': 'thermoFactor'}
        state = ['minR', 'maxR', 'midR', 'fMin', 'fMax', 'fMid']
        if rs in state or rmax in state or rs == 'n' or rmax == 'n':
            raise TranslationError('_findRcrit: parameter names clash with the loop state', fn)

        def assign(st, name):
            if not (isinstance(st, ast.Assign) and len(st.targets) == 1 and isinstance(st.targets[0], ast.Name) and st.targets[0].id == name):
                raise TranslationError('_findRcrit: expected an assignment to %s' % name, st)
            return st.value
        if len(body) != 9:
            raise TranslationError('_findRcrit does not have the expected nine statements (six initialisations, n = 0, while, return)', fn)
        env0 = {rs: _ident(rs), rmax: _ident(rmax)}
        init = {}
        env = dict(env0)
        for st, name in zip(body[:6], state):
            init[name] = self.ops_expr(assign(st, name), env, attrs, funs)
            env[name] = name + '0'
        n0 = assign(body[6], 'n')
        if not (isinstance(n0, ast.Constant) and n0.value == 0 and not isinstance(n0.value, bool)):
            raise TranslationError('_findRcrit: n does not start at 0', body[6])
        w = body[7]
        if not (isinstance(w, ast.While) and not w.orelse and len(w.body) == 5):
            raise TranslationError('_findRcrit: expected `while` with five statements', w)
        senv = dict(env0)
        for v in state:
            senv[v] = '(%s s)' % v
        cond = self.ops_test(w.test, senv, attrs, funs)
        br = w.body[0]
        if not (isinstance(br, ast.If) and len(br.body) == 2 and len(br.orelse) == 2):
            raise TranslationError('_findRcrit: expected a two-branch update with two assignments each', br)
        brtest = self.ops_test(br.test, senv, attrs, funs)

        def branch(stmts):
            upd = {}
            for st in stmts:
                if not (isinstance(st, ast.Assign) and len(st.targets) == 1 and isinstance(st.targets[0], ast.Name)
                        and st.targets[0].id in ('minR', 'maxR', 'fMin', 'fMax') and isinstance(st.value, ast.Name) and st.value.id in state):
                    raise TranslationError('_findRcrit: branch statement is not <bracket variable> = <state variable>', st)
                if st.targets[0].id in upd:
                    raise TranslationError('_findRcrit: variable assigned twice in a branch', st)
                # simultaneous reading is only right if no assigned variable is read later in the branch
                if st.value.id in upd:
                    raise TranslationError('_findRcrit: branch reads a variable it has just assigned', st)
                upd[st.targets[0].id] = st.value.id
            return '(%s)' % ', '.join('%s s' % upd.get(v, v) for v in ('minR', 'maxR', 'fMin', 'fMax'))
        b_then, b_else = branch(br.body), branch(br.orelse)
        lenv = dict(env0)
        lenv.update({'minR': 'mn', 'maxR': 'mx', 'fMin': 'fn', 'fMax': 'fx', 'midR': '(midR s)', 'fMid': '(fMid s)'})
        mid = self.ops_expr(assign(w.body[1], 'midR'), lenv, attrs, funs)
        lenv['midR'] = 'md'
        fmid = self.ops_expr(assign(w.body[2], 'fMid'), lenv, attrs, funs)
        if not _same(w.body[3], 'n += 1'):
            raise TranslationError('_findRcrit: expected n += 1', w.body[3])
        g = w.body[4]
        ok = (isinstance(g, ast.If) and not g.orelse and len(g.body) == 1 and isinstance(g.body[0], ast.Return)
              and isinstance(g.test, ast.Compare) and len(g.test.ops) == 1 and isinstance(g.test.ops[0], ast.Eq)
              and isinstance(g.test.left, ast.Name) and g.test.left.id == 'n' and isinstance(g.test.comparators[0], ast.Constant)
              and isinstance(g.test.comparators[0].value, int) and g.test.comparators[0].value >= 1)
        if not ok:
            raise TranslationError('_findRcrit: expected `if n == <N>: return ...` at the end of the loop body', g)
        nmax = g.test.comparators[0].value
        giveup = self.ops_expr(g.body[0].value, env0, attrs, funs)
        if not (isinstance(body[8], ast.Return) and body[8].value is not None):
            raise TranslationError('_findRcrit: expected a final return', body[8])
        found = self.ops_expr(body[8].value, senv, attrs, funs)
        R, M = _ident(rs), _ident(rmax)
        lets = '\n'.join('  let %s0 := %s in' % (v, init[v]) for v in state)
        txt = ('(* ShapeFactor._findRcrit (line %d), over the scalar record; self.thermoFactor and self.tol are parameters.\n'
               '   Statement skeleton pinned by the translator, every expression / comparison / constant read from the source. *)\n'
               'Section FindRcrit_gen.\nVariable O : Ops.\nVariable thermoFactor : T O -> T O.\nVariable %s : T O.\nVariable tol : T O.\n\n'
               'Definition findRcrit_step_gen (s : bstate O) : bstate O :=\n'
               '  let \'(mn, mx, fn, fx) :=\n    if %s\n    then %s\n    else %s in\n'
               '  let md := %s in\n  mkB O mn mx md fn fx %s.\n\n'
               'Definition findRcrit_continue_gen (s : bstate O) : bool := %s.\n'
               'Definition findRcrit_found_gen (s : bstate O) : T O := %s.\n'
               'Definition findRcrit_giveup_gen : T O := %s.\n'
               'Definition findRcrit_maxiter_gen : nat := %d%%nat.\n\n'
               'Definition findRcrit_init_gen (%s : T O) : bstate O :=\n%s\n  mkB O minR0 maxR0 midR0 fMin0 fMax0 fMid0.\n\n'
               '(* fuel = iterations that may still complete before n == %d *)\n'
               'Fixpoint findRcrit_loop_gen (fuel n : nat) (s : bstate O) : outcome O :=\n'
               '  if findRcrit_continue_gen s then\n    match fuel with\n    | 0%%nat => GaveUp O\n    | S k => findRcrit_loop_gen k (S n) (findRcrit_step_gen s)\n    end\n'
               '  else Found O (findRcrit_found_gen s) n.\n\n'
               'Definition findRcrit_gen (%s : T O) : outcome O :=\n  findRcrit_loop_gen (pred findRcrit_maxiter_gen) 0%%nat (findRcrit_init_gen %s).\n'
               'Definition findRcrit_value_gen (%s : T O) : T O :=\n  match findRcrit_gen %s with Found _ r _ => r | GaveUp _ => findRcrit_giveup_gen end.\n'
               'End FindRcrit_gen.'
               % (fn.lineno, R, brtest, b_then, b_else, mid, fmid, cond, found, giveup, nmax, M, lets, nmax, M, M, M, M))
        self.maxiter = nmax
        self.emit('findRcrit_gen', txt)
        self.names += ['findRcrit_step_gen', 'findRcrit_continue_gen', 'findRcrit_found_gen', 'findRcrit_giveup_gen',
                       'findRcrit_maxiter_gen', 'findRcrit_init_gen', 'findRcrit_loop_gen', 'findRcrit_value_gen']

    def run(self):
        for _, cname in DESCRIPTIONS:
            if cname not in self.C.cls:
                raise TranslationError('class %s missing' % cname)
            if self.C.cls[cname][1] != BASE:
                raise TranslationError('class %s derives from %s, expected %s' % (cname, self.C.cls[cname][1], BASE))
        if BASE not in self.C.cls or self.C.cls[BASE][1] is not None:
            raise TranslationError('class %s missing or derived' % BASE)
        # module-level statements other than imports / classes / docstring could rebind anything
        for st in self.mod.body:
            if isinstance(st, ast.ClassDef) or (isinstance(st, ast.Expr) and isinstance(st.value, ast.Constant)):
                continue
            if isinstance(st, ast.Import) and [(a.name, a.asname) for a in st.names] == [('numpy', 'np')]:
                continue
            raise TranslationError('unexpected module-level statement', st)
        self.out.append('(* ---- %s: wrappers ---- *)' % BASE)
        self.process_aspect_ratio()
        self.wrappers()
        for short, cname in DESCRIPTIONS:
            self.out.append('(* ---- %s ---- *)' % cname)
            self.description(short, cname)
        self.out.append('(* ---- ShapeFactor ---- *)')
        self.shape_factor()
        skip = {'findRcrit_gen', 'findRcrit_step_gen', 'findRcrit_continue_gen', 'findRcrit_found_gen', 'findRcrit_giveup_gen',
                'findRcrit_maxiter_gen', 'findRcrit_init_gen', 'findRcrit_loop_gen', 'findRcrit_value_gen',
                'processAspectRatio_inplace_gen', 'setAspectRatio_dispatch_gen'}
        self.out.append('(* for the pointwise enclosures of the check *)\nLtac gen_unfold :=\n  repeat progress unfold %s.'
                        % ',\n    '.join(n for n in self.names if n not in skip))
        header = ('(* GENERATED on every run by harness/c15_translate.py from kawin/precipitation/parameters/ShapeFactors.py.\n'
                  '   Do not edit. *)\nFrom Coq Require Import Reals List Bool ZArith.\nRequire Import Kawin.Common.Ops Kawin.Common.Vec Kawin.C15.Model.\n'
                  'Import ListNotations.\nOpen Scope R_scope.\n\n')
        text = header + '\n\n'.join(self.out) + '\n'
        info = {'definitions': self.names, 'sha256': hashlib.sha256(text.encode()).hexdigest(), 'findRcrit_maxiter': self.maxiter}
        return text, info


def translate(src):
    return Translator(src).run()


if __name__ == '__main__':
    import sys
    t, i = translate(open(sys.argv[1]).read())
    sys.stdout.write(t)
