"""C20 - saved files and surrogates reproduce what they were made from.

tie (translator):  harness/c20_translate.py turns the ASTs of toDict / fromDict / save / load
                   (PrecipitationData, PrecipitateBase, PrecipitateModel, the PopulationBalanceModel
                   constructor, DiffusionModel, GenericModel, StrengthModel) and of the un-trained branches
                   of kawin/thermo/Surrogate.py into Coq data (build/C20/SaveLoad_gen.v, Surrogate_gen.v) on
                   EVERY run; coq/C20/run/*.v are re-checked against that text.
proof:             coq/C20/Properties.v (any writer / reader pair and any fall-through entry that passes the
                   boolean check of Model.v) + coq/C20/run/*.v (the generated lists pass it; instantiated
                   statements).
correspondence:    the generated lists are EXECUTED inside Coq (coq/C20/Corr.v, array contents abstracted to
                   identifiers) on the object states of real save -> load round trips and the predicted
                   loaded state / file keys are compared with what kawin produced.
search / oracle:   written from the property text, independent of the model: real .npz round trips into a
                   freshly constructed model of the same configuration (1-3 phases, recording on / off /
                   toggled, between solve calls and after completion, strength model coupled), comparing
                   every array of the history object, the current state, the size distributions and the
                   recorded ones; surrogates on recording stub backends with 2-3 precipitate phases: un-trained
                   getters (every getter x every phase x phase left out / positional / keyword, every optional
                   argument) must make exactly the same-named backend call, hand it the caller's arguments
                   and return its value; trained ones must reproduce the backend
                   at the training points (linear / log, broadcast or not, scalar and array queries), a
                   surrogate rebuilt from its JSON file must predict the same values.
"""
import json, io, contextlib, warnings, copy, itertools
import numpy as np
from common import *
import c20_translate as tr

LEVEL = 'proof'
RGAS = 8.314
BUILD = [None]          # scratch directory of the current run (ctx.build)

RUN_FILES = ['C20/run/PrecRoundtrip.v', 'C20/run/PrecKeys.v', 'C20/run/PrecUnsaved.v', 'C20/run/PrecOptional.v',
             'C20/run/DiffRoundtrip.v', 'C20/run/DiffKeys.v', 'C20/run/DiffUnsaved.v', 'C20/run/DiffOptional.v',
             'C20/run/StrengthRoundtrip.v', 'C20/run/SurrFallthrough.v', 'C20/run/SurrGuards.v', 'C20/run/SurrKernel.v', 'C20/run/FileNames.v']

HEADER = '''From Coq Require Import String List ZArith.
Require Import Kawin.C20.Model Kawin.C20.Corr.
Require Import KawinRun.SaveLoad_gen.
Import ListNotations.
Open Scope string_scope.
'''


# ==========================================================================================
# stub backends (oracles of the model: any function will do; closed forms keep the runs fast)
def _bxT(x, T):
    x = np.atleast_2d(np.array(x, dtype=float))
    if x.shape[1] != 1:
        x = x.T
    T = np.atleast_1d(np.array(T, dtype=float))
    if len(x) != len(T):
        if len(x) == 1:
            x = np.repeat(x, len(T), axis=0)
        elif len(T) == 1:
            T = np.repeat(T, len(x), axis=0)
        else:
            raise ValueError('stub: incompatible x / T lengths')
    return x[:, 0], T


class SurBinary:
    """ideal dilute binary A-B; composition dependent diffusivities (so that training is not degenerate)"""
    numElements = 2
    elements = ['A', 'B', 'VA']
    P = {'B1': (0.25, 60000., 2.0), 'B2': (0.5, 52000., 1.2), 'B3': (0.2, 65000., 2.6)}

    def __init__(self, phases=('B1', 'B2')):
        self.phases = ['ALPHA'] + list(phases)

    def xeq(self, T, ph):
        xb, H, S = self.P[ph]
        return np.exp(-H / (RGAS * T) + S)

    def getDrivingForce(self, x, T, precPhase=None, removeCache=False, **k):
        ph = self.phases[1] if precPhase is None else precPhase
        x, T = _bxT(x, T)
        xe, xb = self.xeq(T, ph), self.P[ph][0]
        dg = RGAS * T * (xb * np.log(x / xe) + (1 - xb) * np.log((1 - x) / (1 - xe)))
        return np.squeeze(dg), np.squeeze(xb * np.ones(len(T)) + 0.1 * x)

    def getInterdiffusivity(self, x, T, removeCache=True, phase=None):
        x, T = _bxT(x, T)
        return np.squeeze(1e-5 * np.exp(-150000. / (RGAS * T)) * (1 + 3 * x))

    def getTracerDiffusivity(self, x, T, removeCache=True, phase=None):
        x, T = _bxT(x, T)
        d = 1e-5 * np.exp(-150000. / (RGAS * T))
        return np.squeeze(np.array([d * (1 + x), 2 * d * (1 - x)]).T)

    def getInterfacialComposition(self, T, gExtra=0, precPhase=None):
        from kawin.thermo.utils import _process_TG_arrays
        ph = self.phases[1] if precPhase is None else precPhase
        T, g = _process_TG_arrays(T, gExtra)
        g = np.array(g, dtype=float)
        if len(np.unique(T)) == 1:
            T = float(np.ravel(T)[0])
        else:
            T = np.array(T, dtype=float)
            if T.shape != g.shape:
                raise ValueError('stub: T and gExtra must describe the same points')
        xb0 = self.P[ph][0]
        xa = self.xeq(T, ph) * np.exp(g / (RGAS * T * xb0))
        bad = xa >= xb0
        return np.squeeze(np.where(bad, -1, xa)), np.squeeze(np.where(bad, -1, xb0 + 1e-6 * g))


class SurTernary:
    """closed-form ternary A-B-C backend with one precipitate"""
    numElements = 3
    elements = ['A', 'B', 'C']

    def __init__(self):
        self.phases = ['ALPHA', 'G1']

    @staticmethod
    def _xT(x, T):
        x = np.atleast_2d(np.array(x, dtype=float))
        if x.shape[1] == 3:
            x = x[:, 1:]
        T = np.atleast_1d(np.array(T, dtype=float))
        if len(x) != len(T):
            if len(x) == 1:
                x = np.repeat(x, len(T), axis=0)
            elif len(T) == 1:
                T = np.repeat(T, len(x), axis=0)
            else:
                raise ValueError('stub: incompatible x / T lengths')
        return x, T

    def getDrivingForce(self, x, T, precPhase=None, removeCache=False, **k):
        x, T = self._xT(x, T)
        xe0, xe1 = np.exp(-30000. / (RGAS * T)), np.exp(-25000. / (RGAS * T))
        dg = RGAS * T * (0.2 * np.log(x[:, 0] / xe0) + 0.1 * np.log(x[:, 1] / xe1))
        xp = np.array([0.2 + 0.1 * x[:, 0], 0.1 + 0.05 * x[:, 1]]).T
        return np.squeeze(dg), np.squeeze(xp)

    def getInterdiffusivity(self, x, T, removeCache=True, phase=None):
        x, T = self._xT(x, T)
        d = 1e-5 * np.exp(-200000. / (RGAS * T))
        D = np.zeros((len(T), 2, 2))
        D[:, 0, 0] = d * (2 + x[:, 0])
        D[:, 0, 1] = -0.3 * d * (1 + x[:, 1])
        D[:, 1, 0] = 0.2 * d * (1 + x[:, 0])
        D[:, 1, 1] = d * (1.5 + x[:, 1])
        return np.squeeze(D)

    def getTracerDiffusivity(self, x, T, removeCache=True, phase=None):
        x, T = self._xT(x, T)
        d = 1e-5 * np.exp(-200000. / (RGAS * T))
        return np.squeeze(np.array([d * (1 + x[:, 0]), d * (2 - x[:, 1]), d * (0.5 + x[:, 0] * x[:, 1])]).T)

    def curvatureFactor(self, x, T, precPhase=None, removeCache=False, computeSearchDir=False, **k):
        from kawin.thermo.MultiTherm import CurvatureOutput
        x, T = self._xT(x, T)
        x, T = x[0], float(T[0])
        if x[0] + x[1] > 0.6:
            return None
        s = 1e-3 * T
        return CurvatureOutput(dc=np.array([1e-5 * (1 + x[0]) * s, 2e-5 * (1 - x[1]) * s]), mc=np.array(1e-20 * (1 + x[0] + 2 * x[1]) * s),
                               gba=np.array([[1 + x[0], 0.1 * x[1]], [-0.2 * x[0], 0.8 + x[1]]]), beta=np.array(1e3 * (1 + x[0] * x[1]) * s),
                               c_eq_alpha=np.array([0.02 + 0.1 * x[0], 0.03 + 0.05 * x[1]]) * s,
                               c_eq_beta=np.array([0.2 + 0.1 * x[0], 0.1 + 0.05 * x[1]]))

    def getGrowthAndInterfacialComposition(self, x, T, dG, R, gExtra, precPhase=None, removeCache=False, searchDir=None, **k):
        from kawin.thermo.MultiTherm import _growthRateOutputFromCurvature
        from kawin.thermo.utils import _process_x
        cur = self.curvatureFactor(x, T, precPhase)
        if cur is None:
            return None
        return _growthRateOutputFromCurvature(_process_x(x, 3), dG, R, gExtra, cur)

    def impingementFactor(self, x, T, precPhase=None, removeCache=False, searchDir=None, **k):
        cur = self.curvatureFactor(x, T, precPhase)
        return None if cur is None else cur.beta


def _scaled(res, f):
    """multiply every array of a result (tuple / namedtuple / array / None) by f"""
    if res is None:
        return None
    if isinstance(res, tuple):
        vals = [_scaled(v, f) for v in res]
        return type(res)(*vals) if hasattr(res, '_fields') else tuple(vals)
    return np.asarray(res, dtype=float) * f


def _argfactor(phases, ph, **opt):
    """a factor that is different for every phase and every value of every optional argument, so that a
    dropped, defaulted or altered argument changes the value that comes back"""
    f = 1.0 + 0.37 * phases.index(ph)
    for k in sorted(opt):
        v = opt[k]
        if v is None:
            continue
        if isinstance(v, (bool, np.bool_)):
            f *= (1.0 + 0.11 * (1 + len(k) % 5)) if v else (1.0 - 0.07 * (1 + len(k) % 3))
        elif isinstance(v, dict):
            f *= 1.0 + 0.013 * (1 + len(v)) + 0.001 * sum(float(x) for x in v.values())
        else:
            f *= 1.0 + 0.05 * float(np.sum(np.asarray(v, dtype=float)))
    return f


class PassBinary(SurBinary):
    """binary backend for the un-trained pass-through: 2-3 precipitate phases, the signatures of
    BinaryThermodynamics, every argument (phase, removeCache, ...) changes the value"""
    def __init__(self, nprec=3):
        SurBinary.__init__(self, ('B1', 'B2', 'B3')[:nprec])

    def getDrivingForce(self, x, T, precPhase=None, removeCache=False, local_phase_sampling_conditions=None):
        ph = self.phases[1] if precPhase is None else precPhase
        return _scaled(SurBinary.getDrivingForce(self, x, T, ph), _argfactor(self.phases, ph, removeCache=removeCache, lpsc=local_phase_sampling_conditions))

    def getInterdiffusivity(self, x, T, removeCache=True, phase=None):
        ph = self.phases[0] if phase is None else phase
        return _scaled(SurBinary.getInterdiffusivity(self, x, T), _argfactor(self.phases, ph, removeCache=removeCache))

    def getTracerDiffusivity(self, x, T, removeCache=True, phase=None):
        ph = self.phases[0] if phase is None else phase
        return _scaled(SurBinary.getTracerDiffusivity(self, x, T), _argfactor(self.phases, ph, removeCache=removeCache))

    def getInterfacialComposition(self, T, gExtra=0, precPhase=None):
        ph = self.phases[1] if precPhase is None else precPhase
        return SurBinary.getInterfacialComposition(self, T, gExtra, ph)        # depends on the phase through P[ph]


class PassTernary(SurTernary):
    """ternary backend for the un-trained pass-through: 2-3 precipitate phases, the signatures of
    MulticomponentThermodynamics"""
    def __init__(self, nprec=3):
        SurTernary.__init__(self)
        self.phases = ['ALPHA'] + ['G1', 'G2', 'G3'][:nprec]

    def getDrivingForce(self, x, T, precPhase=None, removeCache=False, local_phase_sampling_conditions=None):
        ph = self.phases[1] if precPhase is None else precPhase
        return _scaled(SurTernary.getDrivingForce(self, x, T), _argfactor(self.phases, ph, removeCache=removeCache, lpsc=local_phase_sampling_conditions))

    def getInterdiffusivity(self, x, T, removeCache=True, phase=None):
        ph = self.phases[0] if phase is None else phase
        return _scaled(SurTernary.getInterdiffusivity(self, x, T), _argfactor(self.phases, ph, removeCache=removeCache))

    def getTracerDiffusivity(self, x, T, removeCache=True, phase=None):
        ph = self.phases[0] if phase is None else phase
        return _scaled(SurTernary.getTracerDiffusivity(self, x, T), _argfactor(self.phases, ph, removeCache=removeCache))

    def curvatureFactor(self, x, T, precPhase=None, removeCache=False, searchDir=None, computeSearchDir=False):
        ph = self.phases[1] if precPhase is None else precPhase
        return _scaled(SurTernary.curvatureFactor(self, x, T), _argfactor(self.phases, ph, removeCache=removeCache, searchDir=searchDir, computeSearchDir=computeSearchDir))

    def getGrowthAndInterfacialComposition(self, x, T, dG, R, gExtra, precPhase=None, removeCache=False, searchDir=None):
        ph = self.phases[1] if precPhase is None else precPhase
        return _scaled(SurTernary.getGrowthAndInterfacialComposition(self, x, T, dG, R, gExtra), _argfactor(self.phases, ph, removeCache=removeCache, searchDir=searchDir))

    def impingementFactor(self, x, T, precPhase=None, removeCache=False, searchDir=None):
        ph = self.phases[1] if precPhase is None else precPhase
        return _scaled(SurTernary.impingementFactor(self, x, T), _argfactor(self.phases, ph, removeCache=removeCache, searchDir=searchDir))


class Rec:
    """forwards to a backend and records every method call"""
    def __init__(self, inner):
        self._inner = inner
        self.calls = []

    def __getattr__(self, name):
        v = getattr(self._inner, name)
        if callable(v):
            def f(*a, **k):
                self.calls.append((name, a, dict(k)))
                return v(*a, **k)
            return f
        return v


class StubD:
    """interdiffusivity for SinglePhaseModel: scalar (binary) or matrix (ternary)"""
    def __init__(self, ne, base):
        self.ne, self.base = ne, base

    def clearCache(self):
        pass

    def getInterdiffusivity(self, x, T, phase=None):
        x = np.atleast_1d(x)
        if self.ne == 1:
            return self.base * (1 + float(x[0]))
        return self.base * np.array([[2 + x[0], -0.2], [0.1, 1.5 + x[1]]])


# ==========================================================================================
class Unobservable(Exception):
    """the oracle needs a private attribute that the code no longer has: the tie is broken, this is not a
    failing input of the implementation"""


def priv(obj, name):
    if not hasattr(obj, name):
        raise Unobservable('%s has no attribute %r any more (the oracle reads the recorded history through it)' % (type(obj).__name__, name))
    return getattr(obj, name)


def deq(a, b):
    """deep equality of results (tuples / namedtuples / arrays / None)"""
    if a is None or b is None:
        return a is None and b is None
    if isinstance(a, tuple) or isinstance(b, tuple):
        return isinstance(a, tuple) and isinstance(b, tuple) and len(a) == len(b) and all(deq(x, y) for x, y in zip(a, b))
    a, b = np.asarray(a), np.asarray(b)
    return a.shape == b.shape and bool(np.array_equal(a, b, equal_nan=(a.dtype.kind == 'f' and b.dtype.kind == 'f')))


def same(a, b):
    """value equality of two stored objects (a 0-d array equals the scalar it holds)"""
    if a is None or b is None:
        return a is None and b is None
    try:
        a, b = np.asarray(a), np.asarray(b)
        if a.dtype == object or b.dtype == object:
            return False
        return a.shape == b.shape and bool(np.array_equal(a, b, equal_nan=(a.dtype.kind == 'f' and b.dtype.kind == 'f')))
    except Exception:
        return False


def close_cols(got, ref, rtol=1e-6):
    """|got - ref| <= rtol * max|ref| (per call), shapes equal after squeeze"""
    got, ref = np.squeeze(np.asarray(got, dtype=float)), np.squeeze(np.asarray(ref, dtype=float))
    if got.shape != ref.shape:
        return False, 'shape %r vs %r' % (got.shape, ref.shape)
    if not np.all(np.isfinite(got)):
        return False, 'non-finite prediction'
    sc = float(np.max(np.abs(ref))) if ref.size else 0.0
    err = float(np.max(np.abs(got - ref))) if ref.size else 0.0
    return err <= rtol * sc + 1e-300, 'max error %.3g, scale %.3g' % (err, sc)


def quiet():
    return contextlib.redirect_stdout(io.StringIO())


def exc_name(e):
    return type(e).__name__ + ': ' + str(e)[:160]


# ==========================================================================================
# identifiers of array contents (for the in-Coq execution of the model)
class Ids:
    def __init__(self):
        self.tab = {}

    def get(self, v):
        if v is None:
            return None
        a = np.asarray(v)
        if a.dtype == object:
            key = ('obj', repr(v))
        else:
            try:
                key = (a.shape, np.ascontiguousarray(a, dtype=float).tobytes())
            except Exception:
                key = ('obj', repr(v))
        if key not in self.tab:
            self.tab[key] = len(self.tab) + 1
        return self.tab[key]


def vlit(i):
    return 'VNone' if i is None else 'VArr (%d)%%Z' % i


def flit(f):
    return 'FG "%s"' % f[1] if f[0] == 'G' else 'FP "%s" "%s"' % (f[1], f[2])


def statelit(st):
    return '[' + '; '.join('(%s, %s)' % (flit(f), vlit(i)) for f, i in st) + ']'


def strlist(xs):
    return '[' + '; '.join('"%s"' % x for x in xs) + ']'


def universe(m):
    """fields the generated lists mention (global, per phase)"""
    g, p = [], []

    def add(l, f):
        if f not in l:
            l.append(f)
    for (dst, ws, acts) in ((g, m['wg'], m['rg']), (p, m['wp'], m['rp'])):
        for k, src, cond in ws:
            for f in ([src[1]] if src[0] == 'field' else src[1]) + list(cond):
                add(dst, f)
        for a in acts:
            if a[0] in ('set', 'const'):
                add(dst, a[1])
            elif a[0] == 'derive':
                add(dst, a[1]); add(dst, a[3])
            elif a[0] == 'reset':
                for f in a[1] + a[2]:
                    add(dst, f)
    return g, p


def getpath(obj, path):
    for part in path.split('.'):
        if obj is None:
            return None
        obj = getattr(obj, part, None)
    return obj


def phase_value(m, f, i):
    if '.' in f:
        head, attr = f.split('.', 1)
        lst = getattr(m, head, None)
        return None if lst is None else getpath(lst[i], attr)
    lst = getattr(m, f, None)
    return None if lst is None else lst[i]


def snapshot(m, fg, fp, phases, ids, extra_g=()):
    st = []
    for f in list(fg) + [x for x in extra_g if x not in fg]:
        st.append((('G', f), ids.get(getpath(m, f))))
    for i, ph in enumerate(phases):
        for f in fp:
            st.append((('P', f, ph), ids.get(phase_value(m, f, i))))
    return st


# ==========================================================================================
# round trips
PREC_HIST = None     # filled from the object itself (every array of the history object)


def make_named_model(phases, names, x0, T, gamma, bins, adaptive):
    """as stubs.make_binary_model, but every precipitate has an output name of its own
    (PrecipitateParameters(name, phase=database name))"""
    from stubs import StubBinary
    from kawin.precipitation import PrecipitateModel, VolumeParameter
    from kawin.precipitation.PrecipitationParameters import PrecipitateParameters
    m = PrecipitateModel(precipitateParameters=[PrecipitateParameters(n, phase=p) for n, p in zip(names, phases)], elements=['B'])
    cmin, cmax, nb, minb, maxb = bins
    m.setPBMParameters(cMin=cmin, cMax=cmax, bins=nb, minBins=minb, maxBins=maxb, adaptive=adaptive)
    m.setInitialComposition(x0)
    with quiet():
        m.setTemperature(T)
    a = 0.4e-9
    m.setVolumeAlpha(a ** 3, VolumeParameter.ATOMIC_VOLUME, 4)
    for p in phases:
        m.setInterfacialEnergy(gamma, phase=p)
        m.setVolumeBeta(a ** 3, VolumeParameter.ATOMIC_VOLUME, 4, phase=p)
        m.setNucleationSite('dislocations', phase=p)
    m.setNucleationDensity(grainSize=1, dislocationDensity=1e15)
    m.setThermodynamics(StubBinary(list(phases)))
    return m


def build_prec(c):
    from stubs import make_binary_model
    from kawin.precipitation.coupling.Strength import StrengthModel
    if c.get('names') and list(c['names']) != list(c['phases']):
        m = make_named_model(list(c['phases']), list(c['names']), c['x0'], c['T'], c['gamma'], tuple(c['bins']), c['adaptive'])
    else:
        m = make_binary_model(phases=tuple(c['phases']), x0=c['x0'], T=c['T'], gamma=c['gamma'], bins=tuple(c['bins']), adaptive=c['adaptive'])
    if c['record'] in ('on', 'toggle'):
        m.setPSDrecording(True)
    sm = None
    if c.get('strength'):
        sm = StrengthModel()
        sm.setSolidSolutionStrength({'B': 1e8}, 1)
        m.addCouplingModel(sm)
    return m, sm


def solver_of(name):
    from kawin.solver import SolverType
    return SolverType.RK4 if name == 'rk4' else SolverType.EXPLICITEULER


def run_prec(c, py):
    """returns dict(err=..., stage=..., diffs=[(group, what)], corr=...)"""
    out = {'err': None, 'stage': None, 'diffs': [], 'corr': None, 'steps': 0}
    path = os.path.join(BUILD[0], 'rt_prec_%d' % c.get('idx', 0))
    ids = Ids()
    try:
        with quiet(), warnings.catch_warnings():
            warnings.simplefilter('ignore')
            m, sm = build_prec(c)
            for k, t in enumerate(c['times']):
                m.solve(t, solverType=solver_of(c['solver']))
                if c['record'] == 'toggle' and k == 0:
                    m.setPSDrecording(False)
            out['steps'] = int(m.pData.n)
    except Exception as e:
        out['err'], out['stage'] = exc_name(e), 'solve'
        return out
    phases = [str(p) for p in m.phases]
    fg, fp = universe(py['models']['prec'])
    extra = ['_isSetup', 'dTemp', 'iterationSinceTempChange']
    s = snapshot(m, fg, fp, phases, ids, extra)
    with quiet(), warnings.catch_warnings():
        warnings.simplefilter('ignore')
        m2, sm2 = build_prec(c)
        if c['record'] == 'toggle':
            m2.setPSDrecording(False)
    s0 = snapshot(m2, fg, fp, phases, ids, extra)
    corr = {'model': 'prec', 'phases': phases, 's': s, 's0': s0, 'ids': ids, 'file': path + '.npz', 'expect': None, 'aux': prec_aux(m, ids)}
    out['corr'] = corr
    try:
        m.save(path)
        out['stage'] = 'load'
        m2.load(path)
    except Exception as e:
        out['err'] = exc_name(e)
        out['stage'] = out['stage'] or 'save'
        return out
    corr['expect'] = snapshot(m2, fg, fp, phases, ids, extra)
    # ---- oracle: every array of the history object, the current state, the size distributions
    for name, v in vars(m.pData).items():
        if (isinstance(v, np.ndarray) and v.dtype.kind in 'fiub') or isinstance(v, (int, float, np.integer)):
            if not same(v, getattr(m2.pData, name, None)):
                out['diffs'].append(('history' if isinstance(v, np.ndarray) else 'current state', 'pData.' + name))
    for i, ph in enumerate(phases):
        A, B = m.PBM[i], m2.PBM[i]
        for a in ('PSD', 'PSDbounds', 'PSDsize', 'min', 'max', 'bins'):
            if not same(getattr(A, a), getattr(B, a, None)):
                out['diffs'].append(('size distribution', 'PBM[%s].%s' % (ph, a)))
        if not same(m.eqAspectRatio[i], m2.eqAspectRatio[i]):
            out['diffs'].append(('size distribution', 'eqAspectRatio[%s]' % ph))
        if c['record'] in ('on', 'toggle'):
            for a in ('_recordedTime', '_recordedBins', '_recordedPSD'):
                if not same(priv(A, a), getattr(B, a, None)):
                    out['diffs'].append(('recorded size distributions', 'PBM[%s].%s' % (ph, a)))
    # coupled strength model
    if sm is not None:
        sp = path + '_strength.npz'
        sm2 = type(sm)()
        ids2 = Ids()
        fgs, _ = universe(py['models']['strength'])
        ss = snapshot(sm, fgs, [], [], ids2)
        ss0 = snapshot(sm2, fgs, [], [], ids2)
        out['corr_strength'] = {'model': 'strength', 'phases': [], 's': ss, 's0': ss0, 'ids': ids2, 'file': sp, 'expect': None, 'aux': ([], [], [], ids2.get(True))}
        try:
            sm.save(sp)
            sm2.load(sp)
            out['corr_strength']['expect'] = snapshot(sm2, fgs, [], [], ids2)
            for a in ('rss', 'ls', 'solidStrength'):
                if not same(getattr(sm, a), getattr(sm2, a)):
                    out['diffs'].append(('strength history', 'StrengthModel.' + a))
            if sm.rss is None or len(sm.rss) != m.pData.n + 1:
                out['diffs'].append(('strength history', 'StrengthModel.rss has %r rows for %d steps' % (None if sm.rss is None else len(sm.rss), m.pData.n)))
        except Exception as e:
            out['strength_err'] = exc_name(e)
    return out


def prec_aux(m, ids):
    """graphs of the oracle functions of the model on the points that occur: int(), max(10 min, .), len-1,
    and the constructor defaults"""
    from kawin.precipitation.PopulationBalance import PopulationBalanceModel
    gint, gguard, glen, defaults = [], [], [], []
    for i, ph in enumerate(m.phases):
        P = m.PBM[i]
        gint.append((ids.get(P.bins), ids.get(int(float(P.bins)))))
        gguard.append((ids.get(P.min), ids.get(P.max), ids.get(np.amax([10 * float(P.min), float(P.max)]))))
        ref = PopulationBalanceModel(float(P.min), float(P.max), int(float(P.bins)))
        for a, v in vars(ref).items():
            defaults.append((('P', 'PBM.' + a, str(ph)), ids.get(v)))
    glen.append((ids.get(m.pData.time), ids.get(len(m.pData.time) - 1)))
    return gint, gguard, glen, ids.get(True), defaults


def build_diff(c):
    from kawin.diffusion import SinglePhaseModel
    ne = c['ne']
    els = ['A', 'B', 'CC'][:ne + 1]
    m = SinglePhaseModel([0, 1e-3], c['N'], els, ['P'], thermodynamics=StubD(ne, c['D']), record=(c['record'] in ('on', 'toggle')))
    m.setCompositionStep(0.1, 0.6 if ne == 1 else 0.3, 0.5e-3, 'B')
    if ne == 2:
        m.setCompositionLinear(0.2, 0.1, 'CC')
    m.setTemperature(1000.)
    return m


def run_diff(c, py):
    out = {'err': None, 'stage': None, 'diffs': [], 'corr': None, 'steps': 0}
    path = os.path.join(BUILD[0], 'rt_diff_%d' % c.get('idx', 0))
    ids = Ids()
    try:
        with quiet(), warnings.catch_warnings():
            warnings.simplefilter('ignore')
            m = build_diff(c)
            cnt = Rec(None)
            cnt.updateCoupledModel = lambda model: cnt.calls.append(1)
            m.addCouplingModel(cnt)
            for k, t in enumerate(c['times']):
                m.solve(t, solverType=solver_of(c['solver']))
                if c['record'] == 'toggle' and k == 0:
                    m.disableRecording()
            out['steps'] = len(cnt.calls)
    except Exception as e:
        out['err'], out['stage'] = exc_name(e), 'solve'
        return out
    fg, _ = universe(py['models']['diff'])
    extra = ['isSetup', '_record']
    s = snapshot(m, fg, [], [], ids, extra)
    with quiet():
        m2 = build_diff(c)
        if c['record'] == 'toggle':
            m2.disableRecording()
    s0 = snapshot(m2, fg, [], [], ids, extra)
    corr = {'model': 'diff', 'phases': [], 's': s, 's0': s0, 'ids': ids, 'file': path + '.npz', 'expect': None, 'aux': ([], [], [], ids.get(True), [])}
    out['corr'] = corr
    try:
        m.save(path)
        out['stage'] = 'load'
        m2.load(path)
    except Exception as e:
        out['err'] = exc_name(e)
        out['stage'] = out['stage'] or 'save'
        return out
    corr['expect'] = snapshot(m2, fg, [], [], ids, extra)
    if not same(m.t, m2.t):
        out['diffs'].append(('current state', 't'))
    if not same(m.x, m2.x):
        out['diffs'].append(('current state', 'x'))
    for a in ('_recordedX', '_recordedTime'):
        if not same(priv(m, a), getattr(m2, a, None)):
            out['diffs'].append(('recorded profiles', a))
    return out


def roundtrip_hits(c, r):
    site = 'PrecipitateModel' if c['kind'] == 'prec' else 'DiffusionModel'
    hits = []
    rec = {'on': 'recording enabled', 'off': 'recording disabled', 'toggle': 'recording switched off between solve calls'}[c['record']]
    if r['err']:
        if r['stage'] == 'solve':
            return []           # the run itself is other properties' subject
        hits.append(('load_succeeds', site, rec, '%s: %s of a model saved after %d solve call(s) with %s raised %s'
                     % (site, r['stage'], len(c['times']), rec, r['err'])))
    groups = {}
    for g, what in r['diffs']:
        groups.setdefault(g, []).append(what)
    for g, whats in groups.items():
        s2 = 'StrengthModel' if g == 'strength history' else site
        nm = (', precipitate output names %r for phases %r' % (c['names'], c['phases'])) if c.get('names') and list(c['names']) != list(c.get('phases', [])) else ''
        hits.append(('roundtrip_field', s2, g, '%s (%s, %d phase(s)%s, saved after %d solve call(s)): the loaded model differs from the saved one in %s'
                     % (s2, rec, len(c.get('phases', [])) or 1, nm, len(c['times']), ', '.join(whats[:6]))))
    if r.get('strength_err'):
        hits.append(('load_succeeds', 'StrengthModel', 'coupled strength model', 'StrengthModel save/load raised ' + r['strength_err']))
    return hits


# ==========================================================================================
# several files side by side
def model_digest(m, kind):
    """the arrays the property asks to be reproduced, as a list of (label, value)"""
    out = []
    if kind == 'diff':
        out += [('t', m.t), ('x', m.x), ('_recordedX', priv(m, '_recordedX')), ('_recordedTime', priv(m, '_recordedTime'))]
    else:
        for name, v in vars(m.pData).items():
            if (isinstance(v, np.ndarray) and v.dtype.kind in 'fiub') or isinstance(v, (int, float, np.integer)):
                out.append(('pData.' + name, v))
        for i, ph in enumerate(m.phases):
            for a in ('PSD', 'PSDbounds', 'PSDsize', 'min', 'max', 'bins'):
                out.append(('PBM[%s].%s' % (ph, a), getattr(m.PBM[i], a, None)))
    return out


def digest_diff(a, b):
    da, db = dict(a), dict(b)
    return [k for k in da if not same(da[k], db.get(k))]


def list_files(root):
    out = []
    for d, _, fs in os.walk(root):
        for f in fs:
            out.append(os.path.relpath(os.path.join(d, f), root).replace(os.sep, '/'))
    return sorted(out)


def run_files(c, py):
    """save several solved models one after the other under the given names (same directory tree), then load
    every name into a freshly constructed model of the configuration it was saved from"""
    root = os.path.join(BUILD[0], 'files_%d' % c.get('idx', 0))
    if os.path.isdir(root):
        shutil.rmtree(root)
    os.makedirs(root)
    out = {'hits': [], 'names_corr': None, 'stage': None}
    kind = c['model']
    site = 'GenericModel.save/load'
    build = (lambda sp: build_diff(sp)) if kind == 'diff' else (lambda sp: build_prec(sp)[0])
    saved = []
    try:
        with quiet(), warnings.catch_warnings():
            warnings.simplefilter('ignore')
            for name, sp in zip(c['names'], c['specs']):
                m = build(sp)
                for t in sp['times']:
                    m.solve(t, solverType=solver_of(sp['solver']))
                saved.append(m)
    except Exception as e:
        out['stage'] = 'solve'
        return out
    for name, m in zip(c['names'], saved):
        path = os.path.join(root, *name.split('/'))
        os.makedirs(os.path.dirname(path), exist_ok=True)
        try:
            m.save(path)
        except Exception as e:
            out['hits'].append(('load_succeeds', site, 'several files', 'save(%r) of model %d of %d raised %s' % (name, len(out['hits']) + 1, len(saved), exc_name(e))))
            return out
    files = list_files(root)
    out['names_corr'] = {'names': list(c['names']), 'files': files}
    digests = [model_digest(m, kind) for m in saved]
    for i in c.get('load_order', range(len(saved))):
        name, sp = c['names'][i], c['specs'][i]
        with quiet(), warnings.catch_warnings():
            warnings.simplefilter('ignore')
            m2 = build(sp)
        try:
            m2.load(os.path.join(root, *name.split('/')))
        except Exception as e:
            out['hits'].append(('load_succeeds', site, 'several files',
                                'after saving %d models under the names %r (files written: %r), load(%r) raised %s' % (len(saved), c['names'], files, name, exc_name(e))))
            continue
        dl = model_digest(m2, kind)
        bad = digest_diff(digests[i], dl)
        if bad:
            other = [c['names'][j] for j in range(len(saved)) if j != i and not digest_diff(digests[j], dl)]
            out['hits'].append(('files_independent', site, "another model's file" if other else 'several files',
                                'models saved under the names %r (files written: %r): the model loaded from %r differs from the model saved under that name in %s%s'
                                % (c['names'], files, name, ', '.join(bad[:5]), '; it reproduces the model saved under %r' % other[0] if other else '')))
    return out


def run_mhist(c, py):
    """histories on ONE model object and several model objects alive together:
    resave      solve, save(name), solve on, save(name) again           -> the file holds the LATER state
    reset       solve, save, reset(), solve again, save under name 2    -> file 2 holds the state after the second run
    interleaved two models solved alternately, segment by segment       -> each equals a twin that ran alone, and its file reproduces it"""
    root = os.path.join(BUILD[0], 'mhist_%d' % c.get('idx', 0))
    if os.path.isdir(root):
        shutil.rmtree(root)
    os.makedirs(root)
    kind, var = c['model'], c['variant']
    site = 'GenericModel.save/load'
    build = (lambda sp: build_diff(sp)) if kind == 'diff' else (lambda sp: build_prec(sp)[0])
    hits = []

    def solve(m, sp, t):
        with quiet(), warnings.catch_warnings():
            warnings.simplefilter('ignore')
            m.solve(t, solverType=solver_of(sp['solver']))

    def check_file(m, sp, name, label):
        with quiet(), warnings.catch_warnings():
            warnings.simplefilter('ignore')
            m2 = build(sp)
        try:
            m2.load(os.path.join(root, name))
        except Exception as e:
            hits.append(('load_succeeds', site, 'model object used again', '%s: load(%r) raised %s' % (label, name, exc_name(e))))
            return
        bad = digest_diff(model_digest(m, kind), model_digest(m2, kind))
        if bad:
            hits.append(('roundtrip_field', site, 'model object used again', '%s: the model loaded from %r differs from the saved one in %s' % (label, name, ', '.join(bad[:5]))))

    try:
        sps = c['specs']
        if var == 'resave':
            with quiet():
                m = build(sps[0])
            solve(m, sps[0], c['times'][0]); m.save(os.path.join(root, 'run'))
            solve(m, sps[0], c['times'][1]); m.save(os.path.join(root, 'run'))
            check_file(m, sps[0], 'run', 'solve, save, solve on, save again under the same name')
        elif var == 'reset':
            with quiet():
                m = build(sps[0])
            solve(m, sps[0], c['times'][0]); m.save(os.path.join(root, 'first'))
            with quiet():
                m.reset()
                if kind == 'prec' and sps[0]['record'] in ('on', 'toggle'):
                    m.setPSDrecording(True)
            solve(m, sps[0], c['times'][1]); m.save(os.path.join(root, 'second'))
            check_file(m, sps[0], 'second', 'solve, save, reset(), solve again, save')
        else:
            with quiet():
                ms = [build(sp) for sp in sps]
                twins = [build(sp) for sp in sps]
            for t in c['times']:
                for m, sp in zip(ms, sps):
                    solve(m, sp, t)
            for m, sp in zip(twins, sps):
                for t in c['times']:
                    solve(m, sp, t)
            for k, (m, tw, sp) in enumerate(zip(ms, twins, sps)):
                bad = digest_diff(model_digest(tw, kind), model_digest(m, kind))
                if bad:
                    hits.append(('objects_independent', 'GenericModel.solve', 'two objects alive together',
                                 'model %d of %d solved alternately with the others differs from the same model solved alone in %s' % (k, len(ms), ', '.join(bad[:5]))))
                m.save(os.path.join(root, 'model%d' % k))
            for k, (m, sp) in enumerate(zip(ms, sps)):
                check_file(m, sp, 'model%d' % k, 'models solved alternately, all saved, then loaded')
    except Unobservable:
        raise
    except Exception as e:
        return {'hits': [], 'stage': 'solve', 'err': exc_name(e)}
    return {'hits': hits, 'stage': None}


def gen_mhist(rng, idx, quick):
    var = ['resave', 'reset', 'interleaved'][idx % 3]
    kind = 'prec' if rng.random() < 0.25 else 'diff'
    n = 2 if var == 'interleaved' else 1
    specs = []
    for k in range(n):
        if kind == 'diff':
            specs.append({'ne': int(rng.choice([1, 2])), 'N': 12, 'record': str(rng.choice(['on', 'off'])), 'times': [], 'solver': 'euler', 'D': float([1e-13, 3e-13][k % 2])})
        else:
            specs.append({'phases': ['B1'], 'names': None, 'record': str(rng.choice(['on', 'off'])), 'times': [], 'solver': 'euler', 'strength': False, 'x0': 0.02,
                          'T': float([700., 690.][k % 2]), 'gamma': 0.15, 'bins': [1e-10, 1e-8, 75, 50, 100], 'adaptive': True})
    times = [2e4, 4e4] if kind == 'diff' else [1.0, 2.0]
    return {'kind': 'mhist', 'model': kind, 'variant': var, 'specs': specs, 'times': times}


NAME_FAMILIES = [
    ['NiCrAl_T1473.15', 'NiCrAl_T1473.65', 'NiCrAl_T1474.15'],      # decimals in the name
    ['run_v1.0', 'run_v1.1', 'run_v1.10', 'run_v2.0'],              # version numbers
    ['sweep', 'sweep.1', 'sweep.1.2', 'sweep.2'],                   # one name a prefix of the other
    ['out.dat', 'out.bak', 'out.npz', 'out'][:3],                   # foreign extensions, one with the suffix itself
    ['a.npz', 'b.npz', 'a.b', 'b.a.npz'],
    ['case.v1/out', 'case.v2/out', 'case.v2/out.1'],                # dots in directory names
    ['plain', 'plain_2', 'Plain'],
    ['x.npz.bak', 'x.npz.old', 'x.npy'],
]


def no_alias(names):
    """the names denote different files however a `.npz` suffix is handled"""
    for i, a in enumerate(names):
        for b in names[i + 1:]:
            if a == b or a == b + '.npz' or b == a + '.npz':
                return False
    return True


def gen_files(rng, idx, quick):
    fam = list(NAME_FAMILIES[idx % len(NAME_FAMILIES)])
    if rng.random() < 0.4:
        fam += [str(x) for x in rng.choice(NAME_FAMILIES[int(rng.integers(0, len(NAME_FAMILIES)))], 2, replace=False)]
    names = []
    for nme in fam:
        if nme not in names and no_alias(names + [nme]):
            names.append(nme)
    names = [names[i] for i in rng.permutation(len(names))][:int(rng.integers(2, 5))]
    kind = 'prec' if rng.random() < 0.2 else 'diff'
    specs = []
    for k in range(len(names)):
        if kind == 'diff':
            specs.append({'ne': 1, 'N': 12, 'record': 'on', 'times': [float(2e4 * (k + 1))] + ([4e4] if rng.random() < 0.3 else []), 'solver': 'euler',
                          'D': float([1e-13, 2e-13, 4e-13, 3e-13][k % 4])})
        else:
            specs.append({'phases': ['B1'], 'record': 'off', 'times': [float(0.5 * (k + 1))], 'solver': 'euler', 'strength': False, 'x0': 0.02,
                          'T': float([700., 690., 710., 695.][k % 4]), 'gamma': 0.15, 'bins': [1e-10, 1e-8, 75, 50, 100], 'adaptive': True})
    order = [int(i) for i in rng.permutation(len(names))]
    return {'kind': 'files', 'model': kind, 'names': names, 'specs': specs, 'load_order': order}


# ==========================================================================================
# surrogates
GETTERS = {
    'binary': ['getDrivingForce', 'getInterdiffusivity', 'getTracerDiffusivity', 'getInterfacialComposition'],
    'ternary': ['getDrivingForce', 'getInterdiffusivity', 'getTracerDiffusivity', 'curvatureFactor',
                'getGrowthAndInterfacialComposition', 'impingementFactor'],
}
SITE = {'getDrivingForce': 'GeneralSurrogate', 'getInterdiffusivity': 'GeneralSurrogate', 'getTracerDiffusivity': 'GeneralSurrogate',
        'getInterfacialComposition': 'BinarySurrogate', 'curvatureFactor': 'MulticomponentSurrogate',
        'getGrowthAndInterfacialComposition': 'MulticomponentSurrogate', 'impingementFactor': 'MulticomponentSurrogate'}


def make_surrogate(system, backend=None):
    from kawin.thermo.Surrogate import BinarySurrogate, MulticomponentSurrogate
    if system == 'binary':
        th = backend or SurBinary()
        return BinarySurrogate(th), th
    th = backend or SurTernary()
    return MulticomponentSurrogate(th), th


def train(s, system, q, g):
    """train quantity q of surrogate s on grid g (dict; g['phase'] = phase to train for, default phase if absent)"""
    pk = {} if g.get('phase') is None else ({'phase': g['phase']} if q == 'diffusivity' else {'precPhase': g['phase']})
    if q == 'drivingForce':
        s.trainDrivingForce(np.array(g['x']), np.array(g['T']) if len(g['T']) > 1 else g['T'][0], logX=g['log'], broadcast=g['broadcast'], **pk)
    elif q == 'diffusivity':
        s.trainDiffusivity(np.array(g['x']), np.array(g['T']) if len(g['T']) > 1 else g['T'][0], logX=g['log'], broadcast=g['broadcast'], **pk)
    elif q == 'interfacial':
        s.trainInterfacialComposition(np.array(g['T']) if len(g['T']) > 1 else g['T'][0], np.array(g['g']), logY=g['log'], broadcast=g['broadcast'], **pk)
    elif q == 'curvature':
        s.trainCurvature(np.array(g['x']), np.array(g['T']) if len(g['T']) > 1 else g['T'][0], logX=g['log'], broadcast=g['broadcast'], **pk)
    else:
        raise ValueError(q)


def grid_points(system, q, g):
    """the training points (list of argument tuples) that the documented grid semantics describe"""
    if q == 'interfacial':
        T, G = g['T'], g['g']
        pts = [(t, gg) for gg in G for t in T] if g['broadcast'] else list(zip(T, G))
        return pts
    X, T = g['x'], g['T']
    return [(x, t) for t in T for x in X] if g['broadcast'] else list(zip(X, T))


PHASE_PARAM = {'getDrivingForce': 'precPhase', 'getInterdiffusivity': 'phase', 'getTracerDiffusivity': 'phase',
               'getInterfacialComposition': 'precPhase', 'curvatureFactor': 'precPhase',
               'getGrowthAndInterfacialComposition': 'precPhase', 'impingementFactor': 'precPhase'}


def argeq(a, b):
    if isinstance(a, dict) or isinstance(b, dict):
        return isinstance(a, dict) and isinstance(b, dict) and a == b
    if isinstance(a, (str, bool)) or isinstance(b, (str, bool)) or a is None or b is None:
        return type(a) == type(b) and a == b
    return deq(a, b)


def argshow(v):
    if isinstance(v, np.ndarray):
        return np.array2string(v, precision=6, threshold=6)
    return repr(v)


def by_name(fn, args, kw, drop_self=False):
    """bind a call to a signature; returns ({parameter name: value} for what was actually passed - *args must be
    empty, **kwargs flattened -, the signature)"""
    import inspect
    sig = inspect.signature(fn)
    ba = sig.bind(*args, **kw)
    out = {}
    for name, v in ba.arguments.items():
        k = sig.parameters[name].kind
        if k == inspect.Parameter.VAR_POSITIONAL:
            if len(v):
                raise TypeError('unexpected extra positional arguments %r' % (v,))
        elif k == inspect.Parameter.VAR_KEYWORD:
            out.update(v)
        else:
            out[name] = v
    if drop_self:
        out.pop('self', None)
    return out, sig


def untrained_case(c):
    """un-trained getter on a backend with several precipitate phases behind a recording proxy: exactly one backend
    call, of the same-named method; every argument the backend received equals what the caller passed (parameters
    the caller left out: the backend's own default; a phase left out or None: the default phase); the value
    returned is identical to the value of a direct call of the backend with the caller's arguments"""
    import inspect
    system, meth = c['system'], c['method']
    nprec = int(c.get('nprec', 2))
    inner = PassBinary(nprec) if system == 'binary' else PassTernary(nprec)
    rec = Rec(inner)
    s, _ = make_surrogate(system, rec)
    for q, g in c.get('trained_others', []):
        train(s, system, q, g)
    rec.calls.clear()
    conv = lambda a: np.array(a, dtype=float) if isinstance(a, list) else a
    args = [conv(a) for a in c['args']]
    kw = {k: conv(v) for k, v in c.get('kwargs', {}).items()}
    site = SITE[meth] + '.' + meth
    call = '%s(%s)' % (meth, ', '.join([argshow(a) for a in args] + ['%s=%s' % (k, argshow(v)) for k, v in kw.items()]))
    # what the caller asks for: the surrogate's own parameter names give the positional arguments their meaning
    want, _ = by_name(getattr(type(s), meth), [s] + args, kw, drop_self=True)
    try:
        got = getattr(s, meth)(*args, **kw)
    except Exception as e:
        return [('fallthrough_identity', site, 'untrained raises', 'un-trained %s raised %s' % (call, exc_name(e)))]
    calls = list(rec.calls)
    names = [n for n, _, _ in calls]
    if names != [meth]:
        return [('fallthrough_identity', site, 'untrained', 'un-trained %s called the thermodynamics method(s) %r, expected exactly one call of %s'
                 % (call, names, meth))]
    bfn = getattr(inner, meth)
    try:
        recv, bsig = by_name(bfn, calls[0][1], calls[0][2])
    except TypeError as e:
        return [('fallthrough_identity', site, 'untrained arguments', 'un-trained %s: the thermodynamics method was called with arguments it cannot bind: %s' % (call, e))]
    # (a) arguments received vs arguments passed
    pp = PHASE_PARAM[meth]
    dflt_phase = inner.phases[0] if pp == 'phase' else inner.phases[1]
    bad = []
    for name, prm in bsig.parameters.items():
        if prm.kind in (inspect.Parameter.VAR_POSITIONAL, inspect.Parameter.VAR_KEYWORD):
            continue
        d = None if prm.default is inspect.Parameter.empty else prm.default
        e, r = want.get(name, d), recv.get(name, d)
        if name == pp:
            e = dflt_phase if e is None else e
            r = dflt_phase if r is None else r
        if not argeq(e, r):
            bad.append('%s: caller %s, thermodynamics received %s' % (name, argshow(want[name]) if name in want else '<left out: default %s>' % argshow(e),
                                                                       argshow(recv[name]) if name in recv else '<nothing: its default %s>' % argshow(r)))
    for name in want:
        if name not in bsig.parameters:
            bad.append('%s: passed by the caller, unknown to the thermodynamics method' % name)
    # (b) value returned vs value of the direct call with the caller's arguments
    try:
        exp = bfn(**{k: v for k, v in want.items() if k in bsig.parameters})
    except Exception as e:
        return [('no_internal_error', 'harness/c20.py', 'stub', 'stub backend raised %s for %s' % (exc_name(e), call))]
    hits = []
    if bad:
        hits.append(('fallthrough_identity', site, 'untrained arguments',
                     'un-trained %s on a system with precipitates %r: %s; it returned %s, the thermodynamics object returns %s for the caller\'s arguments'
                     % (call, inner.phases[1:], '; '.join(bad), short(got), short(exp))))
    elif not deq(got, exp):
        hits.append(('fallthrough_identity', site, 'untrained', 'un-trained %s returned %s, the thermodynamics object returns %s'
                     % (call, short(got), short(exp))))
    return hits


def short(v):
    if isinstance(v, tuple):
        return '(' + ', '.join(short(x) for x in v) + ')'
    return np.array2string(np.asarray(v, dtype=float), precision=6, threshold=6) if v is not None else 'None'


def trained_queries(system, q):
    return {'drivingForce': ['getDrivingForce'], 'diffusivity': ['getInterdiffusivity', 'getTracerDiffusivity'],
            'interfacial': ['getInterfacialComposition'],
            'curvature': ['curvatureFactor', 'getGrowthAndInterfacialComposition', 'impingementFactor']}[q]


def flat(v):
    """result -> flat float vector (tuples / namedtuples concatenated)"""
    if isinstance(v, tuple):
        return np.concatenate([flat(x) for x in v]) if len(v) else np.zeros(0)
    return np.ravel(np.asarray(v, dtype=float))


def trained_case(c):
    system, q, g = c['system'], c['quantity'], c['grid']
    s, th = make_surrogate(system)
    gridcls = '%s grid, %s%s' % ('broadcast' if g['broadcast'] else 'point-wise', 'log' if g['log'] else 'linear',
                                 ', %d T x %d g' % (len(g['T']), len(g['g'])) if q == 'interfacial' else '')
    trainer = {'drivingForce': 'trainDrivingForce', 'diffusivity': 'trainDiffusivity', 'interfacial': 'trainInterfacialComposition', 'curvature': 'trainCurvature'}[q]
    tsite = ('BinarySurrogate' if q == 'interfacial' else 'MulticomponentSurrogate' if q == 'curvature' else 'GeneralSurrogate') + '.' + trainer
    try:
        train(s, system, q, g)
    except Exception as e:
        cls = 'broadcast T x gExtra grid' if (q == 'interfacial' and g['broadcast'] and len(g['T']) > 1) else gridcls
        return [('trainable_grid', tsite, cls, '%s on a documented %s raised %s' % (trainer, gridcls, exc_name(e)))]
    pts = grid_points(system, q, g)
    hits = []
    for meth in trained_queries(system, q):
        site = SITE[meth] + '.' + meth
        bad = None
        # (a) every training point on its own, arguments in the documented scalar / (e,) form
        for p in pts:
            try:
                if q == 'interfacial':
                    ref = th.getInterfacialComposition(p[0], p[1])
                    if float(np.ravel(ref[0])[0]) <= 0:
                        continue          # not a training point (dropped by the trainer: unstable precipitate)
                    got = s.getInterfacialComposition(p[0], p[1])
                elif meth == 'getGrowthAndInterfacialComposition':
                    extra = (500.0, np.array([1e-9, 2e-9]), np.array([800., 400.]))
                    ref = th.getGrowthAndInterfacialComposition(p[0], p[1], *extra)
                    if ref is None:
                        continue
                    got = s.getGrowthAndInterfacialComposition(p[0], p[1], *extra)
                else:
                    ref = getattr(th, meth)(p[0], p[1])
                    if ref is None:
                        continue
                    got = getattr(s, meth)(p[0], p[1])
            except Exception as e:
                bad = ('raises', 'trained %s raised %s at its own training point %r (%s)' % (meth, exc_name(e), p, gridcls))
                break
            ok, why = close_cols(flat(got), flat(ref))
            if not ok:
                bad = ('value', 'trained %s at its own training point %r returns %s, training value %s (%s; %s)' % (meth, p, short(got), short(ref), why, gridcls))
                break
        # (b) all training points in one array call
        if bad is None and meth in ('getDrivingForce', 'getInterdiffusivity', 'getTracerDiffusivity', 'getInterfacialComposition') and len(pts) > 1:
            A = np.array([p[0] for p in pts])
            B = np.array([p[1] for p in pts])
            try:
                ref = getattr(th, meth)(A, B)
                got = getattr(s, meth)(A, B)
                if q == 'interfacial':
                    keep = np.asarray(ref[0]) > 0
                    ref = (np.asarray(ref[0])[keep], np.asarray(ref[1])[keep])
                    got = (np.asarray(got[0])[keep], np.asarray(got[1])[keep])
                ok, why = close_cols(flat(got), flat(ref))
                if not ok:
                    bad = ('value', 'trained %s evaluated on the array of its training points differs from the training data (%s; %s)' % (meth, why, gridcls))
            except Exception as e:
                bad = ('raises', 'trained %s raised %s on the array of its training points (%s)' % (meth, exc_name(e), gridcls))
        if bad:
            hits.append(('trained_reproduces', site, bad[0], bad[1]))
    return hits


def reload_case(c):
    system = c['system']
    s, th = make_surrogate(system)
    for q, g in c['train']:
        train(s, system, q, g)
    path = os.path.join(BUILD[0], 'surr_%d.json' % c.get('idx', 0))
    site = ('BinarySurrogate' if system == 'binary' else 'MulticomponentSurrogate') + '.fromJson'
    try:
        s.toJson(path)
        s2, _ = make_surrogate(system, th)
        s2.fromJson(path)
    except Exception as e:
        return [('reload_same_predictions', site, 'raises', 'toJson / fromJson raised %s (trained: %s)' % (exc_name(e), [q for q, _ in c['train']]))]
    hits = []
    for meth in GETTERS[system]:
        for a in c['queries'][meth]:
            args = [np.array(v) if isinstance(v, list) else v for v in a]
            try:
                r1 = getattr(s, meth)(*args)
            except Exception:
                continue           # the original's own failures are the subject of trained_reproduces
            try:
                r2 = getattr(s2, meth)(*args)
            except Exception as e:
                hits.append(('reload_same_predictions', site, 'raises', 'rebuilt surrogate: %s%r raised %s, the original returns a value' % (meth, tuple(a), exc_name(e))))
                break
            if (r1 is None) != (r2 is None):
                hits.append(('reload_same_predictions', site, 'value', 'rebuilt surrogate: %s%r is %s, original %s' % (meth, tuple(a), short(r2), short(r1))))
                break
            if r1 is None:
                continue
            f1, f2 = flat(r1), flat(r2)
            if f1.shape != f2.shape or not np.all(np.abs(f1 - f2) <= 1e-9 * np.maximum(np.abs(f1), np.abs(f2)) + 1e-300):
                hits.append(('reload_same_predictions', site, 'value', 'rebuilt surrogate: %s%r = %s, original %s' % (meth, tuple(a), short(r2), short(r1))))
                break
    return hits


# ==========================================================================================
# histories on ONE surrogate object, several objects alive together, calling conventions
def query_all(s, system, queries):
    """{(method, index): flat result or 'raises: ..'} for the given queries, in the given order"""
    out = {}
    for meth, a in queries:
        args = [np.array(v, dtype=float) if isinstance(v, list) else v for v in a]
        try:
            r = getattr(s, meth)(*args)
            out[(meth, json.dumps(a))] = None if r is None else flat(r)
        except Exception as e:
            out[(meth, json.dumps(a))] = 'raises ' + exc_name(e)
    return out


def cmp_results(ra, rb, rtol):
    """first key where two result dictionaries differ"""
    for k in ra:
        a, b = ra[k], rb.get(k)
        if isinstance(a, str) or isinstance(b, str) or a is None or b is None:
            if not ((isinstance(a, str) and isinstance(b, str)) or (a is None and b is None)):
                return k, a, b
            continue
        if a.shape != b.shape or not np.all(np.abs(a - b) <= rtol * np.maximum(np.abs(a), np.abs(b)) + 1e-300):
            return k, a, b
    return None


def history_case(c):
    """ONE surrogate object: train (first grids) -> queries -> train again (second grids) / fromJson of another
    surrogate's file -> the same queries, the one asked last coming first.  Afterwards the object must answer
    like a FRESH surrogate that was only ever given the final training (and like one rebuilt from its json file)."""
    system = c['system']
    s, th = make_surrogate(system)
    site = ('BinarySurrogate' if system == 'binary' else 'MulticomponentSurrogate')
    queries = [(m, a) for m, a in c['queries']]
    try:
        for q, g in c['first']:
            train(s, system, q, g)
        query_all(s, system, queries)
        if c['how'] == 'retrain':
            for q, g in c['second']:
                train(s, system, q, g)
        else:       # fromJson of a file written by another object that holds the second training
            other, _ = make_surrogate(system, th)
            for q, g in c['second']:
                train(other, system, q, g)
            path = os.path.join(BUILD[0], 'hist_%d.json' % c.get('idx', 0))
            other.toJson(path)
            s.fromJson(path)
        fresh, _ = make_surrogate(system, th)
        final = dict((q, g) for q, g in c['first']) if c['how'] == 'retrain' else {}
        final.update(dict((q, g) for q, g in c['second']))
        if c['how'] != 'retrain':
            # quantities only in the first training are dropped by fromJson? no: fromJson replaces the data dictionaries
            final = dict((q, g) for q, g in c['second'])
        for q, g in final.items():
            train(fresh, system, q, g)
    except Exception as e:
        return [('no_internal_error', 'harness/c20.py', 'history setup', 'setting up a surrogate history raised %s' % exc_name(e))]
    order = list(reversed(queries))             # the query asked last before comes first
    got = query_all(s, system, order)
    ref = query_all(fresh, system, order)
    hits = []
    d = cmp_results(ref, got, 1e-9)
    if d is not None:
        (meth, a), want, have = d[0], d[1], d[2]
        what = 'trained again' if c['how'] == 'retrain' else 'given new training data by fromJson'
        hits.append(('history_independent', site + '.' + meth, 'state kept from the earlier model',
                     'a surrogate that was trained (%s), queried, and then %s (%s) answers %s%s = %s; a fresh surrogate with the final training answers %s'
                     % ([q for q, _ in c['first']], what, [q for q, _ in c['second']], meth, a, short(have) if not isinstance(have, str) else have,
                        short(want) if not isinstance(want, str) else want)))
    return hits


def interleaved_case(c):
    """two surrogate objects alive together, trained and queried alternately, each compared with a copy that
    lived alone"""
    system = c['system']
    objs, alone = [], []
    try:
        for k in range(2):
            objs.append(make_surrogate(system)[0])
        steps = c['steps']                     # [(object index, 'train', q, g) | (object index, 'query')]
        for st in steps:
            if st[1] == 'train':
                train(objs[st[0]], system, st[2], st[3])
            else:
                query_all(objs[st[0]], system, c['queries'])
        for k in range(2):
            a = make_surrogate(system)[0]
            for st in steps:
                if st[0] == k and st[1] == 'train':
                    train(a, system, st[2], st[3])
            alone.append(a)
    except Exception as e:
        return [('no_internal_error', 'harness/c20.py', 'interleaved setup', 'setting up interleaved surrogates raised %s' % exc_name(e))]
    hits = []
    for k in range(2):
        d = cmp_results(query_all(alone[k], system, c['queries']), query_all(objs[k], system, c['queries']), 1e-9)
        if d is not None:
            hits.append(('objects_independent', 'Surrogate', 'two objects alive together',
                         'surrogate %d of two that were trained and queried alternately answers %s%s = %s, alone it answers %s'
                         % (k, d[0][0], d[0][1], d[2] if isinstance(d[2], str) else short(d[2]), d[1] if isinstance(d[1], str) else short(d[1]))))
            break
    return hits


FORMS = ['float', 'np.float64', '0-d array', 'list', 'tuple', '1-d array', 'int dtype']


def as_form(v, form):
    """a scalar value in one of the calling conventions (int dtype only for integral values)"""
    if form == 'float':
        return float(v)
    if form == 'np.float64':
        return np.float64(v)
    if form == '0-d array':
        return np.array(float(v))
    if form == 'list':
        return [float(v)]
    if form == 'tuple':
        return (float(v),)
    if form == '1-d array':
        return np.array([float(v)])
    if form == 'int dtype':
        return int(v) if float(v) == int(v) else float(v)
    raise ValueError(form)


def conventions_case(c):
    """one query of one getter (trained or not) with the scalar arguments given as Python float, numpy scalar,
    0-d array, list, tuple, 1-d array, integer: all must give the same numbers; argument objects are unchanged
    afterwards and are used again for a second call that must give the same result"""
    system, meth = c['system'], c['method']
    s, th = make_surrogate(system)
    try:
        for q, g in c.get('train', []):
            train(s, system, q, g)
    except Exception as e:
        return [('no_internal_error', 'harness/c20.py', 'conventions setup', 'training raised %s' % exc_name(e))]
    site = SITE[meth] + '.' + meth
    base = None
    hits = []
    for form in FORMS:
        args = []
        for v, scalar in zip(c['args'], c['scalar']):
            args.append(as_form(v, form) if scalar else (np.array(v, dtype=float) if isinstance(v, list) else v))
        keep = copy.deepcopy(args)
        try:
            r1 = getattr(s, meth)(*args)
            same_args = all(deq(np.asarray(a), np.asarray(b)) and type(a) == type(b) for a, b in zip(args, keep))
            r2 = getattr(s, meth)(*args)
        except Exception as e:
            if base is not None and not isinstance(base, str):
                hits.append(('calling_conventions', site, 'raises', '%s%s with the scalar arguments given as %s raised %s; as Python floats it returns a value'
                             % (meth, tuple(c['args']), form, exc_name(e))))
                break
            if base is None:
                base = 'raises'
            continue
        if not same_args:
            hits.append(('calling_conventions', site, 'argument modified', '%s modified an argument object given as %s: %r -> %r' % (meth, form, keep, args)))
            break
        f1 = None if r1 is None else flat(r1)
        f2 = None if r2 is None else flat(r2)
        if (f1 is None) != (f2 is None) or (f1 is not None and not deq(f1, f2)):
            hits.append(('calling_conventions', site, 'second call', '%s%s (%s) returns %s the first time and %s when the same argument objects are used again'
                         % (meth, tuple(c['args']), form, short(r1), short(r2))))
            break
        if base is None:
            base = f1 if f1 is not None else 'none'
            continue
        if isinstance(base, str):
            if (base == 'none') != (f1 is None):
                hits.append(('calling_conventions', site, 'value', '%s%s: None for one calling convention, a value for %s' % (meth, tuple(c['args']), form)))
                break
            continue
        if f1 is None or f1.shape != base.shape or not np.all(np.abs(f1 - base) <= 1e-9 * np.maximum(np.abs(f1), np.abs(base)) + 1e-300):
            hits.append(('calling_conventions', site, 'value', '%s%s: %s with the scalar arguments given as %s, %s as Python floats'
                         % (meth, tuple(c['args']), short(r1), form, np.array2string(base, precision=6, threshold=6))))
            break
    return hits


def gen_history(rng, idx):
    system = str(rng.choice(['binary', 'ternary'], p=[0.6, 0.4]))
    qs = ['drivingForce', 'diffusivity', 'interfacial'] if system == 'binary' else ['drivingForce', 'diffusivity', 'curvature']
    q = qs[idx % len(qs)]
    g1 = gen_grid(rng, system, q)
    if q == 'interfacial' and g1['broadcast']:
        g1['T'] = g1['T'][:1]
    # second training with the same input transform: a refined / shifted grid, or (single-valued temperature) another temperature
    g2 = copy.deepcopy(g1)
    if 'T' in g2 and len(g2['T']) == 1:
        g2['T'] = [g2['T'][0] + float(rng.choice([40.0, 75.0]))]
    elif g2.get('broadcast') and 'T' in g2 and q != 'interfacial':
        g2['T'] = sorted(g2['T'] + [float(np.mean(g2['T'])) + 7.0])
    else:
        for key in ('x', 'g'):
            if key in g2:
                g2[key] = (np.array(g2[key]) * 1.07).tolist()
    meths = {'drivingForce': ['getDrivingForce'], 'diffusivity': ['getInterdiffusivity', 'getTracerDiffusivity'],
             'interfacial': ['getInterfacialComposition'], 'curvature': ['curvatureFactor', 'impingementFactor']}[q]
    # queries: training points of the second grid (scalar form) and a random point
    pts = grid_points(system, q, g2)
    queries = []
    for mth in meths:
        for pt in [pts[int(rng.integers(0, len(pts)))], pts[0]]:
            queries.append([mth, [pt[0], pt[1]]])
    how = 'retrain' if rng.random() < 0.65 else 'fromJson'
    first = [[q, g1]]
    if rng.random() < 0.3:
        q0 = str(rng.choice([x for x in qs if x != q]))
        g0 = gen_grid(rng, system, q0)
        if q0 == 'interfacial' and g0['broadcast']:
            g0['T'] = g0['T'][:1]
        first.append([q0, g0])
    return {'kind': 'history', 'system': system, 'first': first, 'second': [[q, g2]], 'how': how, 'queries': queries}


def gen_interleaved(rng, idx):
    system = str(rng.choice(['binary', 'ternary']))
    qs = ['drivingForce', 'diffusivity', 'interfacial'] if system == 'binary' else ['drivingForce', 'diffusivity', 'curvature']
    steps = []
    for k in range(2):
        for q in rng.choice(qs, 2, replace=False):
            g = gen_grid(rng, system, str(q))
            if q == 'interfacial' and g['broadcast']:
                g['T'] = g['T'][:1]
            steps.append([k, 'train', str(q), g])
        steps.append([k, 'query'])
    order = [int(i) for i in rng.permutation(len(steps))]
    # keep each object's own order, interleave the two
    a = [st for st in steps if st[0] == 0]
    b = [st for st in steps if st[0] == 1]
    mixed = []
    while a or b:
        src = a if (a and (not b or rng.random() < 0.5)) else b
        mixed.append(src.pop(0))
    queries = [[m, gen_args(rng, system, m)] for m in GETTERS[system] for _ in range(2)]
    return {'kind': 'interleaved', 'system': system, 'steps': mixed, 'queries': queries}


def gen_conventions(rng, idx):
    system = str(rng.choice(['binary', 'ternary']))
    meth = GETTERS[system][idx % len(GETTERS[system])]
    trained = bool(rng.random() < 0.6)
    c = {'kind': 'conventions', 'system': system, 'method': meth}
    Tint = float(rng.integers(660, 750)) if system == 'binary' else float(rng.integers(1010, 1140))
    if system == 'binary':
        if meth == 'getInterfacialComposition':
            c['args'], c['scalar'] = [Tint, float(rng.integers(100, 2000))], [True, True]
        else:
            c['args'], c['scalar'] = [float(10 ** rng.uniform(-3, -1.5)), Tint], [True, True]
    else:
        x = [float(v) for v in rng.uniform(0.03, 0.2, 2)]
        if meth == 'getGrowthAndInterfacialComposition':
            c['args'], c['scalar'] = [x, Tint, float(rng.integers(100, 900)), 2e-9, 600.0], [False, True, True, True, True]
        else:
            c['args'], c['scalar'] = [x, Tint], [False, True]
    if trained:
        q = OWN_QUANTITY[meth]
        g = gen_grid(rng, system, q)
        if q == 'interfacial' and g['broadcast']:
            g['T'] = g['T'][:1]
        c['train'] = [[q, g]]
    return c


# ==========================================================================================
# generators
def gen_grid(rng, system, q):
    log = bool(rng.random() < 0.5)
    broadcast = bool(rng.random() < 0.6)
    if q == 'interfacial':
        nT = int(rng.choice([1, 1, 2, 3])) if broadcast else 0
        if broadcast:
            T = sorted(float(v) for v in rng.uniform(650, 760, nT))
            G = sorted(float(v) for v in rng.uniform(50, 2500, int(rng.integers(4, 7))))
        else:
            n = int(rng.integers(5, 8))
            T = [float(v) for v in np.linspace(650, 750, n) + rng.uniform(-3, 3, n)]
            G = [float(v) for v in rng.uniform(50, 2500, n)]
        return {'T': T, 'g': G, 'log': log, 'broadcast': broadcast}
    if system == 'binary':
        if broadcast:
            nx, nT = (int(rng.integers(4, 7)), int(rng.choice([1, 2, 3]))) if rng.random() < 0.8 else (1, int(rng.integers(4, 7)))
            X = [float(v) for v in np.sort(10 ** rng.uniform(-3, -1.3, nx))]
            T = [float(v) for v in np.sort(rng.uniform(650, 760, nT))]
        else:
            n = int(rng.integers(6, 10))
            X = [float(v) for v in 10 ** rng.uniform(-3, -1.3, n)]
            T = [float(v) for v in np.linspace(650, 750, n) + rng.uniform(-3, 3, n)]
        return {'x': X, 'T': T, 'log': log, 'broadcast': broadcast}
    # ternary
    if broadcast:
        xs = np.sort(rng.uniform(0.03, 0.2, 3))
        ys = np.sort(rng.uniform(0.03, 0.2, 2 + int(rng.integers(0, 2))))
        X = [[float(a), float(b)] for a in xs for b in ys]
        T = [float(v) for v in np.sort(rng.uniform(1000, 1150, int(rng.choice([1, 2]))))]
    else:
        n = int(rng.integers(8, 12))
        X = [[float(a), float(b)] for a, b in rng.uniform(0.03, 0.2, (n, 2))]
        T = [float(v) for v in np.linspace(1000, 1150, n) + rng.uniform(-5, 5, n)]
    return {'x': X, 'T': T, 'log': log, 'broadcast': broadcast}


def gen_args(rng, system, meth):
    """arguments in the documented forms: scalars, (N,) arrays, (e,) and (N,e) arrays"""
    arr = bool(rng.random() < 0.4)
    n = int(rng.integers(2, 4))
    if system == 'binary':
        x = [float(v) for v in 10 ** rng.uniform(-3, -1.5, n)] if arr else float(10 ** rng.uniform(-3, -1.5))
        T = [float(v) for v in rng.uniform(650, 760, n)] if arr else float(rng.uniform(650, 760))
        if meth == 'getInterfacialComposition':
            g = [float(v) for v in rng.uniform(50, 2500, n)] if arr else float(rng.uniform(50, 2500))
            return [T, g]
        return [x, T]
    x = [[float(a), float(b)] for a, b in rng.uniform(0.03, 0.2, (n, 2))] if (arr and meth in ('getDrivingForce', 'getInterdiffusivity', 'getTracerDiffusivity')) \
        else [float(v) for v in rng.uniform(0.03, 0.2, 2)]
    T = [float(v) for v in rng.uniform(1000, 1150, n)] if isinstance(x[0], list) else float(rng.uniform(1000, 1150))
    if meth == 'getGrowthAndInterfacialComposition':
        return [x, T, float(rng.uniform(100, 900)), [1e-9, 3e-9], [900.0, 300.0]]
    return [x, T]


OPTIONAL = {   # optional arguments of the thermodynamics methods (besides the phase), passed by keyword
    'getDrivingForce': ['removeCache', 'local_phase_sampling_conditions'],
    'getInterdiffusivity': ['removeCache'], 'getTracerDiffusivity': ['removeCache'],
    'getInterfacialComposition': [],          # gExtra is handled with the positional arguments
    'curvatureFactor': ['removeCache', 'searchDir', 'computeSearchDir'],
    'getGrowthAndInterfacialComposition': ['removeCache', 'searchDir'],
    'impingementFactor': ['removeCache', 'searchDir'],
}
OWN_QUANTITY = {'getDrivingForce': 'drivingForce', 'getInterdiffusivity': 'diffusivity', 'getTracerDiffusivity': 'diffusivity',
                'getInterfacialComposition': 'interfacial', 'curvatureFactor': 'curvature',
                'getGrowthAndInterfacialComposition': 'curvature', 'impingementFactor': 'curvature'}


def gen_untrained_one(rng, system, meth, nprec, phase, mode):
    """one un-trained call: `phase` (None = the default one) passed by `mode` in ('omitted', 'positional', 'keyword')"""
    args = gen_args(rng, system, meth)
    kw = {}
    pp = PHASE_PARAM[meth]
    if meth == 'getInterfacialComposition':
        gmode = 'positional' if mode == 'positional' else str(rng.choice(['positional', 'keyword', 'omitted']))
        g = args.pop()
        if gmode == 'positional':
            args.append(g)
        elif gmode == 'keyword':
            kw['gExtra'] = g
    if mode == 'positional':
        args.append(phase)
    elif mode == 'keyword':
        kw[pp] = phase
    for o in OPTIONAL[meth]:
        if rng.random() < 0.5:
            if o in ('removeCache', 'computeSearchDir'):
                kw[o] = bool(rng.random() < 0.5)
            elif o == 'searchDir':
                kw[o] = [float(v) for v in rng.uniform(0.1, 1.0, 2)]
            else:
                kw[o] = {'points': float(rng.integers(2, 9))}
    c = {'kind': 'untrained', 'system': system, 'nprec': nprec, 'method': meth, 'args': args, 'kwargs': kw}
    r = rng.random()
    if r < 0.3:
        qs = ['drivingForce', 'diffusivity', 'interfacial'] if system == 'binary' else ['drivingForce', 'diffusivity', 'curvature']
        own = OWN_QUANTITY[meth]
        dflt = 'ALPHA' if own == 'diffusivity' else {'binary': 'B1', 'ternary': 'G1'}[system]
        if r < 0.12 and phase is not None and phase != dflt:
            q = own                    # the same quantity trained, but for ANOTHER phase: this phase must still pass through
        else:
            q = str(rng.choice([x for x in qs if x != own]))
        g = gen_grid(rng, system, q)
        if q == 'interfacial' and g['broadcast']:
            g['T'] = g['T'][:1]
        c['trained_others'] = [[q, g]]
    return c


def gen_untrained(rng, reps):
    """systematic: every getter x every phase x (phase left out / positional / keyword), `reps` random argument sets each"""
    out = []
    k = 0
    for system in ('binary', 'ternary'):
        for meth in GETTERS[system]:
            k += 1
            for rep in range(reps):
                nprec = 3 if (k + rep) % 2 == 0 else 2
                precs = (['B1', 'B2', 'B3'] if system == 'binary' else ['G1', 'G2', 'G3'])[:nprec]
                cands = (['ALPHA'] + precs) if PHASE_PARAM[meth] == 'phase' else precs
                combos = [(None, 'omitted'), (None, 'keyword')] + [(ph, m) for ph in cands for m in ('positional', 'keyword')]
                for ph, m in combos:
                    out.append(gen_untrained_one(rng, system, meth, nprec, ph, m))
    return out


def gen_trained(rng, idx):
    system = str(rng.choice(['binary', 'ternary'], p=[0.6, 0.4]))
    q = str(rng.choice(['drivingForce', 'diffusivity', 'interfacial'] if system == 'binary' else ['drivingForce', 'diffusivity', 'curvature']))
    return {'kind': 'trained', 'system': system, 'quantity': q, 'grid': gen_grid(rng, system, q)}


def gen_reload(rng, idx):
    system = str(rng.choice(['binary', 'ternary']))
    qs = ['drivingForce', 'diffusivity', 'interfacial'] if system == 'binary' else ['drivingForce', 'diffusivity', 'curvature']
    k = int(rng.integers(1, len(qs) + 1))
    chosen = [str(q) for q in rng.choice(qs, k, replace=False)]
    tr_ = []
    for q in chosen:
        g = gen_grid(rng, system, q)
        if q == 'interfacial' and g['broadcast']:
            g['T'] = g['T'][:1]
        tr_.append([q, g])
    queries = {m: [gen_args(rng, system, m) for _ in range(2)] for m in GETTERS[system]}
    # the trained diffusivity getters need the documented 2-D form on trees where the scalar form raises:
    # both forms are queried
    return {'kind': 'reload', 'system': system, 'train': tr_, 'queries': queries}


def gen_prec(rng, idx, quick):
    nph = int(rng.choice([1, 2, 3], p=[0.5, 0.3, 0.2]))
    solver = 'rk4' if rng.random() < 0.1 else 'euler'
    nseg = int(rng.choice([1, 2, 3], p=[0.35, 0.45, 0.2]))
    if solver == 'rk4':
        times = [float(rng.choice([0.2, 0.5])) for _ in range(nseg)]
    else:
        times = [float(rng.choice([1.0, 3.0, 8.0, 15.0])) for _ in range(nseg)]
    names = None
    if rng.random() < 0.4:          # output names of their own (also one that is another precipitate's database name)
        names = [['Beta one (L12)', 'B1', 'theta-prime'], ['B2', 'B1', 'B3 (metastable)'], ['p.1', 'p.2', 'p.3']][int(rng.integers(0, 3))][:nph]
        if nph == 1 and names == ['B1']:
            names = ['beta']
    return {'kind': 'prec', 'phases': ['B1', 'B2', 'B3'][:nph], 'names': names, 'record': str(rng.choice(['on', 'off', 'toggle'], p=[0.45, 0.4, 0.15])),
            'times': times, 'solver': solver, 'strength': bool(rng.random() < 0.35), 'x0': float(rng.choice([2e-2, 1.5e-2])),
            'T': float(rng.choice([700., 680.])), 'gamma': float(rng.choice([0.15, 0.13])),
            'bins': [1e-10, 1e-8, int(rng.choice([75, 40])), 50 if rng.random() < 0.7 else 30, 100], 'adaptive': bool(rng.random() < 0.85)}


def gen_diff(rng, idx, quick):
    nseg = int(rng.choice([1, 2, 3]))
    return {'kind': 'diff', 'ne': int(rng.choice([1, 2])), 'N': int(rng.choice([10, 20, 31])), 'record': str(rng.choice(['on', 'off', 'toggle'], p=[0.4, 0.45, 0.15])),
            'times': [float(rng.choice([2e4, 6e4, 1.5e5])) for _ in range(nseg)], 'solver': str(rng.choice(['euler', 'rk4'])), 'D': float(rng.choice([1e-13, 4e-13]))}


# ==========================================================================================
def evaluate_case(c, py):
    """returns (hits [(clause, site, cls, msg)], result dict or None)"""
    k = c['kind']
    with warnings.catch_warnings():
        warnings.simplefilter('ignore')
        if k == 'prec':
            r = run_prec(c, py)
            return roundtrip_hits(c, r), r
        if k == 'diff':
            r = run_diff(c, py)
            return roundtrip_hits(c, r), r
        if k == 'files':
            r = run_files(c, py)
            return list(r['hits']), r
        if k == 'mhist':
            r = run_mhist(c, py)
            return list(r['hits']), r
        if k == 'history':
            return history_case(c), None
        if k == 'interleaved':
            return interleaved_case(c), None
        if k == 'conventions':
            return conventions_case(c), None
        if k == 'untrained':
            return untrained_case(c), None
        if k == 'trained':
            return trained_case(c), None
        if k == 'reload':
            return reload_case(c), None
    raise ValueError('unknown case kind %r' % k)


def shrinks(c):
    k = c['kind']
    if k in ('prec', 'diff'):
        if len(c['times']) > 1:
            d = dict(c); d['times'] = c['times'][:1]; yield d
        if k == 'prec' and len(c['phases']) > 1:
            d = dict(c); d['phases'] = c['phases'][:1]; d['times'] = c['times'][:1]
            if c.get('names'):
                d['names'] = c['names'][:1] if c['names'][:1] != c['phases'][:1] else ['beta']
            yield d
        if k == 'prec' and c.get('names'):
            d = dict(c); d['names'] = None; yield d
        if k == 'prec' and c.get('strength'):
            d = dict(c); d['strength'] = False; yield d
        if c['solver'] != 'euler':
            d = dict(c); d['solver'] = 'euler'; d['times'] = [3.0] if k == 'prec' else [6e4]; yield d
    if k == 'untrained':
        if c.get('trained_others'):
            d = dict(c); d.pop('trained_others', None); yield d
        for key in list(c.get('kwargs', {})):
            d = dict(c); d['kwargs'] = {a: b for a, b in c['kwargs'].items() if a != key}; yield d
        if isinstance(c['args'][0], list) and c['args'][0] and isinstance(c['args'][0][0], list):
            d = dict(c); d['args'] = [c['args'][0][0], c['args'][1][0] if isinstance(c['args'][1], list) else c['args'][1]] + list(c['args'][2:]); yield d
    if k == 'files' and len(c['names']) > 2:
        n = len(c['names'])
        for i in range(n):
            for j in range(i + 1, n):
                d = dict(c); d['names'] = [c['names'][i], c['names'][j]]; d['specs'] = [c['specs'][i], c['specs'][j]]; d['load_order'] = [0, 1]
                yield d
    if k == 'history':
        if len(c['first']) > 1:
            d = dict(c); d['first'] = [x for x in c['first'] if x[0] == c['second'][0][0]] or c['first'][:1]; yield d
        for i in range(len(c['queries'])):
            if len(c['queries']) > 1:
                d = dict(c); d['queries'] = [c['queries'][i]]; yield d
    if k == 'reload':
        for i in range(len(c['train'])):
            if len(c['train']) > 1:
                d = dict(c); d['train'] = [c['train'][i]]; yield d
    if k == 'trained':
        g = c['grid']
        if g.get('log'):
            d = copy.deepcopy(c); d['grid']['log'] = False; yield d


def minimise(c, clause, site, cls, py):
    cur = c
    for _ in range(4):
        changed = False
        for d in shrinks(cur):
            try:
                hs, _ = evaluate_case(d, py)
            except Exception:
                continue
            if any(h[0] == clause and h[1] == site and h[2] == cls for h in hs):
                cur, changed = d, True
                break
        if not changed:
            break
    return cur


def corpus_cases():
    out = []
    p = os.path.join(VERIF, 'corpus', 'C20')
    if os.path.isdir(p):
        for f in sorted(os.listdir(p)):
            if f.endswith('.json'):
                c = json.load(open(os.path.join(p, f)))
                c = c.get('input', c)
                c['from_corpus'] = f
                out.append(c)
    return out


# ==========================================================================================
def regenerate(ctx):
    try:
        texts, py, info = tr.translate(REPO)
    except tr.TranslationError as e:
        return False, 'translator: ' + str(e), None
    except Exception as e:
        return False, 'translator failed unexpectedly: %s: %s' % (type(e).__name__, e), None
    for name, text in texts.items():
        path = os.path.join(ctx.build, name)
        open(path, 'w').write(text)
        ok, out = ctx.coqc(path)
        if not ok:
            return False, 'generated file %s does not compile: %s' % (name, out[-500:]), py
    return True, info, py


def identity_check():
    """the functions that run are the ones that were translated"""
    import kawin.thermo.Surrogate as S
    from kawin.precipitation import PrecipitateModel
    from kawin.precipitation.PrecipitationParameters import PrecipitationData
    from kawin.precipitation.KWNBase import PrecipitateBase
    from kawin.diffusion.Diffusion import DiffusionModel
    from kawin.GenericModel import GenericModel
    from kawin.precipitation.coupling.Strength import StrengthModel
    from kawin.precipitation.PopulationBalance import PopulationBalanceModel
    probs = []
    want = {PrecipitationData: ('kawin/precipitation/PrecipitationParameters.py', ['toDict', 'fromDict']),
            PrecipitateBase: ('kawin/precipitation/KWNBase.py', ['toDict', 'fromDict']),
            PrecipitateModel: ('kawin/precipitation/KWNEuler.py', ['toDict', 'fromDict']),
            DiffusionModel: ('kawin/diffusion/Diffusion.py', ['toDict', 'fromDict']),
            GenericModel: ('kawin/GenericModel.py', ['save', 'load']),
            StrengthModel: ('kawin/precipitation/coupling/Strength.py', ['save', 'load']),
            PopulationBalanceModel: ('kawin/precipitation/PopulationBalance.py', ['__init__', 'reset'])}
    for cls, (rel, ms) in want.items():
        for mname in ms:
            fn = cls.__dict__.get(mname)
            if fn is None:
                probs.append('%s.%s is not defined in the class that was translated' % (cls.__name__, mname))
                continue
            fn = getattr(fn, '__func__', fn)
            if os.path.realpath(fn.__code__.co_filename) != os.path.realpath(os.path.join(REPO, rel)):
                probs.append('%s.%s is loaded from %s' % (cls.__name__, mname, fn.__code__.co_filename))
    if os.path.realpath(S.__file__) != os.path.realpath(os.path.join(REPO, 'kawin/thermo/Surrogate.py')):
        probs.append('Surrogate module loaded from %s' % S.__file__)
    from kawin.diffusion import SinglePhaseModel
    for cls in (PrecipitateModel, SinglePhaseModel):
        if cls.save is not GenericModel.save or cls.load is not GenericModel.load:
            probs.append('%s overrides save / load' % cls.__name__)
    if 'toDict' in SinglePhaseModel.__dict__ or 'fromDict' in SinglePhaseModel.__dict__:
        probs.append('SinglePhaseModel overrides toDict / fromDict')
    return probs


def corr_terms(corr):
    gn = corr['model']
    names = 'gen_%s_wg gen_%s_wp gen_%s_rg gen_%s_rp' % (gn, gn, gn, gn)
    aux = corr['aux']
    gint, gguard, glen, ctrue = aux[0], aux[1], aux[2], aux[3]
    defaults = aux[4] if len(aux) > 4 else []
    z = lambda i: '(%d)%%Z' % (i if i is not None else -7)
    t1 = 'check20 %s %s %s %s %s %s [%s] [%s] [%s] %s' % (
        names, strlist(corr['phases']), statelit(corr['s']), statelit(corr['s0']),
        statelit(corr['expect'] if corr['expect'] is not None else []), statelit(defaults),
        '; '.join('(%s, %s)' % (z(a), z(b)) for a, b in gint),
        '; '.join('(%s, %s, %s)' % (z(a), z(b), z(c_)) for a, b, c_ in gguard),
        '; '.join('(%s, %s)' % (z(a), z(b)) for a, b in glen), z(ctrue))
    try:
        with np.load(corr['file']) as f:
            keys = list(f.files)
    except Exception:
        keys = None
    t2 = 'keys_agree gen_%s_wg gen_%s_wp %s %s %s' % (gn, gn, strlist(corr['phases']), statelit(corr['s']), strlist(keys or []))
    return t1, t2, keys is not None


def correspondence(ctx, corrs):
    """execute the generated model inside Coq on the states of the real round trips"""
    shutil.copy(os.path.join(COQ, 'C20', 'Corr.v'), os.path.join(ctx.build, 'CorrCheck.v'))
    terms, meta = [], []
    nterms, nmeta = [], []
    for c, corr in corrs:
        if corr['model'] == 'names':
            nterms.append('names_agree gen_save_name %s %s' % (strlist(corr['names']), strlist(corr['files'])))
            nmeta.append((c, corr))
            continue
        t1, t2, haskeys = corr_terms(corr)
        terms += [t1, t2]
        meta.append((c, corr, haskeys))
    dis = []
    if nterms:
        for (c, corr), ok in zip(nmeta, ctx.coq_eval('corrnames', HEADER, nterms, shard=max(4, len(nterms)))):
            ctx.cov['traces_validated_against_impl'] += 1
            if not ok:
                dis.append((c, 'save was given the names %r and wrote the files %r; the generated file-name function predicts other files' % (corr['names'], corr['files'])))
    if not terms:
        return dis
    res = ctx.coq_eval('corr', HEADER, terms, shard=max(2, 2 * (-(-len(meta) // 12))))
    for k, (c, corr, haskeys) in enumerate(meta):
        verdict, keys_ok = res[2 * k], res[2 * k + 1]
        impl_failed = corr['expect'] is None
        if verdict is None:
            if not impl_failed:
                dis.append((c, 'the generated model says save/load of this state fails (a stored value is None or a key is missing); kawin loaded the file'))
        else:
            if impl_failed:
                dis.append((c, 'kawin failed to save/load this state; the generated model predicts a successful load'))
            else:
                idx = verdict[1]
                if idx:
                    fields = [flit(corr['expect'][i][0]) for i in idx[:6]]
                    dis.append((c, 'loaded object differs from the generated model\'s prediction in %s' % ', '.join(fields)))
        if haskeys and not keys_ok:
            dis.append((c, 'keys in the file differ from the keys the generated writer produces'))
        ctx.cov['traces_validated_against_impl'] += 1
    return dis


# ==========================================================================================
def explore(ctx, cases, py):
    hits, corrs = [], []
    for c in cases:
        try:
            hs, r = evaluate_case(c, py)
        except Unobservable as e:
            hs, r = [], None
            ctx.violation('observation', {'site': 'harness/c20.py', 'cls': 'private attribute gone'},
                          {'broken': {'oracle': str(e)}},
                          'tie broken: %s; nothing can be said about this clause from outside' % e, no_input=True)
        except Exception as e:
            hs, r = [('no_internal_error', 'harness/c20.py', 'exception', 'evaluating a %s case raised %s' % (c['kind'], exc_name(e)))], None
        key = {k: v for k, v in c.items() if k not in ('idx', 'from_corpus')}
        ctx.count(key, True)
        ctx.hist('kind', c['kind'] + (':corpus' if c.get('from_corpus') else ''))
        if c['kind'] in ('prec', 'diff'):
            ctx.hist('recording', c['kind'] + '/' + c['record'])
            ctx.hist('solve calls before save', len(c['times']))
            if c['kind'] == 'prec':
                ctx.hist('phases', len(c['phases']))
                ctx.hist('precipitate output names', 'own names' if c.get('names') and list(c['names']) != list(c['phases']) else 'same as phase names')
            if r is not None:
                ctx.hist('steps before save', '0' if r['steps'] == 0 else '1-99' if r['steps'] < 100 else '100-999' if r['steps'] < 1000 else '>=1000')
        elif c['kind'] == 'untrained':
            ctx.hist('untrained getter', c['system'] + '/' + c['method'])
            pp = PHASE_PARAM[c['method']]
            npos = {'getInterfacialComposition': 2, 'getGrowthAndInterfacialComposition': 5}.get(c['method'], 2)
            mode = 'keyword' if pp in c.get('kwargs', {}) else 'positional' if len(c['args']) > npos else 'left out'
            phv = c['kwargs'].get(pp) if mode == 'keyword' else c['args'][-1] if mode == 'positional' else None
            ctx.hist('untrained phase argument', '%s/%s' % (mode, 'None' if phv is None else 'first' if phv in ('B1', 'G1', 'ALPHA') else 'other'))
            ctx.hist('untrained precipitate phases', int(c.get('nprec', 2)))
            for o in c.get('kwargs', {}):
                if o != pp:
                    ctx.hist('untrained optional argument', o)
        elif c['kind'] == 'files':
            ctx.hist('files side by side', '%s/%d names' % (c['model'], len(c['names'])))
            for nme in c['names']:
                base = nme.split('/')[-1]
                ctx.hist('file name form', 'ends with .npz' if base.endswith('.npz') else 'inner dot' if '.' in base else 'dot in directory' if '.' in nme else 'plain')
            if r is not None and r.get('names_corr') and py is not None:
                corrs.append((c, {'model': 'names', **r['names_corr']}))
        elif c['kind'] == 'trained':
            ctx.hist('trained grid', '%s/%s/%s/%s' % (c['system'], c['quantity'], 'broadcast' if c['grid']['broadcast'] else 'pointwise', 'log' if c['grid']['log'] else 'linear'))
        elif c['kind'] == 'mhist':
            ctx.hist('model history', '%s/%s' % (c['model'], c['variant']))
        elif c['kind'] == 'history':
            ctx.hist('surrogate history', '%s/%s/%s' % (c['system'], c['second'][0][0], c['how']))
        elif c['kind'] == 'conventions':
            ctx.hist('calling conventions', '%s/%s/%s' % (c['system'], c['method'], 'trained' if c.get('train') else 'untrained'))
        elif c['kind'] == 'interleaved':
            ctx.hist('interleaved objects', c['system'])
        elif c['kind'] == 'reload':
            ctx.hist('reload', c['system'] + '/' + '+'.join(sorted(q for q, _ in c['train'])))
        if c['kind'] not in ('files', 'mhist') and r is not None and r.get('corr') and py is not None and r['stage'] != 'solve':
            corrs.append((c, r['corr']))
            if r.get('corr_strength'):
                corrs.append((c, r['corr_strength']))
        for h in hs:
            hits.append((c, *h))
        if len(ctx.cov['samples']) < 7 and c['kind'] in ('prec', 'diff', 'trained', 'files') and not c.get('from_corpus') and sum(1 for x in ctx.cov['samples'] if x['input']['kind'] == c['kind']) < 2:
            ctx.sample({'input': key, 'oracle_hits': [h[3] for h in hs][:2]})
    return hits, corrs


def report_hits(ctx, hits, py):
    seen = set()
    for (c, clause, site, cls, msg) in hits:
        if (clause, site, cls) in seen:
            continue
        seen.add((clause, site, cls))
        small = c if c.get('from_corpus') else minimise(c, clause, site, cls, py)
        msgs = [msg]
        if small is not c:
            try:
                msgs = [h[3] for h in evaluate_case(small, py)[0] if h[0] == clause and h[1] == site and h[2] == cls] or [msg]
            except Exception:
                small = c
        inp = {k: v for k, v in small.items() if k != 'idx'}
        ctx.violation(clause, {'site': site, 'cls': cls},
                      {'kind': 'input', 'input': inp, 'observed': msgs[0],
                       'oracle': 'independent comparison written from the property text (harness/c20.py)'},
                      msgs[0])


def gen_cases(ctx, quick, budget=1.0):
    rng = ctx.rng
    n = lambda q, t: max(1, int((q if quick else t) * budget))
    cases = []
    cases += [gen_prec(rng, i, quick) for i in range(n(16, 120))]
    cases += [gen_diff(rng, i, quick) for i in range(n(14, 120))]
    cases += [gen_files(rng, i, quick) for i in range(n(12, 96))]
    cases += gen_untrained(rng, n(2, 12))
    cases += [gen_trained(rng, i) for i in range(n(40, 400))]
    cases += [gen_reload(rng, i) for i in range(n(10, 80))]
    cases += [gen_mhist(rng, i, quick) for i in range(n(9, 72))]
    cases += [gen_history(rng, i) for i in range(n(18, 150))]
    cases += [gen_interleaved(rng, i) for i in range(n(4, 30))]
    cases += [gen_conventions(rng, i) for i in range(n(20, 160))]
    return cases


def run(ctx):
    quick = ctx.quick
    BUILD[0] = ctx.build
    ctx.cov['rule'] = ('round trips through real .npz files into a freshly constructed model of the same configuration: precipitation on the closed-form '
                       'stub backend (1-3 phases, PSD recording on / off / switched off between solve calls, 1-3 solve calls before saving, Euler and RK4, '
                       'adaptive grid on / off, strength model coupled or not), single-phase diffusion with a stub diffusivity (binary / ternary, recording '
                       'on / off / toggled, 1-3 solve calls); surrogates on closed-form binary and ternary backends: un-trained getters through a recording proxy on backends with 2-3 precipitate phases (systematically: all 7 quantities x every phase x phase left out / positional / keyword; '
                       'scalar / array arguments; gExtra, removeCache, searchDir, computeSearchDir, local_phase_sampling_conditions by keyword; nothing, another quantity, or the same quantity for another phase trained): value AND received arguments compared, trained getters at their training '
                       'points (linear / log, broadcast / point-wise grids, single-valued axes), JSON reload at random query points; every case counts as '
                       'non-trivial (a solved model / a trained or queried surrogate); distinct by hash of the case parameters')
    # ---- 1. regenerate -------------------------------------------------------------------------
    tie_ok, info, py = regenerate(ctx)
    failed = []
    if tie_ok:
        ctx.notes['translator'] = info
        ctx.notes['generated_sha256'] = info['sha256']
        axioms, failed = ctx.prove(['C20/Properties.v'] + RUN_FILES)
    else:
        ctx.notes['tie_broken'] = info
        axioms, failed0 = ctx.prove(['C20/Properties.v'])
        failed = list(failed0)
        for rel in RUN_FILES:
            thms = re.findall(r'^\s*Theorem\s+([A-Za-z_0-9\']+)', open(os.path.join(COQ, rel)).read(), re.M)
            ctx.cov['obligations'] += len(thms)
            failed += thms
        if py is None:
            try:
                # the sampled part still needs the field universe: fall back to what could be translated
                py = {'models': {k: {'wg': [], 'wp': [], 'rg': [], 'rp': []} for k in ('prec', 'diff', 'strength')}}
            except Exception:
                pass
    ident = identity_check()
    # ---- 2. corpus + search with the independent oracle (always) ----------------------------------
    cases = corpus_cases() + gen_cases(ctx, quick)
    for i, c in enumerate(cases):
        c['idx'] = i
    hits, corrs = explore(ctx, cases, py)
    # ---- 3. correspondence: generated model executed in Coq against the real round trips ----------
    dis = []
    if tie_ok:
        try:
            dis = correspondence(ctx, corrs)
        except Exception as e:
            dis = [(None, 'correspondence could not be evaluated: %s' % str(e)[-600:])]
    ctx.notes['disagreements'] = len(dis)
    ctx.notes['oracle_hits'] = len(hits)
    broken = (not tie_ok) or failed or dis or ident
    if broken and not hits:
        more = gen_cases(ctx, quick, budget=3.0)
        for i, c in enumerate(more):
            c['idx'] = 10000 + i
        h2, _ = explore(ctx, more, py)
        hits += h2
    report_hits(ctx, hits, py)
    if not hits:
        if not tie_ok:
            ctx.violation('translator', {'site': 'harness/c20_translate.py', 'cls': 'unsupported source'},
                          {'broken': {'tie': 'translator', 'error': info}},
                          'tie broken: the source is outside the translated subset (%s); the search found no failing input' % info, no_input=True)
        else:
            for t in failed:
                ctx.violation(t, {'site': 'coq/C20', 'cls': 'proof'},
                              {'broken': {'theorem': t, 'errors': ctx.notes.get('coq_errors', [])[:2]}},
                              'theorem %s no longer checks against the lists generated from the current source' % t, no_input=True)
        for c, d in dis[:1]:
            ctx.violation('correspondence', {'site': 'harness/c20_translate.py', 'cls': 'model vs implementation'},
                          {'broken': {'correspondence': 'generated save/load model executed in Coq vs kawin', 'first_disagreement': d},
                           'input': {k: v for k, v in (c or {}).items() if k != 'idx'}, 'disagreements': len(dis)},
                          'generated model and implementation disagree (%d cases), e.g. %s' % (len(dis), d), no_input=True)
        for pr in ident:
            ctx.violation('identity', {'site': 'kawin', 'cls': 'dispatch'}, {'broken': {'identity': pr}}, pr, no_input=True)
    elif failed or not tie_ok:
        ctx.notes['unchecked_theorems'] = failed
    ctx.assumptions += [
        'the .npz codec is an oracle of the model: it returns what was stored and cannot store None (numpy savez_compressed / load with allow_pickle=False); the JSON codec and scipy RBFInterpolator are not modelled - the trained-surrogate and reload clauses are sampled only',
        'array contents are opaque values in the model (exact equality); binary64 is not involved in the proved part',
        'theorem premises, each sampled on the real round trips: the saved model has been solved at least once (everything stored unconditionally is not None), recorded arrays of one model / phase are None together, the number of bins is an integer, PBM.max >= 10 PBM.min, n = len(time) - 1, phase names are distinct',
        'what is NOT reproduced is stated as theorems (C20_unsaved_fields_*, C20_unread_*_keeps_fresh): _isSetup / isSetup, bin constraints, the adaptive flag, the recording flag, temporary arrays; consequently continuing a loaded model with another solve call re-runs setup - outside the property text, recorded in notes/C20.md',
        'un-trained pass-through is proved for the call the getter makes (callee name, every parameter forwarded once under its own position / name); that a thermodynamics object resolves a missing phase argument to the same default phase as the surrogate does is sampled on the stub backends',
        'trained surrogates are compared with the backend at the training points with relative tolerance 1e-6 of the largest training value; reloaded surrogates with relative tolerance 1e-9']
    ctx.cov['trusted_base'] += ['Coq 8.16.1 kernel and vm_compute (no axioms: Print Assumptions reports `Closed under the global context` for every C20 theorem)',
                                'translator harness/c20_translate.py (fail-closed; validated on every run by executing its output inside Coq against real save/load round trips)',
                                'hand-written semantics of writer entries / reader actions in coq/C20/Model.v',
                                'the lists of fields the property requires (req_*, optional_*, unsaved_* in coq/C20/Model.v), written from the property text',
                                'closed-form stub backends and the comparison code in harness/c20.py']


def replay(ctx, obj):
    BUILD[0] = ctx.build
    c = dict(obj.get('input') or obj)
    c.pop('from_corpus', None)
    try:
        _, py, _ = tr.translate(REPO)
    except Exception:
        py = {'models': {k: {'wg': [], 'wp': [], 'rg': [], 'rp': []} for k in ('prec', 'diff', 'strength')}}
    hits, _ = evaluate_case(c, py)
    for h in hits:
        print('replay:', h)
    print('replay: %d oracle violations on this input' % len(hits))
    return 1 if hits else 0
