"""Shared machinery of the kawin verification checks (see DESIGN.md section 2).

Every check is `./check Cnn --tier quick|thorough`.  A property module `harness/cNN.py` exposes
`run(ctx)`; this file provides the context: PRNG, float <-> exact rational transport, Coq
evaluation of the model (`vm_compute` on the exact-rational instance), proof re-checking with
`Print Assumptions` collection, violation / known-finding bookkeeping and the evidence writer.
"""
import os, sys, json, re, time, subprocess, hashlib, shutil, fcntl, math, traceback
from fractions import Fraction

VERIF = os.path.dirname(os.path.dirname(os.path.abspath(__file__)))
REPO = os.environ.get('KAWIN_REPO', '/repo')
COQ = os.path.join(VERIF, 'coq')
PY = '/venv/bin/python'

FORBIDDEN = re.compile(r'\b(Admitted|admit|Axiom|Axioms|Parameter|Parameters|Conjecture|Conjectures|'
                       r'Unset\s+Guard|bypass_check|type-in-type|impredicative-set|Admit\s+Obligations)\b')

STD_AXIOMS = {
    'ClassicalDedekindReals.sig_forall_dec': 'real-number axiom of the Coq standard library',
    'ClassicalDedekindReals.sig_not_dec': 'real-number axiom of the Coq standard library',
    'FunctionalExtensionality.functional_extensionality_dep': 'functional extensionality (standard library, used by Reals)',
    'Classical_Prop.classic': 'excluded middle (standard library Classical_Prop, used by Reals/Coquelicot/Interval)',
    'ProofIrrelevance.proof_irrelevance': 'proof irrelevance (standard library)',
    'Eqdep.Eq_rect_eq.eq_rect_eq': 'Streicher K / eq_rect_eq (standard library Eqdep)',
    'JMeq.JMeq_eq': 'JMeq_eq (standard library)',
    'ClassicalEpsilon.constructive_indefinite_description': 'indefinite description (standard library ClassicalEpsilon, used by Coquelicot)',
    'PropExtensionality.propositional_extensionality': 'propositional extensionality (standard library)',
}

PRIMITIVE = re.compile(r'^(PrimFloat\.|PrimInt63\.|Uint63\.(?!.*_spec)|float$|int$|abs$|div$|opp$|sqrt$|frshiftexp$|ldshiftexp$|normfr_mantissa$|of_uint63$|next_up$|next_down$|classify$|compare$)')

# ------------------------------------------------------------------------------------------
# exact transport of floats
def frac(x):
    """float/int/Fraction -> Fraction, exactly"""
    if isinstance(x, Fraction):
        return x
    if isinstance(x, int):
        return Fraction(x)
    x = float(x)
    if not math.isfinite(x):
        raise ValueError('non-finite value cannot be shipped to the model: %r' % x)
    return Fraction(*x.as_integer_ratio())

def qlit(x):
    """Coq literal of type Q for an exact value"""
    f = frac(x)
    if f.denominator == 1:
        return '(%d # 1)' % f.numerator if f.numerator >= 0 else '((%d) # 1)' % f.numerator
    return '(%d # %d)' % (f.numerator, f.denominator) if f.numerator >= 0 else '((%d) # %d)' % (f.numerator, f.denominator)

def qlist(xs):
    return '[' + '; '.join(qlit(x) for x in xs) + ']'

def qlistlist(xss):
    return '[' + '; '.join(qlist(xs) for xs in xss) + ']'

def natlit(n):
    return '%d%%nat' % int(n)

def zlit(n):
    n = int(n)
    return '(%d)%%Z' % n

def boollit(b):
    return 'true' if b else 'false'

def hexf(x):
    return float(x).hex()

# ------------------------------------------------------------------------------------------
# parser for the terms Coq prints: lists, tuples, integers, Q literals (a # b), Some/None, bools
_tok = re.compile(r'\s*(\[|\]|\(|\)|;|,|#|-?\d+|[A-Za-z_][A-Za-z_0-9\.\']*|%[A-Za-z_]+)')

def _tokens(s):
    pos = 0
    out = []
    s = s.strip()
    while pos < len(s):
        m = _tok.match(s, pos)
        if not m:
            raise ValueError('cannot tokenise Coq output at: %r' % s[pos:pos + 40])
        t = m.group(1)
        pos = m.end()
        if t.startswith('%'):
            continue
        out.append(t)
    return out

def parse_coq(s):
    toks = _tokens(s)
    pos = [0]

    def peek():
        return toks[pos[0]] if pos[0] < len(toks) else None

    def nxt():
        t = toks[pos[0]]
        pos[0] += 1
        return t

    def atom():
        t = nxt()
        if t == '[':
            items = []
            if peek() == ']':
                nxt()
                return items
            while True:
                items.append(expr())
                t2 = nxt()
                if t2 == ']':
                    return items
                if t2 != ';':
                    raise ValueError('expected ; or ] got %r' % t2)
        if t == '(':
            items = [expr()]
            while True:
                t2 = nxt()
                if t2 == ')':
                    return items[0] if len(items) == 1 else tuple(items)
                if t2 != ',':
                    raise ValueError('expected , or ) got %r' % t2)
                items.append(expr())
        if re.fullmatch(r'-?\d+', t):
            return int(t)
        if t == 'true':
            return True
        if t == 'false':
            return False
        if t == 'None':
            return None
        if t == 'Some':
            return ('Some', atom())
        if t == 'nil':
            return []
        # constructor applied to atoms
        args = []
        while peek() is not None and peek() not in (']', ')', ';', ',', '#'):
            args.append(atom())
        return (t, *args) if args else t

    def expr():
        a = atom()
        if peek() == '#':
            nxt()
            b = atom()
            return Fraction(a, b)
        return a

    v = expr()
    if pos[0] != len(toks):
        raise ValueError('trailing tokens in Coq output: %r' % toks[pos[0]:pos[0] + 5])
    return v

def tofrac(v):
    """parsed Coq output -> Fractions; an `approx` triple (m, s, exact) becomes m * 2^-s;
    lists and other tuples recursively"""
    if isinstance(v, list):
        return [tofrac(x) for x in v]
    if isinstance(v, tuple):
        if len(v) == 3 and isinstance(v[2], bool) and isinstance(v[0], int) and isinstance(v[1], int) and not isinstance(v[0], bool):
            m, s, _ = v
            return Fraction(m) * (Fraction(2) ** (-s))
        return tuple(tofrac(x) for x in v)
    if isinstance(v, bool) or v is None or isinstance(v, str):
        return v
    return Fraction(v)

_eval_block = re.compile(r'^\s+= (.*?)^\s+: ', re.S | re.M)

def split_evals(out):
    return [m.group(1) for m in _eval_block.finditer(out)]

# ------------------------------------------------------------------------------------------
class Violation(Exception):
    pass

def coq_parallelism():
    """number of coqc processes to run side by side: bounded by cores and by the memory that is really available
    (a vm_compute shard on exact rationals can take 1-2 GB), also under a cgroup limit"""
    par = min(16, os.cpu_count() or 4)
    try:
        avail = None
        for line in open('/proc/meminfo'):
            if line.startswith('MemAvailable:'):
                avail = int(line.split()[1]) * 1024
        for f in ('/sys/fs/cgroup/memory.max', '/sys/fs/cgroup/memory/memory.limit_in_bytes'):
            if os.path.exists(f):
                v = open(f).read().strip()
                if v.isdigit():
                    lim = int(v)
                    used = 0
                    for g in ('/sys/fs/cgroup/memory.current', '/sys/fs/cgroup/memory/memory.usage_in_bytes'):
                        if os.path.exists(g):
                            used = int(open(g).read().strip())
                            break
                    avail = min(avail, lim - used) if avail is not None else lim - used
        if avail is not None:
            par = max(2, min(par, int(avail / 2.0e9)))
    except Exception:
        pass
    return par



class Ctx:
    def __init__(self, prop, tier, seed, replay=None):
        import numpy as np
        self.prop = prop
        self.tier = tier
        self.seed = seed
        self.replay = replay
        self.t0 = time.time()
        self.build = os.path.join(VERIF, 'build', prop)
        if os.path.isdir(self.build):
            shutil.rmtree(self.build)
        os.makedirs(self.build)
        self.rng = np.random.Generator(np.random.PCG64(seed))
        self.violations = []      # (clause, signature, replay path, text, no_input)
        self.known_hits = []
        self.cov = {'evaluations': 0, 'distinct_nontrivial': 0, 'rule': '', 'samples': [],
                    'obligations': 0, 'discharged': 0, 'checker_cmd': '', 'trusted_base': [],
                    'traces_validated_against_impl': 0}
        self.assumptions = []
        self.notes = {}
        self._nt_hashes = set()
        self._replay_k = 0
        self.known = []
        kfd = os.path.join(VERIF, 'known_findings.d')
        for f in sorted(os.listdir(kfd)) if os.path.isdir(kfd) else []:
            if f.endswith('.json'):
                self.known += json.load(open(os.path.join(kfd, f)))
        self.quick = (tier == 'quick')

    # ---- counting -------------------------------------------------------------------------
    def count(self, case_key, nontrivial):
        """count one evaluated case; case_key is any JSON-able description used for distinctness"""
        self.cov['evaluations'] += 1
        if nontrivial:
            h = hashlib.sha1(json.dumps(case_key, sort_keys=True, default=str).encode()).hexdigest()
            if h not in self._nt_hashes:
                self._nt_hashes.add(h)
                self.cov['distinct_nontrivial'] = len(self._nt_hashes)

    def sample(self, obj, limit=6):
        if len(self.cov['samples']) < limit:
            self.cov['samples'].append(obj)

    def hist(self, name, key):
        h = self.notes.setdefault('distribution', {}).setdefault(name, {})
        h[str(key)] = h.get(str(key), 0) + 1

    # ---- Coq ------------------------------------------------------------------------------
    def ensure_static(self):
        """static theories are built by setup_cmd; re-check they are up to date (under a lock)"""
        if os.environ.get('KAWIN_SKIP_STATIC') != '1':
            lock = open(os.path.join(VERIF, 'build', '.coq.lock'), 'w')
            fcntl.flock(lock, fcntl.LOCK_EX)
            try:
                subprocess.run('./mkproject.sh', shell=True, cwd=COQ, check=True)
                r = subprocess.run('timeout 3000 make -j16', shell=True, cwd=COQ, capture_output=True, text=True)
                if r.returncode != 0:
                    raise RuntimeError('static Coq theories do not build:\n' + r.stdout[-3000:] + r.stderr[-3000:])
            finally:
                fcntl.flock(lock, fcntl.LOCK_UN)
                lock.close()
        # forbidden constructs anywhere in the development
        bad = []
        enabled = set(open(os.path.join(VERIF, 'manifest.d', 'enabled.txt')).read().split())
        for root, _, files in os.walk(COQ):
            if os.path.relpath(root, COQ).split(os.sep)[0] not in ({'Common', self.prop, '.'} | enabled):
                continue       # directories of checks that are not integrated yet may be half-written
            for f in files:
                if f.endswith('.v'):
                    p = os.path.join(root, f)
                    for i, line in enumerate(open(p), 1):
                        code = re.sub(r'\(\*.*?\*\)', '', line)
                        if FORBIDDEN.search(code):
                            bad.append('%s:%d: %s' % (p, i, line.strip()))
        if bad:
            raise RuntimeError('forbidden constructs in the Coq development:\n' + '\n'.join(bad))

    def coqc(self, vfile, extra_R=None, timeout=600):
        """compile a .v file that lives under build/<prop>; returns (ok, output)"""
        cmd = ['timeout', str(timeout), 'coqc', '-noglob', '-R', COQ, 'Kawin', '-R', self.build, 'KawinRun', vfile]
        for attempt in range(3):
            r = subprocess.run(cmd, capture_output=True, text=True, cwd=self.build)
            # killed by a signal (out-of-memory killer) or stopped by `timeout` on an overloaded machine, without a
            # Coq error message: not a verdict of the kernel - try again (a genuine `Error:` is never retried)
            if r.returncode in (0, 1) or 'Error' in (r.stdout + r.stderr):
                break
            self.notes['coqc_retries'] = self.notes.get('coqc_retries', 0) + 1
            time.sleep(5 * (attempt + 1))
        out = '\n'.join(l for l in (r.stdout + r.stderr).splitlines() if 'WARNING' not in l and 'conda' not in l)
        return r.returncode == 0, out

    def prove(self, files, subdir=None):
        """Re-check property files (copied from coq/<prop>/ into build/<prop>/) and collect
        Print Assumptions output.  `files` are paths relative to coq/ ; returns dict
        theorem -> list of axioms for those that were accepted, and the list of failed theorem names."""
        axioms = {}
        failed = []
        total = 0
        for rel in files:
            src = os.path.join(COQ, rel)
            text = open(src).read()
            # the static file is compiled under its Kawin.* name already; here we re-run it under a
            # run-local name so that it is checked NOW against the current generated files
            dst = os.path.join(self.build, os.path.basename(rel))
            shutil.copy(src, dst)
            thms = re.findall(r'^\s*Theorem\s+([A-Za-z_0-9\']+)', text, re.M)
            total += len(thms)
            ok, out = self.coqc(dst)
            seen = self._parse_assumptions(out, text)
            axioms.update(seen)
            if not ok:
                self.notes.setdefault('coq_errors', []).append({'file': rel, 'output': out[-2000:]})
                for t in thms:
                    if t not in seen:
                        failed.append(t)
            else:
                for t in thms:
                    if t not in seen:
                        # a theorem without Print Assumptions directly after it: count as accepted
                        # (the file compiled) but record the omission
                        axioms[t] = ['<no Print Assumptions in file>']
        self.cov['obligations'] += total
        self.cov['discharged'] += total - len(failed)
        used = set(a for v in axioms.values() for a in v)
        prims = sorted(a for a in used if PRIMITIVE.match(a))
        if prims:
            tb = 'kernel primitives (native 63-bit integers / binary64 floats, not axioms of this development): ' + ', '.join(prims)
            if tb not in self.cov['trusted_base']:
                self.cov['trusted_base'].append(tb)
        for a in sorted(used):
            if PRIMITIVE.match(a):
                continue
            if a in STD_AXIOMS:
                tb = 'axiom %s: %s' % (a, STD_AXIOMS[a])
            elif a.startswith('FloatAxioms.'):
                tb = 'axiom %s: specification of the primitive binary64 operations declared by the Coq standard library (Floats.FloatAxioms)' % a
            elif a.startswith('Uint63Axioms.') or a.startswith('Uint63.') and a.endswith('_spec'):
                tb = 'axiom %s: specification of the primitive 63-bit integers declared by the Coq standard library' % a
            else:
                tb = 'axiom/assumption reported by Print Assumptions: %s' % a
            if tb not in self.cov['trusted_base']:
                self.cov['trusted_base'].append(tb)
        self.notes.setdefault('print_assumptions', {}).update(axioms)
        self.cov['checker_cmd'] = 'coqc -R coq Kawin -R build/%s KawinRun <file>.v (Coq 8.16.1 kernel; full .vo build, no -vos)' % self.prop
        return axioms, failed

    @staticmethod
    def _parse_assumptions(out, text):
        """Print Assumptions output appears in file order, one block per command"""
        names = re.findall(r'Print Assumptions\s+([A-Za-z_0-9\']+)\s*\.', text)
        blocks = []
        cur = None
        for line in out.splitlines():
            if line.startswith('Closed under the global context'):
                blocks.append([])
                cur = None
            elif line.startswith('Axioms:'):
                cur = []
                blocks.append(cur)
            elif cur is not None:
                m = re.match(r'^([A-Za-z_][A-Za-z_0-9\.\']*)\s*$', line) or re.match(r'^([A-Za-z_][A-Za-z_0-9\.\']*)\s+:', line)
                if m and not line.startswith(' '):
                    cur.append(m.group(1))
        return {n: b for n, b in zip(names, blocks)}

    def coq_eval(self, name, header, terms, shard=None, timeout=2400):
        """Evaluate `terms` (Coq expressions, strings) with vm_compute; returns parsed values.
        Sharded into files of <= shard terms, compiled in parallel."""
        files = []
        if shard is None:
            shard = max(4, min(40, -(-len(terms) // 32)))
        for s in range(0, len(terms), shard):
            path = os.path.join(self.build, '%s_%d.v' % (name, s // shard))
            with open(path, 'w') as f:
                f.write(header + '\n')
                for t in terms[s:s + shard]:
                    f.write('Eval vm_compute in (%s).\n' % t)
            files.append(path)
        procs = []
        results = []
        maxpar = coq_parallelism()
        outs = [None] * len(files)
        idx = 0
        running = []
        retry = []
        while idx < len(files) or running:
            while idx < len(files) and len(running) < maxpar:
                cmd = ['timeout', str(timeout), 'coqc', '-noglob', '-R', COQ, 'Kawin', '-R', self.build, 'KawinRun', files[idx]]
                p = subprocess.Popen(cmd, stdout=subprocess.PIPE, stderr=subprocess.PIPE, text=True, cwd=self.build)
                running.append((idx, p))
                idx += 1
            i, p = running.pop(0)
            o, e = p.communicate()
            if p.returncode != 0:
                if p.returncode != 1 and 'Error' not in (o + e):
                    # killed (out of memory) or timed out on an overloaded machine: evaluate this shard again, alone, at the end
                    retry.append(i)
                    continue
                raise RuntimeError('model evaluation failed in %s (exit status %d%s): %s' % (files[i], p.returncode, ', timed out' if p.returncode == 124 else '', e[-600:]))
            outs[i] = o
        for i in retry:
            self.notes['coqc_retries'] = self.notes.get('coqc_retries', 0) + 1
            cmd = ['timeout', str(2 * timeout), 'coqc', '-noglob', '-R', COQ, 'Kawin', '-R', self.build, 'KawinRun', files[i]]
            for attempt in range(2):
                r = subprocess.run(cmd, capture_output=True, text=True, cwd=self.build)
                if r.returncode == 0 or r.returncode == 1 or 'Error' in (r.stdout + r.stderr):
                    break
                time.sleep(20)
            if r.returncode != 0:
                raise RuntimeError('model evaluation failed in %s (exit status %d%s, also when evaluated alone): %s' % (files[i], r.returncode, ', timed out' if r.returncode == 124 else '', r.stderr[-600:]))
            outs[i] = r.stdout
        for o in outs:
            for blk in split_evals(o):
                results.append(parse_coq(blk))
        if len(results) != len(terms):
            raise RuntimeError('expected %d results from Coq, got %d' % (len(terms), len(results)))
        return results

    # ---- violations -----------------------------------------------------------------------
    def write_replay(self, obj):
        self._replay_k += 1
        path = os.path.join(self.build, 'replay_%d.json' % self._replay_k)
        obj = dict(obj)
        obj.setdefault('property', self.prop)
        obj.setdefault('seed', self.seed)
        obj.setdefault('how_to_replay', './check %s --replay %s' % (self.prop, os.path.relpath(path, VERIF)))
        with open(path, 'w') as f:
            json.dump(obj, f, indent=1, default=str)
        return path

    def violation(self, clause, signature, replay_obj, text, no_input=False):
        """Report a violation.  `signature` = dict(clause, site, cls) matched against known findings."""
        sig = dict(signature)
        sig.setdefault('clause', clause)
        for k in self.known:
            if k.get('property') == self.prop and k.get('status') == 'open' and k.get('signature') == sig:
                if k['id'] not in [h[0] for h in self.known_hits]:
                    self.known_hits.append((k['id'], k.get('what', text)))
                return
        for v in self.violations:
            if v['signature'] == sig:
                v['count'] += 1
                return
        replay_obj = dict(replay_obj)
        replay_obj['clause'] = clause
        replay_obj['signature'] = sig
        replay_obj['what'] = text
        if no_input:
            replay_obj['kind'] = 'no-failing-input-found'
        path = self.write_replay(replay_obj)
        self.violations.append({'clause': clause, 'signature': sig, 'replay': path, 'text': text,
                                'no_input': no_input, 'count': 1})

    # ---- wrap-up --------------------------------------------------------------------------
    def finish(self, level='proof'):
        wall = time.time() - self.t0
        cov = dict(self.cov)
        cov.update(self.notes)
        cov['known_findings_hit'] = [h[0] for h in self.known_hits]
        if not cov['samples']:
            cov['samples'] = ['<no sample recorded>']
        cov['violation_details'] = [{k: v[k] for k in ('clause', 'signature', 'text', 'count')} for v in self.violations]
        ev = {'property_id': self.prop, 'tier': self.tier, 'seed': int(self.seed), 'level': level,
              'coverage': cov, 'assumptions': self.assumptions, 'wall_s': round(wall, 2),
              'violations': len(self.violations)}
        # evidence/<id>.json describes runs against /repo itself; a run pointed at another tree through
        # KAWIN_REPO (development, seeded changes) keeps its record in the scratch directory
        if os.path.realpath(REPO) == '/repo':
            evpath = os.path.join(VERIF, 'evidence', self.prop + '.json')
        else:
            evpath = os.path.join(self.build, 'evidence_' + self.prop + '.json')
            ev['repo'] = REPO
        os.makedirs(os.path.dirname(evpath), exist_ok=True)
        with open(evpath, 'w') as f:
            json.dump(ev, f, indent=1, default=str)
        for kid, what in self.known_hits:
            print('KNOWN-FINDING: property=%s %s [%s]' % (self.prop, what, kid))
        for v in self.violations:
            rp = os.path.relpath(v['replay'], VERIF)
            tail = ' no-failing-input-found' if v['no_input'] else ''
            print('# %s: %s' % (v['clause'], v['text']))
            print('VIOLATION property=%s replay=%s%s' % (self.prop, rp, tail))
        print('%s %s: obligations %d/%d, evaluations %d (distinct non-trivial %d), violations %d, known findings %d, %.1fs'
              % (self.prop, self.tier, cov['discharged'], cov['obligations'], cov['evaluations'],
                 cov['distinct_nontrivial'], len(self.violations), len(self.known_hits), wall))
        return 1 if self.violations else 0


def close(a, b, rtol, scale=None, atol=0):
    """|a-b| <= rtol*scale + atol, all exact"""
    a, b = frac(a), frac(b)
    if scale is None:
        scale = max(abs(a), abs(b))
    return abs(a - b) <= Fraction(rtol) * frac(scale) + frac(atol)

RTOL = Fraction(1, 2 ** 40)
