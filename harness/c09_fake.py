"""C09 - scripted pycalphad for the correspondence of part C (cached composition sets).

The real `GeneralThermodynamics` is run with pycalphad's Solver / calculate / CompositionSet / Workspace and
kawin's property evaluators (inverseMobility, tracer_diffusivity, ...) replaced by fakes that LOG what they
are given: every object that flows through kawin's code is a tree of integers `('N', tag, (kids...))`,
mirrored one to one by the oracle instance of coq/C09/Corr.v (s_solve, s_naive, s_sample, s_best, s_global,
s_dval, ...).  Trees travel through numpy arrays as interned integer ids.
"""
import contextlib
from types import SimpleNamespace
import numpy as np


def N(tag, kids=()):
    return ('N', int(tag), tuple(kids))


def L(z):
    return N(z)


class World:
    """one scripted world per history"""
    def __init__(self, th):
        self.th = th
        self.t2i = {}
        self.i2t = {}
        self.ncomp = th.numElements
        self.calls = 0

    def id(self, tree):
        if tree not in self.t2i:
            i = 1000 + len(self.t2i)
            if i >= 10 ** 6:
                raise RuntimeError('too many trees')
            self.t2i[tree] = i
            self.i2t[i] = tree
        return float(self.t2i[tree])

    def tree(self, f):
        return self.i2t[int(round(float(f)))]

    def ph(self, name):
        return self.th.phases.index(name)


W = [None]


def enc_cs(cs):
    w = W[0]
    return N(20, [L(w.ph(cs.phase_record.phase_name)), L(int(cs.dof[3])), L(int(cs.dof[0])), cs.y])


def scripted_same(cs):
    y = cs.y
    if y[1] == 2 and y[2][0][1] == 11:
        T = y[2][0][2][1][1]
        return T % 5 == 3
    return False


class FakeCS:
    def __init__(self, phase_record):
        self.phase_record = phase_record
        self.dof = np.zeros(8)
        self.NP = 1.0
        self.y = L(0)

    def update(self, site_fracs, phase_amt, state_variables):
        self.dof[:4] = state_variables
        self.NP = phase_amt
        t = W[0].tree(np.ravel(site_fracs)[0])
        self.y = N(7, [t]) if t[1] == 5 else t          # sampled point: best's y; naive start: itself

    @property
    def X(self):
        w = W[0]
        src = self
        if scripted_same(self) and w.th._matrix_cs:
            src = w.th._matrix_cs[0]
        i = w.id(enc_cs(src))
        return [1.0] + [i] * (w.ncomp - 1)


def cond_tree(conds):
    """(tree of the conditions, is this equilibrium scripted to fail)"""
    w = W[0]
    d = {str(k): v for k, v in conds.items()}
    T = int(float(d['T']))
    mus = [k for k in d if k.startswith('MU_')]
    if mus:
        res = w.tree(d[sorted(mus)[0]])
        return N(11, [res, L(T)]), T % 5 == 4
    xs = sorted(k for k in d if k.startswith('X_'))
    x = int(float(d[xs[0]]))
    g = int(float(d.get('GE', 0)))
    return N(10, [L(x), L(T), L(g)]), x % 7 == 3


class FakeSolver:
    def solve(self, composition_sets, conds):
        w = W[0]
        w.calls += 1
        cd, nan = cond_tree(conds)
        starts = [enc_cs(c) for c in composition_sets]
        res = N(1, [cd, N(0, starts), L(1 if nan else 0)])
        if cd[1] == 10 and cd[2][0][1] % 5 == 1 and len(composition_sets) >= 2:
            # scripted loss of the precipitate: removed from the caller's list, in place, as pycalphad does
            composition_sets[:] = [c for c in composition_sets if w.ph(c.phase_record.phase_name) == 0]
        for c in composition_sets:
            c.y = N(2, [cd, L(w.ph(c.phase_record.phase_name))])
        rid = w.id(res)
        mu = np.full(w.ncomp, rid)
        if nan:
            mu[1:] = np.nan           # any(isnan) holds, the first entry still names the result
        return SimpleNamespace(chemical_potentials=mu, x=np.array([rid, 0.0]), tree=res)


class _Arr:
    def __init__(self, a):
        self.values = np.asarray(a, dtype=float)
    def isel(self, points=0):
        return _Arr(self.values[points])


def fake_calculate(dbf, comps, phases, mode=None, output='GM', fake_points=False, broadcast=True, parameters=None,
                   to_xarray=True, phase_records=None, conditions=None, **kw):
    w = W[0]
    name = phases if isinstance(phases, str) else phases[0]
    p = w.ph(name)
    T = int(float(kw['T']))
    g = int(float(kw.get('GE', 0)))
    if to_xarray:
        # local_equilibrium: starting point of a phase
        i = w.id(N(3, [L(p), L(T), L(g)]))
        return SimpleNamespace(GM=_Arr([0.0]), Y=_Arr([[i] * 40]))
    # _getPrecCompositionSetSamplingDF: one sampled point
    smp = N(5, [L(p), L(T)])
    i = w.id(smp)
    X = np.zeros((1, w.ncomp)); X[0, 0] = 1.0
    return SimpleNamespace(X=X, Y=np.full((1, 40), i), GM=np.array([-i * 1e6]), OCM=np.array([-1.0]), tree=smp)


class FakeWorkspace:
    def __init__(self, db, elements, phases, cond, models=None, phase_record_factory=None, calc_opts=None, **kw):
        w = W[0]
        d = {str(k): v for k, v in cond.items()}
        xs = sorted(k for k in d if k.startswith('X_'))
        x = int(float(np.ravel(d[xs[0]])[0]))
        T = int(float(np.ravel(d['T'])[0]))
        g = int(float(np.ravel(d.get('GE', 0))[0]))
        p = w.ph(phases[1]) if len(phases) > 1 else 0
        nan = (x % 7 == 5)
        self.mu = N(4, [L(x), L(T), L(g), L(p), L(1 if nan else 0)])
        mid = w.id(self.mu)
        MU = np.full((1, 1, 1, 1, 1, w.ncomp), mid)
        if nan:
            MU[..., 1:] = np.nan
        self.eq = SimpleNamespace(MU=MU)
        def cs(ph, idx):
            c = FakeCS(phase_record_factory[w.th.phases[ph]])
            c.dof[0], c.dof[1], c.dof[2], c.dof[3] = g, 1, 101325, T
            c.y = N(8, [L(x), L(T), L(g), L(p), L(idx)])
            return c
        k = x % 4
        self.sets = [cs(0, 0), cs(p, 1)] if k == 0 else [cs(0, 0)] if k == 1 else [cs(0, 0), cs(0, 1), cs(p, 2)] if k == 2 else [cs(p, 0)]
    def get_composition_sets(self):
        return self.sets


def fake_inverse_mobility(chemical_potentials, cs_matrix, *a, **k):
    w = W[0]
    t = N(30, [w.tree(np.ravel(chemical_potentials)[0]), N(0, [enc_cs(cs_matrix)])])
    n = w.ncomp - 1
    return np.full((n, n), w.id(t)), None, None


def fake_tracer(cs_matrix, *a, **k):
    w = W[0]
    t = N(31, [N(0, [enc_cs(cs_matrix)])])
    return np.full(w.ncomp, w.id(t))


def make_fake_curvature(th):
    """stand-in for MulticomponentThermodynamics._curvatureFactorFromEq (stores and returns the outputs)"""
    from kawin.thermo.MultiTherm import CurvatureOutput
    def f(chemical_potentials, cs_matrix, cs_precip, precPhase):
        w = W[0]
        t = N(35, [w.tree(np.ravel(chemical_potentials)[0]), enc_cs(cs_matrix), enc_cs(cs_precip)])
        i = w.id(t)
        n = w.ncomp - 1
        out = CurvatureOutput(dc=np.full(n, i), mc=i, gba=np.full((n, n), i), beta=i, c_eq_alpha=np.full(n, i), c_eq_beta=np.full(n, i))
        th._curvature_outputs[precPhase] = out
        return out
    return f


@contextlib.contextmanager
def scripted(th):
    """install the fakes around the object under test"""
    import kawin.thermo.Thermodynamics as TM
    import kawin.thermo.LocalEquilibrium as LE
    saved = []
    def patch(mod, name, val):
        saved.append((mod, name, getattr(mod, name)))
        setattr(mod, name, val)
    W[0] = World(th)
    try:
        patch(LE, 'Solver', FakeSolver)
        patch(LE, 'CompositionSet', FakeCS)
        patch(LE, 'calculate', fake_calculate)
        patch(TM, 'CompositionSet', FakeCS)
        patch(TM, 'calculate', fake_calculate)
        patch(TM, 'Workspace', FakeWorkspace)
        patch(TM, 'inverseMobility', fake_inverse_mobility)
        patch(TM, 'inverseMobility_from_diffusivity', fake_inverse_mobility)
        patch(TM, 'tracer_diffusivity', fake_tracer)
        patch(TM, 'tracer_diffusivity_from_diff', fake_tracer)
        if hasattr(th, '_curvature_outputs'):
            th._curvatureFactorFromEq = make_fake_curvature(th)       # instance attribute, the class is untouched
        yield W[0]
    finally:
        for mod, name, val in reversed(saved):
            setattr(mod, name, val)
        W[0] = None


# ------------------------------------------------------------------------------------------
# reading the object back
def state_tree(th):
    w = W[0]
    def assoc(d):
        out = []
        for name, l in d.items():
            if l is not None:
                out.append(N(w.ph(name), [enc_cs(c) for c in l]))
        return sorted(out)
    pts = []
    for name, sp in th._points_cache.items():
        if sp is not None and sp.samples is not None:
            pts.append(N(w.ph(name), [L(int(sp.temperature)), sp.samples.tree]))
    mat = [] if th._matrix_cs is None else [N(0, [enc_cs(c) for c in th._matrix_cs])]
    outs = []
    for name, o in getattr(th, '_curvature_outputs', {}).items():
        if o is not None and o.mc is not None:
            outs.append(N(w.ph(name), [w.tree(o.mc)]))
    return N(40, [N(41, assoc(th._compset_cache_df)), N(42, mat), N(43, sorted(pts)), N(44, assoc(th._diffusivity_cache)),
                  N(45, assoc(getattr(th, '_compset_cache_curvature', {}))), N(46, sorted(outs))])


def answer_tree(kind, r):
    """decode what kawin returned into the tree the model predicts"""
    w = W[0]
    if kind == 'DF':
        dg, xb = r
        dg = np.asarray(dg)
        if dg.dtype == object or dg.ravel()[0] is None:
            return N(50)
        return ('DF', float(dg.ravel()[0]), float(np.asarray(xb, dtype=float).ravel()[0]))
    if kind == 'CURV':
        return N(54) if r is None else N(55, [w.tree(r.mc)])
    v = float(np.asarray(r, dtype=float).ravel()[0])
    return N(52, [w.tree(v)])


def expected_df(tree):
    """numbers kawin must return for a driving-force answer tree predicted by the model; None when a tree of the
    prediction was never built by the implementation (a disagreement by itself)"""
    w = W[0]
    if tree == N(50):
        return None
    _, tag, (u, v) = tree
    def tid(t):
        return w.t2i.get(t)
    xv = tid(v[2][0])                      # N 33 [enc_cs c]
    if u[1] == 32:                         # tangent: N 32 [res] -> id of res
        dg = tid(u[2][0])
    elif u[1] == 6:                        # sampling: N 6 [smp; mu] -> mu + smp * 1e6
        a, b = tid(u[2][0]), tid(u[2][1])
        dg = None if a is None or b is None else b + a * 1e6
    elif u[1] == 34:                       # approximate: N 34 [enc_cs c; r; mu] -> sum(xP) * (r - mu)
        c, r, mu = tid(u[2][0]), tid(u[2][1]), tid(u[2][2])
        dg = None if None in (c, r, mu) else (1.0 + (w.ncomp - 1) * c) * (r - mu)
    else:
        dg = None
    if dg is None or xv is None:
        return 'unbuilt'
    return (float(dg), float(xv))
