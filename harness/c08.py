"""C08 - size-class grid operations stay consistent and conserve particle volume.

proof:          coq/C08/Properties.v (theorems about the real instance of coq/C08/Model.v: an invariant
                over ALL operation sequences, prefix on extend, third moment on re-mesh, max-bins,
                reset, moment purity)
correspondence: random operation sequences are run on a live PopulationBalanceModel; for every
                operation the state before it is shipped exactly to Coq, the model executes the same
                operation on exact rationals (vm_compute) and every public attribute (min, max, bins,
                PSD, PSDbounds, PSDsize, the backup as revert() would install it, return value / exception) is compared
                with what the implementation reached.  The constructor and short whole sequences are
                also executed from `init cfg` inside Coq and compared with the final state.
search:         an oracle written from the property text (plain loops, independent of the code under
                test) checks every state the implementation goes through; failing sequences are
                shrunk to minimal ones.
"""
import copy, json
from fractions import Fraction
import numpy as np
from common import *

LEVEL = 'proof'
SITE = 'PopulationBalance'
RT = '(1 # 68719476736)'        # 2^-36

HEADER = '''From Coq Require Import QArith List ZArith.
Require Import Kawin.Common.Ops Kawin.Common.Vec Kawin.Common.Out Kawin.C08.Model Kawin.C08.Corr.
Import ListNotations.
Open Scope Q_scope.
'''

FLOAT_KEYS = {'cmin', 'cmax', 'cMin', 'cMax', 't'}
UNMODELLED = ('EnableRecording', 'LoadRecorded')     # recording layer: no Gallina model, the oracle decides
LIST_KEYS = {'newN', 'vals', 'data', 'N', 'w'}


# ------------------------------------------------------------------------------------------
# implementation side
# Only the public surface of PopulationBalanceModel is used (documented attributes min, max, bins, PSD, PSDbounds,
# PSDsize, originalMin/Max/Bins, minBins, maxBins and the public methods): a rewrite that renames private attributes or
# extracts helpers must not disturb the check.
#  - the hidden backup is observed through its behaviour: what revert() would install, on a copy of the object;
#  - the adaptive-binning switch has a public setter and no getter: the harness remembers what it set (the class documents
#    nothing else; the constructor switches it on, as the model's init does - a different default shows up in Adjust).
ADAPTIVE = '_c08_harness_adaptive'


ARGS = '_c08_harness_args'
BYST = '_c08_harness_bystander'


def conv_value(v, conv):
    """the same number as the objects a caller may hold it in"""
    if conv == 'np64':
        return np.float64(v)
    if conv == '0d':
        return np.array(float(v))           # 0-d array: mutable, `x += d` works in place
    if conv == 'int' and float(v) == int(v):
        return int(v)
    return float(v)


def keep_arg(p, name, obj):
    """argument objects stay the caller's: remembered with their value and checked after every operation"""
    getattr(p, ARGS).append((name, obj, float(obj)))


def build_pbm(cfg, args):
    from kawin.precipitation.PopulationBalance import PopulationBalanceModel
    ib = (lambda n: np.int64(n)) if cfg.get('conv') == 'np64' else int
    if cfg.get('kw'):
        p = PopulationBalanceModel(cMin=args[0], cMax=args[1], bins=ib(cfg['bins']), minBins=ib(cfg['minBins']), maxBins=ib(cfg['maxBins']))
    else:
        p = PopulationBalanceModel(args[0], args[1], ib(cfg['bins']), ib(cfg['minBins']), ib(cfg['maxBins']))
    setattr(p, ADAPTIVE, True)
    setattr(p, ARGS, [])
    setattr(p, BYST, None)
    keep_arg(p, 'constructor cMin', args[0])
    keep_arg(p, 'constructor cMax', args[1])
    return p


def new_pbm(cfg):
    """cfg['conv']: how the caller holds the numbers (float / np64 / 0d / int); cfg['kw']: keyword call;
    cfg['bystander']: a second object built from the SAME argument objects stays alive and untouched next to the one
    that is operated on - it must not notice"""
    conv = cfg.get('conv', 'float')
    args = (conv_value(cfg['cMin'], conv), conv_value(cfg['cMax'], conv))
    p = build_pbm(cfg, args)
    if cfg.get('bystander'):
        b = build_pbm(cfg, args)
        setattr(p, BYST, (b, core_snap(b)))
    return p


def side_effects(p):
    """(argument that changed, bystander that changed) after an operation - None when nothing did"""
    arg = None
    for name, obj, val in getattr(p, ARGS):
        try:
            now = float(obj)
        except Exception:
            now = None
        if now != val:
            arg = '%s was %r, is now %r' % (name, val, now)
            break
    by = None
    if getattr(p, BYST) is not None:
        b, s0 = getattr(p, BYST)
        s1 = core_snap(b)
        diff = [k for k in s0 if s0[k] != s1[k]]
        if diff:
            by = 'a second, untouched object changed in %s (e.g. %s: %r -> %r)' % (', '.join(diff), diff[0],
                  s0[diff[0]] if not isinstance(s0[diff[0]], list) else s0[diff[0]][-1], s1[diff[0]] if not isinstance(s1[diff[0]], list) else s1[diff[0]][-1])
    return arg, by


def observe_backup(p):
    """(PSD, PSDbounds, error) that revert() would install now - the content of the backup, whatever it is called inside.
    error is set when the implementation's own revert() raises on the copy (a behaviour of the public API, judged by the
    oracle); failing to copy the object is a broken tie, not a property violation"""
    try:
        q = copy.deepcopy(p)
    except Exception as e:
        raise RuntimeError('tie broken: the PopulationBalanceModel cannot be copied to observe its backup: %s: %s' % (type(e).__name__, e))
    try:
        q.revert()
        return [float(x) for x in np.ravel(q.PSD)], [float(x) for x in np.ravel(q.PSDbounds)], None
    except Exception as e:
        return [], [], '%s: %s' % (type(e).__name__, e)


def core_snap(p):
    return {'min': float(p.min), 'max': float(p.max), 'bins': int(p.bins),
            'psd': [float(x) for x in np.ravel(p.PSD)], 'bounds': [float(x) for x in np.ravel(p.PSDbounds)],
            'size': [float(x) for x in np.ravel(p.PSDsize)],
            'omin': float(p.originalMin), 'omax': float(p.originalMax), 'obins': int(p.originalBins)}


def snap(p):
    ppsd, pbounds, rerr = observe_backup(p)
    argc, byc = side_effects(p)
    return {'arg_changed': argc, 'bystander_changed': byc,
            'min': float(p.min), 'max': float(p.max), 'bins': int(p.bins),
            'psd': [float(x) for x in np.ravel(p.PSD)], 'bounds': [float(x) for x in np.ravel(p.PSDbounds)],
            'size': [float(x) for x in np.ravel(p.PSDsize)],
            'ppsd': ppsd, 'pbounds': pbounds, 'revert_error': rerr,
            'omin': float(p.originalMin), 'omax': float(p.originalMax), 'obins': int(p.originalBins),
            'minBins': int(p.minBins), 'maxBins': int(p.maxBins), 'adaptive': bool(getattr(p, ADAPTIVE))}


def fit(vals, n):
    """list arguments follow the current class count (needed when a shrunk sequence is re-run)"""
    vals = list(vals)[:n]
    return vals + [0.0] * (n - len(vals))


def apply_op(p, op):
    """runs one operation on the live object; returns (concrete op actually applied, ret, err, extra)"""
    k = op['op']
    op = dict(op)
    ret, err, extra = None, None, None
    try:
        v = op.get('call', 'pos')
        if k == 'Reset':
            p.reset() if (v == 'short' and op['rb']) else p.reset(resetBounds=op['rb']) if v == 'kw' else p.reset(op['rb'])
        elif k == 'Add':
            p.addSizeClasses() if (v == 'short' and op['k'] == 1) else p.addSizeClasses(bins=np.int64(op['k'])) if v == 'kw' else p.addSizeClasses(op['k'])
        elif k == 'Change':
            a, b_ = conv_value(op['cmin'], op.get('conv', 'float')), conv_value(op['cmax'], op.get('conv', 'float'))
            keep_arg(p, 'changeSizeClasses cMin', a)
            keep_arg(p, 'changeSizeClasses cMax', b_)
            call = op.get('call', 'pos')
            if call == 'kw':
                p.changeSizeClasses(cMin=a, cMax=b_, bins=op['nb'], resetPSD=op['reset'])
            elif call == 'short' and op['nb'] is None and not op['reset']:
                p.changeSizeClasses(a, b_)                       # optional arguments omitted
            elif call == 'mixed':
                p.changeSizeClasses(a, b_, resetPSD=op['reset'], bins=op['nb'])
            else:
                p.changeSizeClasses(a, b_, op['nb'], op['reset'])
        elif k == 'Adjust':
            ch, ni = p.adjustSizeClassesEuler() if (v == 'short' and not op['chk']) else \
                p.adjustSizeClassesEuler(checkDissolution=op['chk']) if v == 'kw' else p.adjustSizeClassesEuler(op['chk'])
            ret = (bool(ch), None if ni is None else int(ni))
        elif k == 'Update':
            op['newN'] = fit(op['newN'], p.bins)
            p.UpdatePBMEuler(float(op.get('t', 0.0)), np.array(op['newN'], dtype=float))
        elif k == 'EnableRecording':
            p.enableRecording()
        elif k == 'LoadRecorded':
            import io, contextlib
            with contextlib.redirect_stdout(io.StringIO()):
                p.setPSDtoRecordedTime(conv_value(op['t'], op.get('conv', 'float')))
        elif k == 'Backup':
            p.createBackup()
        elif k == 'Revert':
            p.revert()
        elif k == 'LoadFn':
            op['vals'] = fit(op['vals'], p.bins)
            vals = np.array(op['vals'], dtype=float)
            p.LoadDistributionFunction(lambda r: vals.copy())
        elif k == 'LoadHist':
            data = list(op['data']) if v == 'short' else tuple(op['data']) if v == 'kw' else np.array(op['data'], dtype=float)
            p.LoadDistribution(data)
            if list(np.ravel(np.asarray(data, dtype=float))) != list(op['data']):
                raise AssertionError('LoadDistribution changed the data it was given')
        elif k == 'SetAdaptive':
            p.setAdaptiveBinSize(op['a'])
            setattr(p, ADAPTIVE, bool(op['a']))
        elif k == 'Moments':
            op['N'] = fit(op['N'], p.bins)
            op['w'] = fit(op['w'], p.bins)
            N, w, o = np.array(op['N']), np.array(op['w']), op['order']
            stored = p.PSD

            def call():
                return (float(p.MomentFromN(N.copy(), o)), [float(x) for x in p.CumulativeMomentFromN(N.copy(), o)],
                        float(p.WeightedMomentFromN(N.copy(), o, w.copy())),
                        [float(x) for x in p.CumulativeWeightedMomentFromN(N.copy(), o, w.copy())],
                        float(p.ZeroMomentFromN(N.copy())), float(p.FirstMomentFromN(N.copy())),
                        float(p.SecondMomentFromN(N.copy())), float(p.ThirdMomentFromN(N.copy())))
            r1 = call()
            # same supplied distribution, different stored distribution
            p.PSD = np.array(op['alt'] if len(op.get('alt', [])) == p.bins else list(np.arange(p.bins) * 3.0 + 7.0))
            op['alt'] = [float(x) for x in p.PSD]
            r2 = call()
            p.PSD = stored
            extra = (r1, r2)
        else:
            raise ValueError('unknown operation %r' % k)
    except Exception as e:
        err = type(e).__name__
        extra = str(e)
    return op, ret, err, extra


def run_sequence(cfg, ops):
    """returns the trace [(pre, op, post, ret, err, extra)] of a sequence on a fresh object"""
    p = new_pbm(cfg)
    trace = []
    for op in ops:
        pre = snap(p)
        op2, ret, err, extra = apply_op(p, op)
        trace.append((pre, op2, snap(p), ret, err, extra))
    return trace


# ------------------------------------------------------------------------------------------
# independent oracle: the property text, as plain loops over the observed states
def m3(st):
    b, n = st['bounds'], st['psd']
    return math.fsum(n[i] * ((b[i] + b[i + 1]) / 2) ** 3 for i in range(min(len(n), len(b) - 1)))


# "preserves the third moment exactly": in binary64 the rescaling leaves a few units in the last place per class
# (quotient, product, the implementation's own summation of <= 1000 classes); the oracle sums exactly (fsum)
M3_RTOL = 1e-12


def consistent(st):
    """boundaries strictly increase from the stated minimum to the stated maximum, centres are
    midpoints, array lengths match the class count, populations are non-negative"""
    n = st['bins']
    b, c, q = st['bounds'], st['size'], st['psd']
    if n < 1:
        return 'class count %d' % n
    if len(q) != n or len(c) != n or len(b) != n + 1:
        return 'lengths PSD/centres/boundaries = %d/%d/%d for %d classes' % (len(q), len(c), len(b), n)
    if not all(math.isfinite(x) for x in b + c + q):
        return 'non-finite entry'
    if b[0] != st['min'] or b[-1] != st['max']:
        return 'boundaries run from %r to %r but min, max = %r, %r' % (b[0], b[-1], st['min'], st['max'])
    for i in range(n):
        if not b[i] < b[i + 1]:
            return 'boundaries not strictly increasing at %d: %r, %r' % (i, b[i], b[i + 1])
    for i in range(n):
        mid = (b[i] + b[i + 1]) / 2
        if abs(c[i] - mid) > 4e-16 * abs(mid):
            return 'centre %d is %r, midpoint is %r' % (i, c[i], mid)
    for i in range(n):
        if q[i] < 0:
            return 'population %d is %r' % (i, q[i])
    return None


def covers(pre, post):
    """does the new grid cover every populated class of the old one"""
    b, q = pre['bounds'], pre['psd']
    for i in range(len(q)):
        if q[i] > 0 and not (post['min'] <= b[i] and b[i + 1] <= post['max']):
            return False
    return True


def own_linspace(a, b, n):
    return [a + i * (b - a) / n for i in range(n)] + [b]


def oracle_step(pre, op, post, ret, err, extra, init=None):
    """list of (clause, cls, message) for one observed transition; init = the state right after construction"""
    v = []
    k = op['op']
    init = init or pre
    if post.get('arg_changed') and not pre.get('arg_changed'):
        v.append(('arguments_unchanged', 'scalar argument', 'after %s an argument object of the caller changed: %s' % (k, post['arg_changed'])))
    if post.get('bystander_changed') and not pre.get('bystander_changed'):
        v.append(('instances_independent', 'second object', 'after %s on one object, %s' % (k, post['bystander_changed'])))
    if (post['omin'], post['omax'], post['obins']) != (init['omin'], init['omax'], init['obins']) and \
            (pre['omin'], pre['omax'], pre['obins']) == (init['omin'], init['omax'], init['obins']):
        v.append(('reset_restores', 'initial grid record', 'after %s the recorded initial grid (originalMin, originalMax, originalBins) is %r, the constructor set %r'
                  % (k, (post['omin'], post['omax'], post['obins']), (init['omin'], init['omax'], init['obins']))))
    if k == 'Moments':
        if err:
            return v
        r1, r2 = extra
        names = ['MomentFromN', 'CumulativeMomentFromN', 'WeightedMomentFromN', 'CumulativeWeightedMomentFromN',
                 'ZeroMomentFromN', 'FirstMomentFromN', 'SecondMomentFromN', 'ThirdMomentFromN']
        N, w, o, c = op['N'], op['w'], op['order'], pre['size']
        terms = [N[i] * c[i] ** o for i in range(len(N))]
        wterms = [terms[i] * w[i] for i in range(len(N))]
        cum = lambda l: [sum(l[:i + 1]) for i in range(len(l))]
        expect = [sum(terms), cum(terms), sum(wterms), cum(wterms), sum(N), sum(N[i] * c[i] for i in range(len(N))),
                  sum(N[i] * c[i] ** 2 for i in range(len(N))), sum(N[i] * c[i] ** 3 for i in range(len(N)))]
        scale = [sum(abs(x) for x in terms)] * 2 + [sum(abs(x) for x in wterms)] * 2 + [sum(abs(x) for x in N)] + \
                [sum(abs(N[i] * c[i] ** j) for i in range(len(N))) for j in (1, 2, 3)]
        for nm, a, b_, e, sc in zip(names, r1, r2, expect, scale):
            if a != b_:
                v.append(('moments_depend_only_on_argument', nm,
                          '%s(N, ...) changed from %r to %r when only the stored PSD changed' % (nm, a, b_)))
            else:
                av, ev = (a if isinstance(a, list) else [a]), (e if isinstance(e, list) else [e])
                if len(av) != len(ev) or any(abs(x - y) > 1e-9 * sc + 1e-300 for x, y in zip(av, ev)):
                    v.append(('moments_depend_only_on_argument', nm,
                              '%s(N, ...) = %r, the moment of the supplied distribution is %r' % (nm, a, e)))
        return v
    if consistent(pre):
        return v        # already inconsistent before this operation: reported where it broke
    if post.get('revert_error') and not pre.get('revert_error') and k != 'Moments':
        v.append(('consistent', 'revert raises', 'after %s a revert() raises %s' % (k, post['revert_error'])))
    if k == 'Reset' and op['rb'] and not err:
        # reset restores the initial grid (checked on its own, also when the result is not even consistent)
        exp = own_linspace(init['omin'], init['omax'], init['obins'])
        if (post['min'], post['max'], post['bins']) != (init['omin'], init['omax'], init['obins']) \
           or len(post['bounds']) != len(exp) or any(abs(x - y) > 1e-13 * abs(y) for x, y in zip(post['bounds'], exp)) \
           or any(x != 0 for x in post['psd']):
            v.append(('reset_restores', 'grid', 'reset gives %d classes with boundaries %r .. %r, min/max %r/%r (PSD total %r); the initial grid has %d classes on [%r, %r]'
                      % (post['bins'], post['bounds'][0] if post['bounds'] else None, post['bounds'][-1] if post['bounds'] else None,
                         post['min'], post['max'], sum(post['psd']), init['obins'], init['omin'], init['omax'])))
    bad = consistent(post)
    if bad:
        v.append(('consistent', k, 'after %s: %s' % (k, bad)))
        return v
    if err:
        return v
    if k == 'Add':
        n = pre['bins']
        if post['bins'] != n + op['k']:
            v.append(('extend_prefix', 'count', 'extending %d classes by %d gives %d' % (n, op['k'], post['bins'])))
        elif post['psd'][:n] != pre['psd'] or any(x != 0 for x in post['psd'][n:]):
            v.append(('extend_prefix', 'populations', 'extending the grid changed existing populations or added non-empty classes'))
        elif any(abs(post['bounds'][i] - pre['bounds'][i]) > 1e-12 * abs(pre['bounds'][i]) for i in range(n + 1)):
            i = [i for i in range(n + 1) if abs(post['bounds'][i] - pre['bounds'][i]) > 1e-12 * abs(pre['bounds'][i])][0]
            v.append(('extend_prefix', 'boundaries', 'extending the grid moved boundary %d from %r to %r' % (i, pre['bounds'][i], post['bounds'][i])))
    remeshed = (k == 'Change' and not op['reset']) or (k == 'Adjust' and ret is not None and ret[0] and ret[1] is None)
    if remeshed and covers(pre, post):
        a, b_ = m3(pre), m3(post)
        if abs(a - b_) > M3_RTOL * max(abs(a), abs(b_)):
            cls = 'populated range covered, new PSD empty' if b_ == 0 else 'populated range covered'
            v.append(('remesh_third_moment', cls,
                      're-meshing %d classes on [%r, %r] to %d classes on [%r, %r] changed the third moment from %r to %r'
                      % (pre['bins'], pre['min'], pre['max'], post['bins'], post['min'], post['max'], a, b_)))
    if k == 'Adjust' and pre['adaptive'] and pre['minBins'] <= pre['maxBins'] and post['bins'] > pre['maxBins']:
        v.append(('adjust_le_max', 'adaptive', 'automatic adjustment left %d classes, maximum is %d' % (post['bins'], pre['maxBins'])))
    return v


def oracle_trace(trace):
    out = []
    if trace and trace[0][0].get('revert_error'):
        out.append((0, 'consistent', 'revert raises', 'on a new object revert() raises %s' % trace[0][0]['revert_error']))
    for i, (pre, op, post, ret, err, extra) in enumerate(trace):
        for h in oracle_step(pre, op, post, ret, err, extra, init=trace[0][0]):
            out.append((i,) + h)
    return out


# ------------------------------------------------------------------------------------------
# generators
def tie_bins(rng, bins, mb, xb):
    """a third of the configurations start with exactly minBins or maxBins classes: the automatic re-mesh
    (onto minBins when coarsening, onto maxBins after dissolution) then lands on the INITIAL class count
    with a different range - the case in which 'same number of classes' and 'same grid' come apart"""
    u = rng.random()
    return mb if u < 0.2 else xb if u < 0.35 else bins


def gen_conv(rng):
    """how the constructor is called: number objects (python float / numpy scalar / 0-d array / int), keyword or positional,
    and whether a second object built from the same argument objects lives alongside"""
    return {'conv': str(rng.choice(['float', 'np64', '0d', 'int'], p=[0.3, 0.2, 0.35, 0.15])), 'kw': bool(rng.random() < 0.4),
            'bystander': bool(rng.random() < 0.5)}


def gen_cfg(rng, quick):
    if rng.random() < 0.4:
        cmin = float(rng.choice([0, 1, 2, 4, 0.5]))
        cmax = float(rng.choice([8, 16, 10, 20, 32, 40, 64]))
        bins = int(rng.choice([1, 2, 3, 4, 8, 16]))
        mb = int(rng.choice([2, 4, 8]))
        xb = mb * int(rng.choice([1, 2, 4]))
        bins = tie_bins(rng, bins, mb, xb)
        return {'kind': 'dyadic', 'cMin': cmin, 'cMax': cmax, 'bins': bins, 'minBins': mb, 'maxBins': xb, **gen_conv(rng)}
    cmin = float(10 ** rng.uniform(-10.5, -8.5))
    cmax = cmin * float(10 ** rng.uniform(0.0, 2.0))
    top = 40 if quick else 100
    bins = int(rng.integers(1, top + 1))
    mb = int(rng.integers(2, 17 if quick else 41))
    xb = mb + int(rng.integers(0, 25 if quick else 61))
    bins = tie_bins(rng, bins, mb, xb)
    return {'kind': 'physical', 'cMin': cmin, 'cMax': cmax, 'bins': bins, 'minBins': mb, 'maxBins': xb, **gen_conv(rng)}


def gen_psd(rng, st, dyadic):
    n = st['bins']
    c = np.array(st['size'])
    kind = rng.choice(['zero', 'single', 'lognormal', 'sparse', 'huge', 'nearone', 'low', 'lastfilled'],
                      p=[0.05, 0.17, 0.2, 0.1, 0.08, 0.1, 0.2, 0.1])
    q = np.zeros(n)
    if dyadic:
        pick = lambda size=None: rng.choice([0, 0, 1, 2, 3, 4, 8, 0.5, 1.5, 64, 1024], size=size).astype(float)
    else:
        pick = None
    if kind == 'single':
        q[rng.integers(0, n)] = float(pick()) if dyadic else float(rng.choice([2.0, 1.5, 10 ** rng.uniform(0, 20)]))
    elif kind == 'lognormal':
        if dyadic:
            q = pick(n)
        else:
            mu = rng.uniform(np.log(c[0]), np.log(c[-1]))
            s = rng.uniform(0.05, 1.0)
            q = 10 ** rng.uniform(2, 24) * np.exp(-(np.log(c) - mu) ** 2 / (2 * s * s))
            q[q < 1] = 0
    elif kind == 'sparse':
        k = int(rng.integers(1, min(n, 3) + 1))
        idx = rng.choice(n, k, replace=False)
        q[idx] = pick(k) if dyadic else 10 ** rng.uniform(0, 20, k)
    elif kind == 'huge':
        q = pick(n) * 2.0 ** 40 if dyadic else 10 ** rng.uniform(0, 30, n)
        q[rng.random(n) < 0.3] = 0
    elif kind == 'nearone':
        q = rng.choice([0, 0.5, 1.0, 1.0000000000000002, 0.9999999999999999, 2.0, 1.25], size=n).astype(float)
    elif kind == 'low':
        # populated only in the lowest classes (what a dissolving distribution looks like)
        m = max(1, int(rng.integers(1, max(2, st['minBins'] // 2 + 2))))
        m = min(m, n)
        q[:m] = pick(m) if dyadic else 10 ** rng.uniform(0, 12, m)
        q[:m][rng.random(m) < 0.3] = 0
    elif kind == 'lastfilled':
        q = pick(n) if dyadic else np.where(rng.random(n) < 0.5, 10 ** rng.uniform(0, 10, n), 0)
        q[-1] = float(rng.choice([2, 5, 1.5, 1e6]))
    return [float(x) for x in q]


def gen_step_result(rng, st, dyadic):
    """what UpdatePBMEuler is handed: the distribution after an explicit step.  An unlimited step (user iterator,
    step above the stability bound of the smallest classes) over-draws classes, rounding leaves residues: a third
    of the arrays carry negative entries (tiny residues, large over-draws, -0.0, an all-negative array)"""
    q = gen_psd(rng, st, dyadic)
    n = len(q)
    u = rng.random()
    if n == 0 or u < 0.62:
        return q
    idx = rng.choice(n, int(rng.integers(1, min(n, 4) + 1)), replace=False)
    kind = rng.choice(['residue', 'overdraw', 'mixed', 'negzero', 'all'], p=[0.3, 0.3, 0.25, 0.05, 0.1])
    for i in idx:
        if kind == 'residue' or (kind == 'mixed' and rng.random() < 0.5):
            q[i] = -float(rng.choice([2.0 ** -20, 2.0 ** -40, 0.5, 0.25])) if dyadic else -float(10 ** rng.uniform(-12, -0.1))
        elif kind in ('overdraw', 'mixed'):
            q[i] = -float(rng.choice([1, 2, 1.5, 1024, 2.0 ** 40])) if dyadic else -float(10 ** rng.uniform(0, 12))
        elif kind == 'negzero':
            q[i] = -0.0
    if kind == 'all':
        q = [-abs(x) - (1.0 if dyadic else float(10 ** rng.uniform(-6, 6))) for x in q]
    return q


def gen_op(rng, st, dyadic, quick):
    """an inconsistent state (only reachable when the code under test is broken) must not stop the
    generator: fall back to argument-free operations"""
    try:
        return gen_op_(rng, st, dyadic or not (0 < st['size'][0] < st['size'][-1] or st['bins'] == 1 and 0 < st['size'][0]), quick)
    except Exception:
        return [{'op': 'Adjust', 'chk': True}, {'op': 'Backup'}, {'op': 'Revert'}, {'op': 'Reset', 'rb': False}][int(rng.integers(0, 4))]


def moved_same_count(st):
    """the grid has the initial number of classes but is not the initial grid"""
    return st['bins'] == st['obins'] and (st['min'], st['max']) != (st['omin'], st['omax'])


def gen_op_(rng, st, dyadic, quick):
    n = st['bins']
    cap = 64 if quick else 100
    if moved_same_count(st) and rng.random() < 0.3:
        # reset paths on a grid that only shares the class count with the initial one
        if rng.random() < 0.7:
            return {'op': 'Reset', 'rb': True}
        return {'op': 'Change', 'cmin': st['min'], 'cmax': st['max'], 'nb': None if rng.random() < 0.5 else st['obins'], 'reset': True}
    names = ['Adjust', 'Update', 'LoadFn', 'Change', 'Add', 'Backup', 'Revert', 'Reset', 'LoadHist', 'SetAdaptive', 'Moments']
    p = np.array([0.22, 0.14, 0.14, 0.14, 0.09, 0.05, 0.06, 0.04, 0.05, 0.03, 0.05])
    k = str(rng.choice(names, p=p / p.sum()))
    if k == 'Add' and n > cap:
        k = 'Change'
    if k == 'Adjust':
        return {'op': k, 'chk': bool(rng.random() < 0.6), 'call': str(rng.choice(['pos', 'kw', 'short']))}
    if k == 'Update':
        return {'op': k, 'newN': gen_step_result(rng, st, dyadic)}
    if k == 'LoadFn':
        return {'op': k, 'vals': gen_psd(rng, st, dyadic)}
    if k == 'Add':
        return {'op': k, 'k': int(rng.choice([0, 1, 1, 2, 3, 5, 8, int(rng.integers(0, 13))])), 'call': str(rng.choice(['pos', 'kw', 'short']))}
    if k == 'Backup' or k == 'Revert':
        return {'op': k}
    if k == 'Reset':
        return {'op': k, 'rb': bool(rng.random() < 0.6), 'call': str(rng.choice(['pos', 'kw', 'short']))}
    if k == 'SetAdaptive':
        return {'op': k, 'a': bool(rng.random() < 0.5)}
    if k == 'LoadHist':
        m = int(rng.integers(0, 40))
        lo, hi = st['min'], st['max']
        data = list(rng.uniform(lo - 0.1 * (hi - lo), hi + 0.1 * (hi - lo), m))
        data += [float(x) for x in rng.choice(st['bounds'], int(rng.integers(0, 5)))]
        return {'op': k, 'data': [float(x) for x in data], 'call': str(rng.choice(['pos', 'kw', 'short']))}
    if k == 'Moments':
        N = gen_psd(rng, st, dyadic)
        w = [float(x) for x in (rng.integers(0, 5, n).astype(float) if dyadic else rng.uniform(0, 3, n))]
        return {'op': k, 'N': N, 'w': w, 'order': int(rng.integers(0, 5)), 'alt': []}
    # Change.  A grid is (minimum, maximum, class count): every subset of the three is kept while the others change
    # (each of the 8 combinations has its share), so that anything the code derives from only part of the grid
    # (a cache key, a "nothing changed" shortcut) meets a grid that agrees on that part and differs elsewhere.
    b = st['bounds']
    keep_min, keep_max, keep_n = bool(rng.random() < 0.5), bool(rng.random() < 0.45), bool(rng.random() < 0.4)
    if keep_min:
        cmin = st['min']
    elif dyadic:
        cmin = float(rng.choice([0, 1, 2, 0.5, 4, b[int(rng.integers(0, n))], st['min'] / 2, st['min'] + 1]))
    else:
        cmin = float(rng.choice([st['min'] * rng.uniform(0.3, 1.5), b[int(rng.integers(0, n))], 0.0], p=[0.55, 0.35, 0.1]))
    if keep_max:
        cmax = st['max']
        if 10 * cmin > cmax:                          # the maximum is max(10 cMin, cMax): keep it really
            cmin = float(rng.choice([0.0, st['max'] / 16, st['max'] / 32])) if dyadic else float(st['max'] / 10 * rng.uniform(0.05, 0.999))
    elif dyadic:
        cmax = float(rng.choice([b[int(rng.integers(1, n + 1))], 8, 16, 24, 40, 2 * st['max'], st['max'] / 2, st['max'] + 1]))
    else:
        cmax = float(rng.choice([b[int(rng.integers(1, n + 1))], st['max'] * rng.uniform(0.5, 3.0), cmin * 2], p=[0.4, 0.45, 0.15]))
    nudge = rng.random() < 0.18
    if nudge:
        # range moved by a relative 1e-13 .. 1e-3, class count kept or nearly kept: the re-binning changes the third
        # moment by about that much, and the rescaling has to remove it all the same
        eps = lambda: float(rng.choice([-1, 1])) * (2.0 ** -int(rng.integers(10, 44)) if dyadic else float(10 ** rng.uniform(-13, -3)))
        cmin = st['min'] * (1 + eps()) if rng.random() < 0.5 else st['min']
        cmax = st['max'] * (1 + eps()) if (rng.random() < 0.8 or cmin == st['min']) else st['max']
        keep_n = bool(rng.random() < 0.8)
    if not (cmin > 0 or cmax > cmin):
        cmax = cmin + 1.0
    if keep_n:
        u = rng.random()
        nb = None if u < 0.55 else n if u < 0.85 else st['obins']   # default argument / explicitly the current / the initial count
    elif nudge:
        nb = max(1, n + int(rng.choice([-2, -1, 1, 2])))
    else:
        nb = int(rng.choice([1, 2, 3, int(rng.integers(1, 41)), st['minBins'], st['maxBins'], max(1, n // 3), min(cap, 2 * n)]))
    if nb is not None and nb > cap:
        nb = cap
    return {'op': k, 'cmin': float(cmin), 'cmax': float(cmax), 'nb': nb, 'reset': bool(rng.random() < 0.1),
            'conv': str(rng.choice(['float', 'np64', '0d', 'int'])), 'call': str(rng.choice(['pos', 'kw', 'short', 'mixed']))}


def gen_sequence(rng, quick, length):
    """generation is interleaved with execution: populations are drawn on the grid of the moment"""
    cfg = gen_cfg(rng, quick)
    dyadic = cfg['kind'] == 'dyadic'
    p = new_pbm(cfg)
    trace = []
    grid_changed = False
    for _ in range(length):
        pre = snap(p)
        if grid_changed and rng.random() < 0.3:
            # moment functions right after the grid moved: they must use the grid of NOW, whatever was evaluated before
            try:
                n = pre['bins']
                op = {'op': 'Moments', 'N': gen_psd(rng, pre, dyadic), 'order': int(rng.integers(0, 5)), 'alt': [],
                      'w': [float(x) for x in (rng.integers(0, 5, n).astype(float) if dyadic else rng.uniform(0, 3, n))]}
            except Exception:
                op = gen_op(rng, pre, dyadic, quick)
        else:
            op = gen_op(rng, pre, dyadic, quick)
        op2, ret, err, extra = apply_op(p, op)
        post = snap(p)
        grid_changed = pre['bounds'] != post['bounds']
        trace.append((pre, op2, post, ret, err, extra))
    return cfg, trace


def gen_recorded_sequence(rng, quick):
    """The way the precipitation model uses the class: recording on, then per iteration UpdatePBMEuler(t, N) (which records)
    followed by adjustSizeClassesEuler - distributions that fill the last class (extension, and coarsening once the class
    count exceeds maxBins) or sit in the lowest classes (refinement) - and afterwards "load": setPSDtoRecordedTime(t) for t
    before / at / between / after the recorded times (between records on the same grid, bracketing an extension, a
    coarsening, a refinement), each followed by ordinary grid operations on the loaded state."""
    cfg = gen_cfg(rng, quick)
    if rng.random() < 0.6:                      # small class-count window: re-meshes happen within a few iterations
        cfg['minBins'] = int(rng.choice([2, 4, 6, 8]))
        cfg['maxBins'] = cfg['minBins'] * int(rng.choice([2, 3]))
        cfg['bins'] = int(rng.choice([cfg['minBins'], cfg['maxBins'], int(rng.integers(cfg['minBins'], cfg['maxBins'] + 1))]))
    dyadic = cfg['kind'] == 'dyadic'
    cfg['kind'] = 'recorded'
    p = new_pbm(cfg)
    trace = []
    clock = [0.0]

    def do(op):
        pre = snap(p)
        op2, ret, err, extra = apply_op(p, op)
        trace.append((pre, op2, snap(p), ret, err, extra))

    do({'op': 'EnableRecording'})
    if rng.random() < 0.25:
        do({'op': 'SetAdaptive', 'a': False})
    times = [0.0]
    counts = [cfg['bins']]
    for _ in range(int(rng.integers(4, 13))):
        st = snap(p)
        n = st['bins']
        mode = rng.choice(['grow', 'grow', 'shrink', 'any'])
        if mode == 'grow':
            q = np.array(gen_psd(rng, st, dyadic))
            q[-1] = float(rng.choice([2, 5, 1e6]))
        elif mode == 'shrink':
            q = np.zeros(n)
            m = max(1, min(n, st['minBins'] // 4 + 1))
            q[:m] = 64.0 if dyadic else 10 ** rng.uniform(1, 9)
        else:
            q = np.array(gen_step_result(rng, st, dyadic))
        clock[0] += float(rng.choice([1.0, 0.5, 2.0])) if dyadic else float(10 ** rng.uniform(-2, 2))
        times.append(clock[0])
        do({'op': 'Update', 'newN': [float(x) for x in q], 't': clock[0]})
        counts.append(trace[-1][2]['bins'])          # class count of this record
        do({'op': 'Adjust', 'chk': bool(mode == 'shrink' or rng.random() < 0.2)})
    for _ in range(int(rng.integers(2, 6))):
        u = rng.random()
        # records between which the grid changed (extension / coarsening / refinement) are the interesting brackets
        moved = [i for i in range(len(counts) - 1) if counts[i] != counts[i + 1]]
        if u < 0.6 and len(times) > 1:
            i = int(rng.choice(moved)) if (moved and rng.random() < 0.7 and len(counts) == len(times)) else int(rng.integers(0, len(times) - 1))
            t = times[i] + (times[i + 1] - times[i]) * float(rng.choice([0.5, 0.25, 0.75, rng.uniform(0.01, 0.99)]))
        elif u < 0.75:
            t = times[int(rng.integers(0, len(times)))]
        elif u < 0.87:
            t = times[0] - 1.0
        else:
            t = times[-1] + 1.0
        do({'op': 'LoadRecorded', 't': float(t), 'conv': str(rng.choice(['float', 'np64', '0d']))})
        for _ in range(int(rng.integers(1, 4))):
            st = snap(p)
            op = gen_op(rng, st, dyadic, quick)
            if op['op'] == 'Update':
                clock[0] += 1.0
                times.append(clock[0])
                op['t'] = clock[0]
            do(op)
            if op['op'] == 'Update':
                counts.append(trace[-1][2]['bins'])
    return cfg, trace


def gen_fine_sequence(rng, quick):
    """Grids whose classes are narrow compared with the radius of the populated classes (150 - 600 classes, particles
    in the upper part of the grid): there the re-binning alone changes the third moment by only 1e-7 .. 1e-4, so that the
    exactness of the re-mesh rests entirely on the rescaling.  Manual refinements / coarsenings / range changes and the
    automatic route (last class fills, grid is extended beyond maxBins and coarsened to minBins; dissolution refinement).
    Too large for a per-step execution in Coq within the quick tier: the independent oracle decides on all of them, a few
    of the smaller steps are also compared with the model."""
    kind = str(rng.choice(['manual', 'adaptive', 'chain']))
    bins = int(rng.choice([150, 200, 300, 400, 500] if quick else [150, 200, 300, 400, 500, 600, 800]))
    if kind == 'adaptive':
        mb = int(rng.choice([bins // 2, (3 * bins) // 4, bins]))
        xb = bins + int(rng.integers(0, bins // 5 + 1))
    else:
        mb, xb = int(rng.choice([100, bins // 2])), bins + int(rng.integers(0, 200))
    cmin = float(rng.choice([1e-10, 5e-10, 0.0, 1.0]))
    cmax = (1e-8 if cmin < 1 else 100.0) * float(rng.choice([1, 2, 0.5]))
    cfg = {'kind': 'fine', 'cMin': cmin, 'cMax': cmax, 'bins': bins, 'minBins': max(2, mb), 'maxBins': max(2, mb, xb)}
    p = new_pbm(cfg)
    trace = []

    def do(op):
        pre = snap(p)
        op2, ret, err, extra = apply_op(p, op)
        trace.append((pre, op2, snap(p), ret, err, extra))

    def top_psd(last_filled):
        n = p.bins
        c = np.asarray(p.PSDsize)
        q = np.zeros(n)
        lo = int(n * rng.uniform(0.55, 0.9))
        hi = n if last_filled else max(lo + 1, int(n * rng.uniform(0.9, 0.99)))
        shape = str(rng.choice(['flat', 'ramp', 'peak', 'single']))
        k = np.arange(lo, hi)
        if shape == 'flat':
            q[lo:hi] = 10 ** rng.uniform(1, 12)
        elif shape == 'ramp':
            q[lo:hi] = 10 ** rng.uniform(1, 12) * (1 + (k - lo) * rng.uniform(0.01, 1))
        elif shape == 'peak':
            mid, wd = 0.5 * (lo + hi), max(1.0, 0.2 * (hi - lo))
            q[lo:hi] = 10 ** rng.uniform(3, 12) * np.exp(-((k - mid) / wd) ** 2)
            q[q < 1] = 0
        else:
            q[int(rng.integers(lo, hi))] = 10 ** rng.uniform(1, 12)
        if last_filled:
            q[-1] = max(q[-1], 5.0)
        return [float(x) for x in q]

    if rng.random() < 0.3:
        do({'op': 'SetAdaptive', 'a': bool(rng.random() < 0.5)})
    steps = 1 if kind == 'manual' else int(rng.integers(2, 5)) if kind == 'adaptive' else int(rng.integers(3, 7))
    for _ in range(steps):
        if p.bins > 1600:
            break
        if kind == 'adaptive':
            diss = rng.random() < 0.25
            do({'op': 'Update', 'newN': top_psd(not diss) if not diss else
                [float(x) for x in np.where(np.arange(p.bins) < max(1, p.minBins // 4), 10 ** rng.uniform(1, 6), 0.0)]})
            do({'op': 'Adjust', 'chk': bool(diss or rng.random() < 0.3)})
        else:
            if not trace or rng.random() < 0.6 or not any(x > 0 for x in trace[-1][2]['psd']):
                do({'op': 'LoadFn', 'vals': top_psd(False)} if rng.random() < 0.5 else {'op': 'Update', 'newN': top_psd(False)})
            n = p.bins
            nb = int(rng.choice([2 * n, n // 2, n, n + int(rng.integers(-n // 10, n // 10 + 1)), int(n * rng.uniform(0.4, 2.5))]))
            nb = max(50, min(nb, 1500))
            cmx = float(p.max * rng.choice([1.0, 1.0, 1.1, 1.5, 2.0, float(1 + 10 ** rng.uniform(-9, -2))]))
            do({'op': 'Change', 'cmin': float(p.min), 'cmax': cmx, 'nb': None if nb == n and rng.random() < 0.5 else nb, 'reset': False})
    return cfg, trace


# ------------------------------------------------------------------------------------------
# Coq literals
def state_lit(st):
    return '(mkState Qops %s %s %s %s %s %s %s %s %s %s %s %s %s %s)' % (
        qlit(st['min']), qlit(st['max']), natlit(st['bins']), qlist(st['psd']), qlist(st['bounds']), qlist(st['size']),
        qlit(st['omin']), qlit(st['omax']), natlit(st['obins']), natlit(st['minBins']), natlit(st['maxBins']),
        boollit(st['adaptive']), qlist(st['ppsd']), qlist(st['pbounds']))


def op_lit(op):
    k = op['op']
    if k == 'Reset':
        return '(Reset Qops %s)' % boollit(op['rb'])
    if k == 'Add':
        return '(Add Qops %s)' % natlit(op['k'])
    if k == 'Change':
        nb = 'None' if op['nb'] is None else '(Some %s)' % natlit(op['nb'])
        return '(Change Qops %s %s %s %s)' % (qlit(op['cmin']), qlit(op['cmax']), nb, boollit(op['reset']))
    if k == 'Adjust':
        return '(Adjust Qops %s)' % boollit(op['chk'])
    if k == 'Update':
        return '(Update Qops %s)' % qlist(op['newN'])
    if k == 'Backup':
        return '(Backup Qops)'
    if k == 'Revert':
        return '(Revert Qops)'
    if k == 'LoadFn':
        return '(LoadFn Qops %s)' % qlist(op['vals'])
    if k == 'LoadHist':
        return '(LoadHist Qops %s)' % qlist(op['data'])
    if k == 'SetAdaptive':
        return '(SetAdaptive Qops %s)' % boollit(op['a'])
    raise ValueError(k)


def post_lit(st, ret, err):
    ch, ni = (ret if ret is not None else (False, None))
    nis = 'None' if ni is None else '(Some %s)' % natlit(ni)
    return '(mkPost %s %s %s %s %s %s %s %s %s %s %s)' % (
        qlit(st['min']), qlit(st['max']), natlit(st['bins']), qlist(st['psd']), qlist(st['bounds']), qlist(st['size']),
        qlist(st['ppsd']), qlist(st['pbounds']), boollit(ch), nis, boollit(err is not None))


def cfg_lit(cfg):
    return '(mkCfg Qops %s %s %s %s %s)' % (qlit(cfg['cMin']), qlit(cfg['cMax']), natlit(cfg['bins']),
                                            natlit(cfg['minBins']), natlit(cfg['maxBins']))


def finite_state(st):
    return all(math.isfinite(x) for x in [st['min'], st['max']] + st['psd'] + st['bounds'] + st['size'] + st['ppsd'] + st['pbounds'])


def step_term(pre, op, post, ret, err, extra):
    if op['op'] == 'Moments':
        r1 = extra[0]
        return 'checkMoments %s %s %s %s %s %s %s %s %s' % (RT, state_lit(pre), qlist(op['N']), qlist(op['w']), natlit(op['order']),
                                                           qlit(r1[0]), qlist(r1[1]), qlit(r1[2]), qlist(r1[3]))
    return 'check08 %s %s %s %s' % (RT, state_lit(pre), op_lit(op), post_lit(post, ret, err))


FIELDS = ['min', 'max', 'bins', 'PSD', 'PSDbounds', 'PSDsize', 'backupPSD', 'backupPSDbounds', 'return value / exception']


def read_verdict(op, post, res):
    """-> (list of disagreement strings, indeterminate)"""
    dis = []

    def rep(name, r, impl):
        if r is not None:
            kk, ap = r[1]
            iv = impl[kk] if isinstance(impl, list) and kk < len(impl) else impl
            dis.append('%s[%d]: implementation %r, model %r' % (name, kk, iv if not isinstance(iv, list) else None, float(tofrac(ap))))
    if op['op'] == 'Moments':
        for nm, r in zip(['MomentFromN', 'CumulativeMomentFromN', 'WeightedMomentFromN', 'CumulativeWeightedMomentFromN'], res):
            rep(nm, r, None)
        return dis, False
    tie, vmin, vmax, binsok, vpsd, vb, vs, vpp, vpb, retok, mbins = res
    if tie:
        return [], True
    rep('min', vmin, post['min'])
    rep('max', vmax, post['max'])
    if not binsok:
        dis.append('bins: implementation %d, model %d' % (post['bins'], mbins))
    rep('PSD', vpsd, post['psd'])
    rep('PSDbounds', vb, post['bounds'])
    rep('PSDsize', vs, post['size'])
    rep('backupPSD', vpp, post['ppsd'])
    rep('backupPSDbounds', vpb, post['pbounds'])
    if not retok:
        dis.append('return value / exception differs from the model')
    return dis, False


# ------------------------------------------------------------------------------------------
def hexop(op):
    d = {}
    for k, v in op.items():
        if k in LIST_KEYS or k == 'alt':
            d[k] = [hexf(x) for x in v]
        elif k in FLOAT_KEYS:
            d[k] = hexf(v)
        else:
            d[k] = v
    return d


def unhexop(d):
    op = {}
    f = lambda x: float.fromhex(x) if isinstance(x, str) else float(x)
    for k, v in d.items():
        if k in LIST_KEYS or k == 'alt':
            op[k] = [f(x) for x in v]
        elif k in FLOAT_KEYS:
            op[k] = f(v)
        else:
            op[k] = v
    return op


def hexcfg(cfg):
    d = dict(cfg)
    d['cMin'], d['cMax'] = hexf(cfg['cMin']), hexf(cfg['cMax'])
    return d


def unhexcfg(d):
    c = dict(d)
    f = lambda x: float.fromhex(x) if isinstance(x, str) else float(x)
    c['cMin'], c['cMax'] = f(d['cMin']), f(d['cMax'])
    c.setdefault('kind', 'corpus')
    return c


def readable(op):
    d = {}
    for k, v in op.items():
        if k == 'alt':
            continue
        d[k] = v
    return d


def corpus_sequences():
    out = []
    p = os.path.join(VERIF, 'corpus', 'C08')
    if os.path.isdir(p):
        for f in sorted(os.listdir(p)):
            if f.endswith('.json'):
                o = json.load(open(os.path.join(p, f)))
                cfg = unhexcfg(o['cfg'])
                cfg['kind'] = 'corpus:' + f
                out.append((cfg, [unhexop(x) for x in o['ops']]))
    return out


def shrink(cfg, ops, clause, cls):
    """remove operations (then simplify the survivors) while the same clause keeps failing"""
    def fails(c, o):
        try:
            return any(h[1] == clause and h[2] == cls for h in oracle_trace(run_sequence(c, o)))
        except Exception:
            return False
    # cut everything after the first failing step
    tr = run_sequence(cfg, ops)
    hits = [h for h in oracle_trace(tr) if h[1] == clause and h[2] == cls]
    if hits:
        ops = [t[1] for t in tr[:hits[0][0] + 1]]
    changed = True
    while changed:
        changed = False
        i = len(ops) - 2
        while i >= 0:
            cand = ops[:i] + ops[i + 1:]
            if fails(cfg, cand):
                ops = cand
                changed = True
            i -= 1
    # simplify: fewer classes in the configuration
    for key, vals in (('bins', [1, 2, 3, 4, 8]), ('minBins', [2, 4]), ('maxBins', [2, 4, 8])):
        for vv in vals:
            if vv < cfg[key]:
                c2 = dict(cfg)
                c2[key] = vv
                if c2['minBins'] <= c2['maxBins'] and fails(c2, ops):
                    cfg = c2
                    break
    # simplify list arguments: zero out entries that do not matter
    for j, op in enumerate(ops):
        for key in ('newN', 'vals', 'N'):
            if key in op:
                for i in range(len(op[key])):
                    if op[key][i] != 0:
                        o2 = dict(op)
                        o2[key] = list(op[key])
                        o2[key][i] = 0.0
                        cand = ops[:j] + [o2] + ops[j + 1:]
                        if fails(cfg, cand):
                            ops = cand
                            op = o2
    tr = run_sequence(cfg, ops)
    return cfg, [t[1] for t in tr]


def report_hits(ctx, found):
    """found: list of (cfg, ops, hit) with hit = (step, clause, cls, msg)"""
    seen = set()
    for cfg, ops, h in found:
        _, clause, cls, msg = h
        if (clause, cls) in seen:
            continue
        seen.add((clause, cls))
        c2, o2 = shrink(cfg, ops, clause, cls)
        msgs = [x[3] for x in oracle_trace(run_sequence(c2, o2)) if x[1] == clause and x[2] == cls]
        text = (msgs[0] if msgs else msg) + ' (operations: %s)' % ', '.join(o['op'] for o in o2)
        ctx.violation(clause, {'site': SITE, 'cls': cls},
                      {'kind': 'history', 'input': {'cfg': hexcfg(c2), 'ops': [hexop(o) for o in o2]},
                       'decimal': {'cfg': c2, 'ops': [readable(o) for o in o2]},
                       'observed': msgs[0] if msgs else msg,
                       'oracle': 'independent check of the property text on the observed states (harness/c08.py: oracle_step)'},
                      text)


def nontrivial_step(pre, op, post):
    """a step is non-trivial when it acts on a populated distribution or changes the grid"""
    return any(x > 0 for x in pre['psd']) or pre['bins'] != post['bins'] or pre['bounds'] != post['bounds'] \
        or op['op'] in ('Update', 'LoadFn', 'LoadHist', 'Moments', 'LoadRecorded')


def explore(ctx, seqs, label, ship=None, shard=None):
    """correspondence (per step, in Coq) + oracle on a batch of executed sequences.
    seqs: list of (cfg, trace).  returns (disagreements, oracle hits)"""
    terms, where = [], []
    found, dis_all = [], []
    for si, (cfg, trace) in enumerate(seqs):
        ops = [t[1] for t in trace]
        for h in oracle_trace(trace):
            found.append((cfg, ops, h))
        for ti, (pre, op, post, ret, err, extra) in enumerate(trace):
            ctx.count({'cfg': hexcfg(cfg), 'pre': [hexf(x) for x in pre['psd'] + pre['bounds']], 'op': hexop(op)},
                      nontrivial_step(pre, op, post))
            ctx.hist('operation', op['op'])
            ctx.hist('classes', '1' if pre['bins'] == 1 else '2-3' if pre['bins'] <= 3 else '4-16' if pre['bins'] <= 16 else '17-64' if pre['bins'] <= 64 else '65-149' if pre['bins'] < 150 else '150-1600')
            ctx.hist('adaptive', pre['adaptive'])
            if moved_same_count(pre):
                ctx.hist('initial_class_count_on_moved_grid', op['op'] + (':reset' if op.get('rb') or op.get('reset') else ''))
            if op['op'] == 'Adjust':
                s1bins = pre['bins'] + (pre['obins'] // 4 if pre['psd'] and pre['psd'][-1] > 1 else 0)
                ctx.hist('adjust_outcome', 'raised ' + str(err) if err else
                         ('coarsened' if s1bins > pre['maxBins'] else 'refined') if (ret[0] and ret[1] is None) else
                         'extended' if ret[0] else 'unchanged')
            if err and not (op['op'] == 'Adjust' and err == 'IndexError'):
                dis_all.append((cfg, ops[:ti + 1], '%s raised %s: %s' % (op['op'], err, extra)))
                continue
            if op['op'] == 'Moments' and err:
                continue
            if pre.get('revert_error') or post.get('revert_error'):
                dis_all.append((cfg, ops[:ti + 1], 'backup: revert() raises %s' % (post.get('revert_error') or pre.get('revert_error'))))
                continue
            if not (finite_state(pre) and finite_state(post)):
                dis_all.append((cfg, ops[:ti + 1], 'non-finite value in the state after %s' % op['op']))
                continue
            if op['op'] in UNMODELLED:
                ctx.notes['oracle_only_steps'] = ctx.notes.get('oracle_only_steps', 0) + 1
                continue
            if ship is not None and not ship(pre, op, post):
                ctx.notes['oracle_only_steps'] = ctx.notes.get('oracle_only_steps', 0) + 1
                continue
            terms.append(step_term(pre, op, post, ret, err, extra))
            where.append((si, ti))
    res = ctx.coq_eval('steps_' + label, HEADER, terms, shard=shard or max(4, min(60, -(-len(terms) // 32))), timeout=1500) if terms else []
    ties = set()
    for (si, ti), r in zip(where, res):
        cfg, trace = seqs[si]
        pre, op, post, ret, err, extra = trace[ti]
        dis, indet = read_verdict(op, post, r)
        if indet:
            ties.add(si)
            ctx.notes['indeterminate_near_tie'] = ctx.notes.get('indeterminate_near_tie', 0) + 1
        for d in dis:
            dis_all.append((cfg, [t[1] for t in trace[:ti + 1]], 'after %s: %s' % (op['op'], d)))
    return dis_all, found, ties


def run_eligible(trace):
    """whole-sequence execution in exact arithmetic follows the same branches as binary64 when no
    population is within 1e-6 of the thresholds the code compares against (1) and no class-range
    comparison is a near tie"""
    for pre, op, post, ret, err, extra in trace:
        if err:
            return False
        if any(x != 0 and abs(x - 1) < 1e-6 for x in pre['psd'] + post['psd']):
            return False
        if op['op'] == 'Change' and not op['reset']:
            b = pre['bounds']
            near = lambda x, l: any(abs(x - y) <= 1e-9 * abs(y) for y in l)
            if near(op['cmin'], b[1:]) or near(op['cmax'], b[:-1]) or near(10 * op['cmin'], b[:-1]):
                return False    # new range ends on a (rounded) old boundary: the class beyond it shares a sliver or not
        if op['op'] == 'LoadHist' and any(abs(x - b) <= 1e-9 * abs(b) for x in op['data'] for b in pre['bounds']):
            return False        # a sample on a (rounded) class boundary is counted on the other side by exact boundaries
        for st in (pre, post):
            if op['op'] == 'Adjust' and st['max'] != 10 * st['min'] and abs(st['max'] - 10 * st['min']) <= 1e-9 * st['max']:
                return False
    return True


def explore_runs(ctx, seqs, label, ties):
    """constructor for every sequence and whole short sequences, executed from `init cfg` in Coq"""
    terms, where = [], []
    for si, (cfg, trace) in enumerate(seqs):
        if not trace:
            continue
        first = trace[0][0]
        terms.append('checkRun %s %s [] %s' % (RT, cfg_lit(cfg), post_lit(first, None, None)))
        where.append((si, 0))
        state_ops = [t for t in trace if t[1]['op'] != 'Moments']
        if any(t[1]['op'] in UNMODELLED for t in trace):
            state_ops = []
        m = min(len(state_ops), 8)
        if cfg['kind'] in ('dyadic', 'corpus') and si not in ties and m > 0 and run_eligible(state_ops[:m]) \
                and max(t[2]['bins'] for t in state_ops[:m]) <= 24:
            terms.append('checkRun %s %s [%s] %s' % (RT, cfg_lit(cfg), '; '.join(op_lit(t[1]) for t in state_ops[:m]),
                                                    post_lit(state_ops[m - 1][2], None, None)))
            where.append((si, m))
    res = ctx.coq_eval('runs_' + label, HEADER, terms)
    dis_all = []
    for (si, m), r in zip(where, res):
        cfg, trace = seqs[si]
        vmin, vmax, binsok, vpsd, vb, vs, mbins = r
        bad = [n for n, x in zip(['min', 'max', 'PSD', 'PSDbounds', 'PSDsize'], [vmin, vmax, vpsd, vb, vs]) if x is not None]
        if not binsok:
            bad.append('bins (model %d)' % mbins)
        if m > 0:
            ctx.cov['traces_validated_against_impl'] += 1
        if bad:
            ops = [t[1] for t in trace if t[1]['op'] != 'Moments'][:m]
            dis_all.append((cfg, ops, 'model run from the constructor over %d operations differs in %s' % (m, ', '.join(bad))))
    return dis_all


def run(ctx):
    quick = ctx.quick
    ctx.cov['rule'] = ('operation sequences (Reset, Add, Change, Adjust, Update, Backup, Revert, LoadFn, LoadHist, SetAdaptive, moment '
                       'calls) of length <= 40 (quick) / <= 400 (thorough) on a live PopulationBalanceModel, configurations dyadic (exact '
                       'binary64 arithmetic) or physical (1e-10 m scale), populations zero / single class / log-normal / sparse / huge '
                       'range / near the threshold 1 / low classes only / last class filled; a third of the configurations start with bins == minBins or bins == maxBins and 40 % of the re-meshes keep the current / initial class count, followed by reset paths; one evaluation = one operation compared '
                       'with the model; non-trivial = acts on a populated distribution, changes the grid or loads a distribution; '
                       'distinct by hash of (configuration, exact pre-state, exact operation); arrays given to Update carry negative entries in a third of the cases (residues, over-draws); 18 % of the re-meshes move the range by a relative 1e-13 .. 1e-3 only; 14 (quick) / 60 extra sequences on fine grids of 150 - 1600 classes populated in their upper part (manual re-meshes, chains, automatic extension + coarsening / refinement) are decided by the oracle, two of their smaller re-meshes also by the model')
    axioms, failed = ctx.prove(['C08/Properties.v'])
    # corpus first
    corpus = []
    for cfg, ops in corpus_sequences():
        corpus.append((cfg, run_sequence(cfg, ops)))
    nseq, length = (30, 40) if quick else (40, 400)
    seqs = list(corpus)
    for i in range(nseq):
        L = int(ctx.rng.integers(3, length + 1)) if not quick else int(ctx.rng.choice([6, 12, 24, 40]))
        seqs.append(gen_sequence(ctx.rng, quick, L))
    dis, found, ties = explore(ctx, seqs, 'main')
    dis += explore_runs(ctx, seqs, 'main', ties)
    # fine grids (150 - 1600 classes): oracle on every step, the model on a few of the smaller re-meshes
    fine = [gen_fine_sequence(ctx.rng, quick) for _ in range(14 if quick else 60)]
    budget = [2 if quick else 8]

    def ship_fine(pre, op, post):
        if op['op'] in ('Change', 'Adjust') and pre['bins'] + post['bins'] <= (300 if quick else 500) and budget[0] > 0 \
                and any(x > 0 for x in pre['psd']):
            budget[0] -= 1
            return True
        return False
    dis_f, found_f, _ = explore(ctx, fine, 'fine', ship=ship_fine, shard=1)
    dis += dis_f
    found += found_f
    seqs += fine
    # recorded runs + "load" of a recorded time (update / adjust as the precipitation model drives them)
    rec = [gen_recorded_sequence(ctx.rng, quick) for _ in range(14 if quick else 120)]
    dis_r, found_r, _ = explore(ctx, rec, 'rec')
    dis += dis_r + explore_runs(ctx, rec, 'rec', set())
    found += found_r
    seqs += rec
    for cfg, trace in seqs[:3] + seqs[len(corpus):len(corpus) + 2]:
        ctx.sample({'cfg': {k: cfg[k] for k in ('kind', 'cMin', 'cMax', 'bins', 'minBins', 'maxBins')},
                    'operations': [readable({k: (v if not isinstance(v, list) or len(v) <= 6 else v[:6] + ['...'])
                                             for k, v in t[1].items()}) for t in trace[:8]],
                    'classes_after_each': [t[2]['bins'] for t in trace[:8]]})
    report_hits(ctx, found)
    if (dis or failed) and not found:
        # model and implementation differ (or a theorem broke) but the oracle saw nothing yet: search harder
        more = [gen_sequence(ctx.rng, quick, 40) for _ in range(150 if quick else 600)]
        found2 = []
        for cfg, trace in more:
            ctx.cov['evaluations'] += len(trace)
            ops = [t[1] for t in trace]
            for h in oracle_trace(trace):
                found2.append((cfg, ops, h))
        if found2:
            report_hits(ctx, found2)
            found = found2
    if dis and not found:
        cfg, ops, d = dis[0]
        fld = d.split(':')[0]
        ctx.violation('correspondence', {'site': SITE, 'cls': fld},
                      {'broken': {'correspondence': 'coq/C08/Model.v vs kawin/precipitation/PopulationBalance.py', 'first_disagreement': d},
                       'input': {'cfg': hexcfg(cfg), 'ops': [hexop(o) for o in ops]},
                       'decimal': {'cfg': cfg, 'ops': [readable(o) for o in ops]}, 'disagreements': len(dis)},
                      'model and implementation disagree (%d steps), e.g. %s (last operation of: %s)' % (len(dis), d, ', '.join(o['op'] for o in ops[-6:])),
                      no_input=True)
    for t in failed:
        ctx.violation(t, {'site': 'coq/C08/Properties.v', 'cls': 'proof'},
                      {'broken': {'theorem': t, 'file': 'coq/C08/Properties.v'}},
                      'theorem %s no longer checks' % t, no_input=True)
    ctx.notes['disagreements'] = len(dis)
    ctx.notes['disagreement_examples'] = [d for _, _, d in dis[:5]]
    ctx.notes['oracle_hits'] = len(found)
    ctx.notes['sequences'] = len(seqs)
    ctx.assumptions += [
        'binary64 rounding and numpy summation order are not modelled: values are compared with relative tolerance 2^-36 (populations relative to the sum over the class and its two neighbours, because a boundary that moves by one rounding error moves particles between adjacent classes)',
        'the model executes ONE operation from the exact binary64 state the implementation was in (never iterated over a whole run, except for the constructor and for sequences of <= 8 operations on dyadic configurations); steps whose branch condition PSDbounds[-1] > 10*PSDbounds[0] is within tolerance of a tie are counted as indeterminate, not compared',
        'grids have 0 <= min < max (guards of the theorems): negative radii are outside the domain; arguments of changeSizeClasses satisfy 0 <= cMin < max(10 cMin, cMax) and bins > 0; UpdatePBMEuler / LoadDistributionFunction receive arrays of the current length, LoadDistributionFunction non-negative values',
        'setBinConstraints after construction, setPSDtoRecordedTime and Normalize* are not among the modelled operations',
        'the hand-written model coq/C08/Model.v is tied to the code only through this correspondence; the theorems are about its real-number instance, the execution uses its exact-rational instance (the scalar operations of the two instances are proved to commute with Q2R in coq/Common/Ops.v; this is not lifted to the model functions by a theorem)']
    ctx.cov['trusted_base'] += ['Coq 8.16.1 kernel and vm_compute', 'hand-written model coq/C08/Model.v (uses coq/C07/Model.v momentFromN) + correspondence harness harness/c08.py',
                                'float -> Q transport (float.as_integer_ratio) and output parser in harness/common.py',
                                'hand models of numpy linspace, histogram, amax, boolean-mask selection, minimum/maximum.outer + clip + matmul']


def replay(ctx, obj):
    inp = obj['input']
    cfg = unhexcfg(inp['cfg'])
    ops = [unhexop(o) for o in inp['ops']]
    tr = run_sequence(cfg, ops)
    hits = oracle_trace(tr)
    for h in hits:
        print('replay: step %d (%s): %s [%s]: %s' % (h[0], tr[h[0]][1]['op'], h[1], h[2], h[3]))
    for i, t in enumerate(tr):
        if t[4]:
            print('replay: step %d (%s) raised %s: %s' % (i, t[1]['op'], t[4], t[5]))
    print('replay: %d oracle violations on this operation sequence' % len(hits))
    return 1 if hits else 0
