"""C17 - homogenised mobilities respect classical bounds and address phases by name.

proof:          coq/C17/Properties.v (theorems about the real instance of coq/C17/Model.v; the
                post-processing / cache theorems hold for every scalar instance)
correspondence: part A - wienerUpper / wienerLower / hashinShtrikmanUpper / hashinShtrikmanLower /
                labyrinth of kawin/diffusion/HomogenizationParameters.py on generated (p, e) matrices
                (1-4 phases, undefined entries, labyrinth factors); part B - histories of
                computeHomogenizationFunction calls (all rules, all post-processing modes, hash table
                on, points repeated, options changed between calls) against a scripted thermodynamics
                object.  The same inputs, shipped exactly, are evaluated by the model on exact
                rationals inside Coq (coq/C17/Corr.v); outputs compared there.
search:         an oracle written from the property text (bounds, ordering, permutation invariance,
                single phase, labyrinth <= upper Wiener; post-processing addressed through a
                name -> (fraction, row) dictionary; repeated / cache-free evaluations agree) is
                applied to the implementation's outputs.
"""
import copy, json, os
from fractions import Fraction
from types import SimpleNamespace as NS
import numpy as np
from common import *

LEVEL = 'proof'
SITE = 'HomogenizationParameters'
TINY = float(np.finfo(np.float64).tiny)
MAXF = float(np.finfo(np.float64).max)
RULES = ['WienerUpper', 'WienerLower', 'HashinUpper', 'HashinLower', 'Labyrinth']
RT = '(1 # 68719476736)'          # 2^-36
# coq/C17/Corr.v builds the two float constants from these formulas
assert Fraction(TINY) == Fraction(1, 2 ** 1022) and Fraction(MAXF) == Fraction(2 ** 1024 - 2 ** 971)

HEADER = '''From Coq Require Import QArith List ZArith.
Require Import Kawin.Common.Ops Kawin.Common.Vec Kawin.Common.Out Kawin.C17.Model Kawin.C17.Corr.
Import ListNotations.
Open Scope Q_scope.
'''


def kawin_rules():
    import importlib
    H = importlib.import_module('kawin.diffusion.HomogenizationParameters')   # the package re-exports a class of the same name
    return H, [H.wienerUpper, H.wienerLower, H.hashinShtrikmanUpper, H.hashinShtrikmanLower, H.labyrinth]


def simplex(rng, p, kind):
    if p == 1:
        return [1.0]
    if kind == 'exact':
        cuts = sorted(rng.integers(0, 17, p - 1))
        k = np.diff([0] + list(cuts) + [16])
        return [float(x) / 16 for x in k]
    if kind == 'onehot':
        f = [0.0] * p
        f[int(rng.integers(0, p))] = 1.0
        return f
    if kind == 'extreme':
        f = rng.dirichlet(np.ones(p)) * float(10 ** rng.uniform(-14, -6))
        j = int(rng.integers(0, p))
        f[j] = 0
        f[j] = 1 - np.sum(f)
        return [float(x) for x in f]
    if kind == 'trace':
        # a phase that has just appeared / is about to disappear: fraction 1e-12 .. 3e-7 (first entry)
        t = float(10 ** rng.uniform(-12, -6.5))
        rest = rng.dirichlet(np.ones(p - 1)) * (1 - t)
        return [t] + [float(x) for x in rest]
    a = float(rng.choice([0.3, 1.0, 5.0]))
    f = rng.dirichlet(a * np.ones(p))
    f = f / np.sum(f)
    return [float(x) for x in f]


def trace_case(rng, p, e):
    """fractions with one trace phase and mobilities with a contrast of 1e6 .. 1e12 between the
    trace phase and the others (slow trace phase: the denominator of lower Hashin-Shtrikman is of the
    order of the trace fraction; fast trace phase: upper side); returns (fractions, (p, e) mobilities)"""
    fr = simplex(rng, p, 'trace')
    base = 10 ** rng.uniform(-28, -17, (1, e))
    contrast = 10 ** rng.uniform(6, 12, (1, e))
    others = base * contrast * 10 ** rng.uniform(0, 1, (p - 1, e))
    if rng.random() < 0.7:
        mob = np.vstack([base, others])                    # trace phase is the slowest
    else:
        mob = np.vstack([base * contrast * 1e2, others / contrast])      # trace phase is the fastest
    j = int(rng.integers(0, p))                            # position of the trace phase in the listing
    order = list(range(1, p))
    order.insert(j, 0)
    return [fr[k] for k in order], mob[order]


def pick_factor(rng):
    return float(rng.choice([1.0, 2.0, 1.5, 3.0, float(np.round(rng.uniform(1, 2.5), 3))], p=[0.3, 0.25, 0.15, 0.05, 0.25]))


# ------------------------------------------------------------------------------------------
# part A: the five public rule functions
def pick_factor_cfg(rng):
    """factor handed to the HomogenizationParameters constructor in parts B / C: inside the documented
    range [1, 2] (what the constructor does outside it is the subject of part D)"""
    return float(rng.choice([1.0, 2.0, 1.5, float(np.round(rng.uniform(1, 2), 3))], p=[0.3, 0.25, 0.15, 0.3]))


def gen_A(rng, quick):
    kind = str(rng.choice(['exact', 'physical', 'spread', 'equal', 'onehot', 'extreme', 'undefined', 'trace'],
                          p=[0.18, 0.17, 0.12, 0.07, 0.08, 0.06, 0.17, 0.15]))
    p = int(rng.choice([1, 2, 3, 4], p=[0.1, 0.35, 0.3, 0.25]))
    e = int(rng.integers(1, 4))
    fr = simplex(rng, p, kind if kind in ('exact', 'onehot', 'extreme') else 'dirichlet')
    if kind == 'exact':
        mob = (2.0 ** rng.integers(-8, 3, (p, e))).astype(float)
        if rng.random() < 0.3:
            mob = mob * rng.integers(1, 4, (p, e))
    elif kind == 'equal':
        mob = np.repeat(10 ** rng.uniform(-25, -15, (1, e)), p, axis=0)
        if p > 2 and rng.random() < 0.5:
            mob[0] = mob[0] * 4
    elif kind == 'spread':
        mob = 10 ** (rng.uniform(-28, -12, (1, e)) + rng.uniform(-5, 5, (p, e)))
    else:
        mob = 10 ** (rng.uniform(-24, -16, (1, e)) + rng.uniform(-1.5, 1.5, (p, e)))
    undefined = False
    if kind == 'trace':
        p = max(p, 2)
        fr, mob = trace_case(rng, p, e)
        if rng.random() < 0.2:          # ... next to a phase without mobility model
            undefined = True
            cand = [i for i in range(p) if fr[i] > 1e-6]
            mob[int(rng.choice(cand)), :] = -1
    if kind == 'undefined' and p >= 2:
        undefined = True
        if rng.random() < 0.6:          # whole phases without a mobility model (what kawin produces)
            rows = rng.choice(p, int(rng.integers(1, p)), replace=False)
            mob[rows, :] = -1
        else:                           # single entries
            for j in range(e):
                rows = rng.choice(p, int(rng.integers(1, p)), replace=False)
                mob[rows, j] = -1
    perm = [int(x) for x in rng.permutation(p)]
    return {'part': 'A', 'kind': kind, 'p': p, 'e': e, 'fr': fr, 'mob': [[float(x) for x in r] for r in mob],
            'n': pick_factor(rng), 'perm': perm, 'undefined': undefined}


def run_impl_A(c):
    H, funcs = kawin_rules()
    out = {'err': None}
    mob = np.array(c['mob'], dtype=np.float64).reshape(c['p'], c['e'])
    fr = np.array(c['fr'], dtype=np.float64)
    perm = c['perm']
    try:
        with np.errstate(all='ignore'):
            m0, f0 = mob.copy(), fr.copy()
            out['res'] = [np.atleast_1d(np.array(f(mob, fr, labyrinth_factor=c['n']), dtype=np.float64)).tolist() for f in funcs]
            out['lab1'] = np.atleast_1d(np.array(H.labyrinth(mob, fr, labyrinth_factor=1), dtype=np.float64)).tolist()
            out['mutated'] = not (np.array_equal(m0, mob) and np.array_equal(f0, fr))
            out['perm'] = [np.atleast_1d(np.array(f(mob[perm], fr[perm], labyrinth_factor=c['n']), dtype=np.float64)).tolist() for f in funcs]
            out['pf'] = np.power(fr, c['n']).tolist()
            # the same call in other calling conventions: argument objects re-used from the calls above and
            # read-only (a function that writes into them raises), Fortran-ordered / strided views, the
            # factor as Python int, numpy scalar or 0-d array
            big = np.zeros((2 * c['p'], c['e']))
            big[::2] = mob
            bigf = np.zeros(2 * c['p'])
            bigf[::2] = fr
            ro_m, ro_f = mob.copy(), fr.copy()
            ro_m.setflags(write=False)
            ro_f.setflags(write=False)
            n = c['n']
            variants = [('read-only arguments', ro_m, ro_f, n),
                        ('Fortran-ordered mobility', np.asfortranarray(mob), fr, n),
                        ('strided views', big[::2], bigf[::2], n),
                        ('factor as numpy scalar', mob, fr, np.float64(n)),
                        ('factor as 0-d array', mob, fr, np.array(n))]
            if float(n).is_integer():
                variants.append(('factor as Python int', mob, fr, int(n)))
            out['conv'] = []
            for name, m_, f_, n_ in variants:
                try:
                    r = [np.atleast_1d(np.array(f(m_, f_, labyrinth_factor=n_), dtype=np.float64)).tolist() for f in funcs]
                    out['conv'].append((name, r, None))
                except Exception as ex:
                    out['conv'].append((name, None, type(ex).__name__ + ': ' + str(ex)))
            out['mutated'] = out['mutated'] or not (np.array_equal(m0, mob) and np.array_equal(f0, fr))
    except Exception as ex:
        out['err'] = type(ex).__name__ + ': ' + str(ex)
    return out


def pw_term(n, fr, pf):
    if float(n).is_integer() and 1 <= n <= 3:
        return '(fun f => powT BQops f %d%%nat)' % int(n)
    tbl = {}
    for f, v in zip(fr, pf):
        tbl[frac(f)] = frac(v)
    tbl.setdefault(Fraction(0), Fraction(0))
    return '(assocB [%s])' % '; '.join('(%s, %s)' % (qlit(a), qlit(b)) for a, b in sorted(tbl.items()))


def fin(xs):
    return [float(x) if np.isfinite(x) else 0.0 for x in xs]


def model_term_A(c, out):
    r = out['res']
    impl = '{| a_wu := %s; a_wl := %s; a_hu := %s; a_hl := %s; a_lab := %s |}' % tuple(qlist(fin(x)) for x in r)
    return 'check17a %s %s %s %s %s %s %s %s' % (
        RT, 'tinyB', 'maxfB', pw_term(c['n'], c['fr'], out['pf']), natlit(c['e']),
        qlistlist(c['mob']), qlist(c['fr']), impl)


def compare_A(c, out, mod):
    """returns (disagreements, degenerate count)"""
    dis, ndeg = [], 0
    for name, iv, (deg, verdict) in zip(RULES, out['res'], mod):
        nonfinite = not np.all(np.isfinite(iv))
        if deg:
            ndeg += 1
            continue
        if nonfinite:
            dis.append('%s: implementation returned %r' % (name, iv))
        elif verdict is not None:
            k, ap = verdict[1]
            dis.append('%s[%d]: implementation %r, model %r' % (name, k, iv[k] if k < len(iv) else None, float(tofrac(ap))))
    return dis, ndeg


# conditioning of the binary64 evaluation (tolerances of the oracle); exact arithmetic, written from
# the textbook formulas, independent of the model
def hs_cond(fr, ms, m0):
    terms = [f * (m - m0) * 3 * m0 / (2 * m0 + m) for f, m in zip(fr, ms)]
    Ak = sum(terms)
    A = sum(abs(t) for t in terms)
    D = 1 - Ak / (3 * m0)
    if D == 0:
        return None
    return abs(m0) + A / abs(D) + abs(Ak) / (D * D) * (1 + A / (3 * abs(m0)))


# relative slack of the oracle per rule in front of the conditioning magnitude: the Hashin-Shtrikman magnitude
# already contains the amplification 1/D, 1/D^2 of its cancellations, so ~900 ulp are enough there
TOLK = [1e-9, 1e-9, 1e-13, 1e-13]


def col_scales(fr, col):
    """magnitudes for the 4 bound rules on one column (undefined entries substituted like the docs say)"""
    F = [frac(f) for f in fr]
    up = [frac(m) if m != -1 else frac(TINY) for m in col]
    lo = [frac(m) if m != -1 else frac(MAXF) for m in col]
    wu = sum(f * m for f, m in zip(F, up))
    s = sum(f / m for f, m in zip(F, lo))
    wl = 1 / s if s != 0 else None
    return [abs(wu), abs(wl) if wl is not None else None, hs_cond(F, up, max(up)), hs_cond(F, lo, min(lo))]


def oracle_A(c, out):
    """property text -> checks on the implementation's outputs; returns list of (clause, cls, msg)"""
    if out['err']:
        return [('no_internal_error', 'rule function raised', 'rule function raised ' + out['err'])]
    v = []
    p, e = c['p'], c['e']
    fr = c['fr']
    res = out['res']
    TOL = 1e-9
    if out.get('mutated'):
        v.append(('arguments_unchanged', 'rule function modifies its arguments', 'a rule function modified mobility / phaseFracs in place'))
    for name, r, err in out.get('conv', []):
        if err is not None:
            v.append(('calling_convention', name, 'the rule functions raised %s when called with %s' % (err, name)))
        elif any(not same(a, b, 1e-12) for a, b in zip(r, res)):
            k = [i for i, (a, b) in enumerate(zip(r, res)) if not same(a, b, 1e-12)][0]
            v.append(('calling_convention', name, '%s called with %s returned %r, with plain float64 arrays %r' % (RULES[k], name, r[k], res[k])))
    for j in range(e):
        col = [c['mob'][i][j] for i in range(p)]
        sc = col_scales(fr, col)
        if any(s is None for s in sc):
            continue
        sc = [float(s) for s in sc]
        wu, wl, hu, hl, lab = (res[k][j] for k in range(5))
        pm = [out['perm'][k][j] for k in range(5)]
        vals = [wu, wl, hu, hl]
        if not all(np.isfinite(x) for x in vals + [lab]):
            if max(sc) < MAXF / 8:
                v.append(('finite', 'non-finite result', 'column %d: non-finite result %r' % (j, vals + [lab])))
            continue
        # permutation invariance (all five rules, undefined entries included)
        for k, name in enumerate(RULES):
            s = TOLK[k] * sc[k] if k < 4 else TOL * sc[0]
            if not np.isfinite(pm[k]) or abs(res[k][j] - pm[k]) > s:
                v.append(('permutation_invariant', name, '%s column %d: %r for the phases as listed, %r for the order %r' % (name, j, res[k][j], pm[k], c['perm'])))
        # labyrinth
        if out['lab1'][j] != wu:
            v.append(('labyrinth_one', 'factor 1', 'column %d: labyrinth(factor 1) = %r, upper Wiener = %r' % (j, out['lab1'][j], wu)))
        if c['n'] >= 1 and sum(fr) <= 1 + 1e-12 and lab > wu * (1 + 1e-12):
            v.append(('labyrinth_le_upper', 'factor >= 1', 'column %d: labyrinth(factor %r) = %r exceeds upper Wiener %r' % (j, c['n'], lab, wu)))
        if any(m == -1 for m in col):
            continue
        lo, hi = min(col), max(col)
        # between the smallest and the largest phase mobility
        for k, name in enumerate(RULES[:4]):
            if vals[k] < lo - TOLK[k] * sc[k] or vals[k] > hi + TOLK[k] * sc[k]:
                v.append(('within_min_max', name, '%s column %d: %r outside [%r, %r] (fractions %r, mobilities %r)' % (name, j, vals[k], lo, hi, fr, col)))
        # ordering
        chain = [(1, 'WienerLower'), (3, 'HashinLower'), (2, 'HashinUpper'), (0, 'WienerUpper')]
        for (a, na), (b, nb) in zip(chain[:-1], chain[1:]):
            if vals[a] > vals[b] + TOLK[a] * sc[a] + TOLK[b] * sc[b]:
                v.append(('ordering', '%s<=%s' % (na, nb), 'column %d: %s = %r > %s = %r (fractions %r, mobilities %r)' % (j, na, vals[a], nb, vals[b], fr, col)))
        # a single phase (or one phase carrying the whole fraction): the phase mobility
        whole = [i for i in range(p) if fr[i] == 1.0]
        if whole and all(fr[i] == 0.0 for i in range(p) if i != whole[0]):
            m = col[whole[0]]
            for k, name in enumerate(RULES):
                val = res[k][j]
                t = 1e-14 * abs(m) if p == 1 else (TOLK[k] * sc[k] if k < 4 else TOL * sc[0])
                if abs(val - m) > t:
                    v.append(('single_phase', name, '%s column %d: %r for a single phase of mobility %r' % (name, j, val, m)))
    return v


def nontrivial_A(c):
    if c['p'] < 2:
        return False
    for j in range(c['e']):
        col = [c['mob'][i][j] for i in range(c['p'])]
        if all(m != -1 for m in col) and len(set(col)) > 1 and sum(1 for f in c['fr'] if f > 0) >= 2:
            return True
    return False


def shrink_A(c, clause, cls):
    """keep a single column; drop the permutation unless it is needed"""
    def fails(d):
        return any(h[0] == clause and h[1] == cls for h in oracle_A(d, run_impl_A(d)))
    cur = c
    for j in range(c['e']):
        d = dict(c, e=1, mob=[[r[j]] for r in c['mob']])
        if fails(d):
            cur = d
            break
    if clause != 'permutation_invariant':
        d = dict(cur, perm=list(range(cur['p'])))
        if fails(d):
            cur = d
    return cur


# ------------------------------------------------------------------------------------------
# part B: computeHomogenizationFunction against a scripted thermodynamics object
POOL = ['FCC_A1', 'BCC_A2', 'SIGMA', 'L12_FCC', 'LAVES_C14', 'B2_BCC']
ELEMENTS = ['NI', 'CR', 'AL', 'FE', 'CO']       # substitutional only: u-fraction = mole fraction


class FakeCS:
    def __init__(self, name, NP, X, raw, elements_sorted):
        self.phase_record = NS(phase_name=name, nonvacant_elements=list(elements_sorted))
        self.NP = NP
        self.X = list(X)
        self.dof = np.array(raw if raw is not None else [0.0] * len(X), dtype=np.float64)


class FakeTherm:
    """what computeHomogenizationFunction / _computeSingleMobility use of GeneralThermodynamics.
    A point of the script is a (composition, temperature) pair; two points may share the composition."""
    def __init__(self, c):
        self.elements = list(c['elements']) + ['VA']
        self.numElements = len(c['elements'])
        self.phases = list(c['db'])
        self.srt = sorted(c['elements'])
        self.mobCallables = {}
        for ph in self.phases:
            if ph in c['with_mobility']:
                self.mobCallables[ph] = {el: (lambda dof, k=k: dof[k]) for k, el in enumerate(self.srt)}
            else:
                self.mobCallables[ph] = None
        self.mobility_correction = None
        self.points = c['points']
        self.index = {(pt_xi(c, k), float(pt_T(c, k))): k for k in range(len(c['points']))}
        self.calls = 0

    def getEq(self, x, T, gExtra, phases):
        self.calls += 1
        xi = int(round(float(np.atleast_1d(x)[0]) * 100)) - 1
        k = self.index[(xi, float(T))]
        pt = self.points[k]
        css = []
        for s in pt['stable']:
            X = [s['X'][el] for el in self.srt]
            raw = [s['raw'][el] for el in self.srt] if s['raw'] is not None else None
            css.append(FakeCS(s['name'], s['NP'], X, raw, self.srt))
        mu = np.array([[fake_mu(xi, T, len(self.srt))]])
        return NS(eq=NS(MU=mu), get_composition_sets=lambda: css)


def fake_mu(xi, T, e):
    return [-1000.0 * (i + 1) - float(T) - 7.0 * xi for i in range(e)]


def pt_xi(c, k):
    """composition index of point k (scripted backend); files written before points carried a
    temperature have one composition per point"""
    return int(c['points'][k].get('xi', k))


def pt_T(c, k):
    if c['part'] == 'C':
        return float(c['Ts'][k]) if 'Ts' in c else float(c['T'])
    return float(c['points'][k].get('T', 1000.0))


def point_x(c, k):
    if c['part'] == 'C':
        return list(c['xs'][k])
    e = len(c['elements'])
    return [0.01 * (pt_xi(c, k) + 1)] + [0.1] * (e - 2)


def step_points(st):
    """a step evaluates one point ('point') or an array of points ('points')"""
    return list(st['points']) if 'points' in st else [st['point']]


def is_array(st):
    return 'points' in st


# part C: the same histories against pycalphad on the databases shipped with kawin's tests
_THERM = {}


def get_therm(c):
    if c['part'] != 'C':
        return FakeTherm(c)
    key = (c['tdb'], tuple(c['elements']), tuple(c['db']))
    if key not in _THERM:
        from kawin.thermo import GeneralThermodynamics
        import kawin.tests.datasets as ds
        _THERM[key] = GeneralThermodynamics(getattr(ds, c['tdb']), list(c['elements']), list(c['db']))
    return _THERM[key]


def real_raw(c):
    """cache-free _computeSingleMobility at every point (the equilibrium and the mobility
    evaluation themselves belong to other properties; here they are the backend oracle)"""
    if '_raw' not in c:
        from kawin.diffusion.DiffusionParameters import _computeSingleMobility
        th = get_therm(c)
        unsort = np.argsort(np.argsort(th.elements[:-1]))
        raw = []
        for k in range(len(c['xs'])):
            d = _computeSingleMobility(th, np.array(point_x(c, k), dtype=np.float64), pt_T(c, k), unsort, None)
            raw.append(([str(n) for n in d.phases], [[float(v) for v in r] for r in np.array(d.mobility)],
                        [float(f) for f in d.phase_fractions], [float(m) for m in np.atleast_1d(d.chemical_potentials)]))
        c['_raw'] = raw
        c['points'] = [{'stable': [{'name': n} for n in r[0]]} for r in raw]
    return c['_raw']


def gen_steps(rng, db, npts, same_x, modes_p, max_excl):
    """history of evaluations: single points, arrays of points (consecutive entries that share the
    composition at different temperatures, repeated (x, T) pairs, flat segments of a profile with a
    temperature gradient, one composition broadcast over an array of temperatures) and
    computeMobility calls on arrays.  same_x(a, b): do points a and b share the composition?"""
    steps = []
    for _ in range(int(rng.integers(2, 6))):
        if steps and rng.random() < 0.25:
            steps.append(copy.deepcopy(steps[int(rng.integers(0, len(steps)))]))
            continue
        mode = str(rng.choice(['none', 'predefined', 'majority', 'exclude'], p=modes_p))
        args = None
        if mode == 'predefined':
            args = str(rng.choice(db))
        elif mode == 'exclude':
            args = [str(x) for x in rng.choice(db, int(rng.integers(1, max_excl + 1)), replace=False)]
        st = {'rule': int(rng.integers(0, 5)), 'n': pick_factor_cfg(rng), 'mode': mode, 'args': args}
        if rng.random() < 0.4:
            n = int(rng.integers(2, 5))
            pts = [int(x) for x in rng.integers(0, npts, n)]
            if rng.random() < 0.6:
                # a profile: nodes of equal composition next to each other (flat segments), the
                # temperature varies along each segment
                pts.sort(key=lambda k: (min(j for j in range(npts) if same_x(j, k)), k))
            if rng.random() < 0.3:
                pts.insert(int(rng.integers(0, len(pts))) + 1, pts[int(rng.integers(0, len(pts)))])   # repeated (x, T)
            st['points'] = pts
            if all(same_x(pts[0], k) for k in pts) and rng.random() < 0.5:
                st['broadcast'] = True          # one composition, array of temperatures
            if rng.random() < 0.15:
                st['kind'] = 'mobility'         # computeMobility on the same array
        else:
            st['point'] = int(rng.integers(0, npts))
            st['conv'] = int(rng.integers(0, 8))       # calling convention of the extra cache-free call
        steps.append(st)
    return steps


def gen_C(rng, quick):
    tdb = str(rng.choice(['NICRAL_TDB', 'FECRNI_DB']))
    elements = ['NI', 'CR', 'AL'] if tdb == 'NICRAL_TDB' else ['FE', 'CR', 'NI']
    db = [str(x) for x in rng.permutation(['FCC_A1', 'BCC_A2'])]
    nx = int(rng.integers(1, 3))
    comps = []
    for _ in range(nx):
        a = float(np.round(rng.uniform(0.03, 0.72), 3))
        b = float(np.round(rng.uniform(0.02, min(0.3, 0.95 - a)), 3))
        comps.append([a, b])
    # points = (composition, temperature) pairs, some compositions at several temperatures
    pairs = []
    for _ in range(int(rng.integers(1, 5))):
        pr = (int(rng.integers(0, nx)), float(rng.choice([1073.0, 1173.0, 1273.0])))
        if pr not in pairs:
            pairs.append(pr)
    xs = [comps[i] for i, _ in pairs]
    Ts = [t for _, t in pairs]
    steps = gen_steps(rng, db, len(pairs), lambda a, b: pairs[a][0] == pairs[b][0], [0.25, 0.3, 0.2, 0.25], 1)
    c = {'part': 'C', 'tdb': tdb, 'elements': elements, 'db': db, 'xs': xs, 'Ts': Ts, 'steps': steps}
    real_raw(c)
    return c


def gen_B(rng, quick):
    ndb = int(rng.integers(2, 6))
    db = [str(x) for x in rng.choice(POOL, ndb, replace=False)]
    e = int(rng.integers(2, 4))
    elements = [str(x) for x in rng.choice(ELEMENTS, e, replace=False)]
    nmob = int(rng.integers(1, ndb + 1))
    with_mob = [str(x) for x in rng.choice(db, nmob, replace=False)]
    nx = int(rng.integers(1, 4))
    pairs = []
    for _ in range(int(rng.integers(1, 5))):
        pr = (int(rng.integers(0, nx)), float(rng.choice([900.0, 1000.0, 1100.0, 1200.0])))
        if pr not in pairs:
            pairs.append(pr)
    points = []
    for (xi, T) in pairs:
        p = int(rng.choice([1, 2, 3, 4], p=[0.25, 0.35, 0.25, 0.15]))
        p = min(p, ndb + 1)
        names = [str(x) for x in rng.choice(db, min(p, ndb), replace=False)]
        if p > len(names) or (len(names) >= 2 and rng.random() < 0.08):
            names.append(names[int(rng.integers(0, len(names)))])      # two composition sets of one phase
        if not any(n in with_mob for n in names):
            names[int(rng.integers(0, len(names)))] = with_mob[int(rng.integers(0, len(with_mob)))]
        fr = simplex(rng, len(names), str(rng.choice(['exact', 'dirichlet'])))
        if min(fr) == 0.0:                    # stable phases have a positive amount
            fr = simplex(rng, len(names), 'dirichlet')
        tmob = None
        if len(names) >= 2 and rng.random() < 0.2:
            # the point has just entered a multi-phase region: one phase in a trace amount, mobilities
            # of the phases 6-12 decades apart
            fr, tmob = trace_case(rng, len(names), e)
        stable = []
        for q, (nm, f) in enumerate(zip(names, fr)):
            k = rng.multinomial(16 - e, [1.0 / e] * e) + 1          # dyadic composition, exact sum 1
            X = {el: float(kk) / 16 for el, kk in zip(elements, k)}
            raw = {el: float(10 ** rng.uniform(-22, -16)) for el in elements} if nm in with_mob else None
            if raw is not None and tmob is not None:
                raw = {el: float(tmob[q][i]) for i, el in enumerate(elements)}
            stable.append({'name': nm, 'NP': float(f), 'X': X, 'raw': raw})
        points.append({'xi': xi, 'T': T, 'stable': stable})
    steps = gen_steps(rng, db, len(points), lambda a, b: pairs[a][0] == pairs[b][0], [0.3, 0.25, 0.2, 0.25], min(3, ndb))
    return {'part': 'B', 'db': db, 'elements': elements, 'with_mobility': with_mob, 'points': points, 'steps': steps}


def raw_data(c, k):
    """what _computeSingleMobility has to produce for point k: names, (p, e) rows in the order of
    therm.elements, fractions, chemical potentials; computed here from the script (mobility *
    u-fraction, -1 rows for phases without a mobility model)"""
    if c['part'] == 'C':
        return real_raw(c)[k]
    pt = c['points'][k]
    names, rows, fr = [], [], []
    for s in pt['stable']:
        names.append(s['name'])
        fr.append(float(s['NP']))
        if s['raw'] is None:
            rows.append([-1.0] * len(c['elements']))
        else:
            usum = float(np.sum([s['X'][el] for el in sorted(c['elements'])]))
            rows.append([float(np.float64(s['raw'][el]) * (np.float64(s['X'][el]) / usum)) for el in c['elements']])
    srt = sorted(c['elements'])
    mu_sorted = fake_mu(pt_xi(c, k), pt_T(c, k), len(srt))
    mu = [mu_sorted[srt.index(el)] for el in c['elements']]
    return names, rows, fr, mu


def make_params(step):
    from kawin.diffusion.HomogenizationParameters import HomogenizationParameters
    ids = [HomogenizationParameters.WIENER_UPPER, HomogenizationParameters.WIENER_LOWER, HomogenizationParameters.HASHIN_UPPER,
           HomogenizationParameters.HASHIN_LOWER, HomogenizationParameters.LABYRINTH]
    return HomogenizationParameters(ids[step['rule']], labyrinthFactor=step['n'],
                                    postProcessFunction=step['mode'], postProcessArgs=step['args'])


def call_args(c, st, pts):
    """(x, T) as the caller passes them: a single point, an (N, e-1) array with an (N,) array of
    temperatures, or one composition with an array of temperatures"""
    if not is_array(st) and len(pts) == 1:
        return point_x(c, pts[0]), pt_T(c, pts[0])
    Ts = np.array([pt_T(c, k) for k in pts], dtype=np.float64)
    if st.get('broadcast'):
        return point_x(c, pts[0]), Ts
    return np.array([point_x(c, k) for k in pts], dtype=np.float64), Ts


def call_impl(therm, c, step, table, pts=None):
    """returns (per-entry averaged mobilities, per-entry chemical potentials, error); pts overrides
    the points of the step (single-point re-evaluation of one entry)"""
    from kawin.diffusion.HomogenizationParameters import computeHomogenizationFunction
    single = pts is not None
    pts = step_points(step) if pts is None else pts
    st = step if not single else {k: v for k, v in step.items() if k not in ('points', 'broadcast')}
    e = len(c['elements'])
    try:
        x, T = call_args(c, st, pts)
        with np.errstate(all='ignore'):
            avg, mu = computeHomogenizationFunction(therm, x, T, make_params(step), table)
        avg = np.array(avg, dtype=np.float64).reshape(len(pts), e)
        mu = np.array(mu, dtype=np.float64).reshape(len(pts), e)
        return avg.tolist(), mu.tolist(), None
    except Exception as ex:
        return None, None, type(ex).__name__ + ': ' + str(ex)


CONVENTIONS = ['x list, T float, table omitted', 'x tuple, T int, hashTable=None by keyword', 'x array, T numpy scalar, None positional',
               'x array, T 0-d array', 'x list, T list', 'x (1, e-1) array, T (1,) array', 'binary: x Python float', 'binary: x 0-d array, T numpy int']


def call_conv(therm, c, step):
    """the single-point call of the step in another calling convention (cache-free); returns
    (values, potentials, error, argument objects unchanged?)"""
    from kawin.diffusion.HomogenizationParameters import computeHomogenizationFunction
    k = step['point']
    xv, Tv = point_x(c, k), pt_T(c, k)
    conv = step['conv']
    binary = len(c['elements']) == 2
    if conv in (6, 7) and not binary:
        conv -= 4
    Tint = float(Tv).is_integer()
    kw = {}
    if conv == 0:
        x, T, pos = list(xv), float(Tv), ()
    elif conv == 1:
        x, T, pos = tuple(xv), (int(Tv) if Tint else float(Tv)), ()
        kw = {'hashTable': None}
    elif conv == 2:
        x, T, pos = np.array(xv, dtype=np.float64), np.float64(Tv), (None,)
    elif conv == 3:
        x, T, pos = np.array(xv, dtype=np.float64), np.array(Tv), ()
    elif conv == 4:
        x, T, pos = list(xv), [float(Tv)], ()
    elif conv == 5:
        x, T, pos = np.array([xv], dtype=np.float64), np.array([Tv], dtype=np.float64), ()
    elif conv == 6:
        x, T, pos = float(xv[0]), float(Tv), ()
    else:
        x, T, pos = np.array(xv[0]), (np.int64(Tv) if Tint else np.float64(Tv)), ()
    before = (copy.deepcopy(x), copy.deepcopy(T))
    e = len(c['elements'])
    try:
        with np.errstate(all='ignore'):
            avg, mu = computeHomogenizationFunction(therm, x, T, make_params(step), *pos, **kw)
        same_args = bool(np.array_equal(np.asarray(before[0]), np.asarray(x)) and np.array_equal(np.asarray(before[1]), np.asarray(T)))
        return np.array(avg, dtype=np.float64).reshape(e).tolist(), np.array(mu, dtype=np.float64).reshape(e).tolist(), None, same_args
    except Exception as ex:
        return None, None, type(ex).__name__ + ': ' + str(ex), True


def call_mobility(therm, c, step, table):
    """computeMobility on the array of the step: per entry (names, rows, fractions, mu)"""
    from kawin.diffusion.DiffusionParameters import computeMobility
    pts = step_points(step)
    try:
        x, T = call_args(c, step, pts)
        d = computeMobility(therm, x, T, table)
        res = []
        for j in range(len(pts)):
            res.append(([str(n) for n in d.phases[j]], [[float(v) for v in r] for r in np.array(d.mobility[j])],
                        [float(f) for f in d.phase_fractions[j]], [float(m) for m in np.atleast_1d(d.chemical_potentials[j])]))
        if len(d.mobility) != len(pts):
            return None, 'computeMobility returned %d entries for %d points' % (len(d.mobility), len(pts))
        return res, None
    except Exception as ex:
        return None, type(ex).__name__ + ': ' + str(ex)


def opt_key(st):
    return json.dumps([st['rule'], st['n'], st['mode'], st['args']])


def run_impl_B(c):
    """every step on one therm object with one hash table; for every entry of every step the
    single-point evaluation on a fresh object without table; for array steps also the array on a
    fresh object without table"""
    from kawin.diffusion.DiffusionParameters import HashTable
    if c['part'] == 'C':
        c.pop('_raw', None)
        real_raw(c)
    therm = get_therm(c)
    table = HashTable()
    out = {'cached': [], 'fresh': [], 'fresh_array': [], 'calls': None}
    memo = {}
    for st in c['steps']:
        if st.get('kind') == 'mobility':
            out['cached'].append(call_mobility(therm, c, st, table))
            out['fresh'].append(None)
            out['fresh_array'].append(None)
            continue
        out['cached'].append(call_impl(therm, c, st, table))
        fr = []
        for k in step_points(st):
            key = (opt_key(st), k)
            if key not in memo:
                a, m, err = call_impl(get_therm(c), c, st, None, pts=[k])
                memo[key] = (a[0] if a is not None else None, m[0] if m is not None else None, err)
            fr.append(memo[key])
        out['fresh'].append(fr)
        out['fresh_array'].append(call_impl(get_therm(c), c, st, None) if is_array(st) else None)
        if 'conv' in st and not is_array(st):
            out.setdefault('conv', {})[len(out['cached']) - 1] = call_conv(get_therm(c), c, st)
    out['calls'] = getattr(therm, 'calls', None)
    return out


def expected_B(c, step, k):
    """the property's reading: post-processing addressed through the NAMES of the stable phases of
    point k, then the averaging rule (kawin's own rule function, checked separately in part A)"""
    _, funcs = kawin_rules()
    names, rows, fr = raw_data(c, k)[:3]
    mob = np.array(rows, dtype=np.float64)
    fr = np.array(fr, dtype=np.float64)
    src = None
    if step['mode'] == 'predefined':
        hit = [i for i, n in enumerate(names) if n == step['args']]
        src = mob[hit[0]].copy() if hit else None
    elif step['mode'] == 'majority':
        src = mob[int(np.argmax(fr))].copy()
    elif step['mode'] == 'exclude':
        for i, n in enumerate(names):
            if n in step['args']:
                fr[i] = 0.0
    if src is not None:
        for i in range(mob.shape[0]):
            for j in range(mob.shape[1]):
                if mob[i, j] == -1:
                    mob[i, j] = src[j]
    with np.errstate(all='ignore'):
        return np.atleast_1d(funcs[step['rule']](mob, fr, labyrinth_factor=step['n'])).tolist()


def same(a, b, rtol=1e-12):
    if a is None or b is None or len(a) != len(b):
        return False
    for x, y in zip(a, b):
        if np.isnan(x) and np.isnan(y):
            continue
        if np.isinf(x) or np.isinf(y):
            if x != y:
                return False
            continue
        if abs(x - y) > rtol * max(abs(x), abs(y)):
            return False
    return True


def node_bounds(c, st, k, val):
    """the bound rules lie between the smallest and largest phase mobility OF THAT NODE (no
    post-processing, every stable phase with a defined mobility); returns a message or None"""
    if st['mode'] != 'none' or st['rule'] > 3:
        return None
    names, rows, fr = raw_data(c, k)[:3]
    if any(m == -1 for r in rows for m in r) or abs(sum(fr) - 1) > 1e-9:
        return None
    for j in range(len(rows[0])):
        col = [r[j] for r in rows]
        sc = col_scales(fr, col)[st['rule']]
        if sc is None or not np.isfinite(val[j]):
            continue
        tol = TOLK[st['rule']] * float(sc)
        if val[j] < min(col) - tol or val[j] > max(col) + tol:
            return 'element %d: %r outside [%r, %r], the phase mobilities at this node (x = %r, T = %r)' % (
                j, val[j], min(col), max(col), point_x(c, k), pt_T(c, k))
    return None


def oracle_B(c, out):
    """returns list of (clause, cls, step index, message)"""
    v = []
    seen = {}
    # part C: two pycalphad runs of the same point are compared (not assumed bit-identical)
    rt_exp, rt_fresh = (1e-9, 1e-9) if c['part'] == 'C' else (1e-12, 0)
    for i, st in enumerate(c['steps']):
        pts = step_points(st)
        if st.get('kind') == 'mobility':
            res, err = out['cached'][i]
            if err is not None:
                v.append(('array_entry_is_point', 'computeMobility: exception', i, 'computeMobility on points %r raised %s' % (pts, err)))
                continue
            for j, k in enumerate(pts):
                names, rows, fr, mu = raw_data(c, k)
                gn, gr, gf, gm = res[j]
                ok = gn == names and len(gr) == len(rows) and all(same(a, b, rt_exp) for a, b in zip(gr, rows)) and same(gf, fr, rt_exp) and same(gm, mu, rt_exp)
                if not ok:
                    v.append(('array_entry_is_point', 'computeMobility: entry differs from the point', i,
                              'step %d: computeMobility entry %d (x = %r, T = %r) returned phases %r, mobility %r, fractions %r; the point on its own gives %r, %r, %r'
                              % (i, j, point_x(c, k), pt_T(c, k), gn, gr, gf, names, rows, fr)))
                    break
            continue
        cv, cmu, cerr = out['cached'][i]
        what = "post-processing '%s'%s" % (st['mode'], '' if st['args'] is None else ' (%r)' % (st['args'],))
        arr = out['fresh_array'][i]
        for j, k in enumerate(pts):
            exp = expected_B(c, st, k)
            fv, fmu, ferr = out['fresh'][i][j]
            stable = [s['name'] for s in c['points'][k]['stable']]
            region = 'single-phase region' if len(stable) == 1 else 'multi-phase region'
            where = 'x = %r, T = %r' % (point_x(c, k), pt_T(c, k))
            if ferr is not None:
                v.append(('postprocess_by_name', "%s: exception" % st['mode'], i,
                          '%s raised %s in a %s (database phases %r, stable phases %r)' % (what, ferr, region, c['db'], stable)))
                continue
            if not same(fv, exp, rt_exp):
                v.append(('postprocess_by_name', "%s: wrong phase" % st['mode'], i,
                          '%s on stable phases %r (database order %r): got %r, the option applied to the named (majority) phase gives %r' % (what, stable, c['db'], fv, exp)))
                continue
            # bounds from the phase mobilities of this node, for what the caller received
            if cerr is None:
                msg = node_bounds(c, st, k, cv[j])
                if msg is not None:
                    v.append(('within_min_max', RULES[st['rule']] + ' at a node', i, 'step %d entry %d, %s: %s' % (i, j, RULES[st['rule']], msg)))
            cc = out.get('conv', {}).get(i)
            if cc is not None:
                xv, xmu, xerr, xsame = cc
                name = CONVENTIONS[st['conv']]
                if xerr is not None:
                    v.append(('calling_convention', name, i, 'step %d (%s): the call with %s raised %s, with a list and a float it returns %r' % (i, where, name, xerr, fv)))
                elif not same(xv, fv, rt_fresh) or not same(xmu, fmu, rt_fresh):
                    v.append(('calling_convention', name, i, 'step %d (%s, %s, rule %s): called with %s the result is %r / %r, with a list and a float %r / %r'
                              % (i, where, what, RULES[st['rule']], name, xv, xmu, fv, fmu)))
                elif not xsame:
                    v.append(('arguments_unchanged', 'computeHomogenizationFunction modifies x or T', i, 'step %d: the x / T objects handed over (%s) were modified' % (i, name)))
            if arr is not None:
                av, amu, aerr = arr
                if aerr is not None:
                    v.append(('array_entry_is_point', 'array call: exception', i,
                              'step %d: the call with the array of points %r raised %s while entry %d evaluates on its own' % (i, pts, aerr, j)))
                    break
                if not same(av[j], fv, rt_fresh):
                    v.append(('array_entry_is_point', 'entry differs from the single-point evaluation', i,
                              'step %d (%s, rule %s): entry %d of the array call (%s; points %r, temperatures %r) is %r, the same point evaluated on its own gives %r'
                              % (i, what, RULES[st['rule']], j, where, [point_x(c, q) for q in pts], [pt_T(c, q) for q in pts], av[j], fv)))
                    break
                if not same(amu[j], fmu, rt_fresh):
                    v.append(('array_entry_is_point', 'chemical potential differs from the single-point evaluation', i,
                              'step %d: chemical potentials of entry %d of the array call (%s) are %r, the same point on its own gives %r' % (i, j, where, amu[j], fmu)))
                    break
            if cerr is not None or not same(cv[j], fv, rt_fresh) or not same(cmu[j], fmu, rt_fresh):
                v.append(('evaluation_history_independent', 'cached arrays modified', i,
                          'step %d (%s, rule %s) with the hash table on returned %r at %s, a cache-free evaluation of the same point returns %r'
                          % (i, what, RULES[st['rule']], (cv[j], cmu[j]) if cerr is None else cerr, where, (fv, fmu))))
                break
            key = (opt_key(st), k)
            if key in seen and not same(cv[j], seen[key], 0):
                v.append(('same_point_twice', 'different answer', i,
                          'step %d entry %d repeats an earlier evaluation of %s (%s) and returned %r instead of %r' % (i, j, where, what, cv[j], seen[key])))
            seen.setdefault(key, cv[j])
    return v


def opts_term(c, st, k):
    mode = st['mode']
    if mode == 'none':
        post = 'PNone'
    elif mode == 'predefined':
        post = '(PPredefined %s)' % natlit(POOL.index(st['args']))
    elif mode == 'majority':
        post = 'PMajority'
    else:
        post = '(PExclude [%s])' % '; '.join(natlit(POOL.index(a)) for a in st['args'])
    if st['rule'] == 4:
        fr = raw_data(c, k)[2]
        with np.errstate(all='ignore'):
            pf = np.power(np.array(fr, dtype=np.float64), st['n']).tolist()
        pw = pw_term(st['n'], fr, pf)
    else:
        pw = '(fun f => f)'
    return '(mkO %s %s %s, %s)' % (RULES[st['rule']], post, pw, natlit(k))


def flat_entries(c, out):
    """the loop of computeHomogenizationFunction evaluates the entries of an array one after the
    other through the same hash table: for the model an array step is the sequence of its entries"""
    ent = []
    for i, st in enumerate(c['steps']):
        if st.get('kind') == 'mobility':
            continue
        cv, cmu, cerr = out['cached'][i]
        for j, k in enumerate(step_points(st)):
            ent.append((i, j, k, st, None if cerr is not None else cv[j], cerr))
    return ent


def model_term_B(c, out):
    tbl = []
    for k in range(len(c['points'])):
        names, rows, fr = raw_data(c, k)[:3]
        tbl.append('(mkD [%s] %s %s)' % ('; '.join(natlit(POOL.index(n)) for n in names), qlistlist(rows), qlist(fr)))
    ent = flat_entries(c, out)
    hist = [opts_term(c, st, k) for (_, _, k, st, _, _) in ent]
    impl = ['None' if cerr is not None else '(Some %s)' % qlist(fin(val)) for (_, _, _, _, val, cerr) in ent]
    return 'check17b %s %s %s %s [%s] [%s] [%s]' % (RT, 'tinyB', 'maxfB', natlit(len(c['elements'])),
                                                   '; '.join(tbl), '; '.join(hist), '; '.join(impl))


def compare_B(c, out, mod):
    dis, ndeg = [], 0
    for (i, j, k, st, val, cerr), (deg, raised, verdict) in zip(flat_entries(c, out), mod):
        tag = 'step %d%s (%s/%s)' % (i, ' entry %d' % j if is_array(st) else '', RULES[st['rule']], st['mode'])
        if cerr is not None:
            if j == 0:
                dis.append('%s: implementation raised %s' % (tag, cerr))
            continue
        if deg:
            ndeg += 1
            continue
        if not np.all(np.isfinite(val)):
            dis.append('%s: implementation returned %r' % (tag, val))
        elif verdict is not None:
            q, ap = verdict[1]
            dis.append('%s element %d: implementation %r, model %r' % (tag, q, val[q] if q < len(val) else None, float(tofrac(ap))))
    nkeys = len(set(k for st in c['steps'] for k in step_points(st)))
    if out['calls'] is not None and out['calls'] != nkeys:
        dis.append('equilibrium computed %d times for %d distinct points with the hash table on' % (out['calls'], nkeys))
    return dis, ndeg


def same_comp(c, a, b):
    return point_x(c, a) == point_x(c, b)


def nontrivial_B(c):
    """some step addresses a phase by name whose database position differs from its position among
    the stable phases (or which is not stable), or a point is evaluated more than once, or an array
    holds neighbouring entries of equal composition and different temperature"""
    pts = [k for st in c['steps'] for k in step_points(st)]
    if len(pts) != len(set(pts)):
        return True
    for st in c['steps']:
        sp = step_points(st)
        for a, b in zip(sp[:-1], sp[1:]):
            if a != b and same_comp(c, a, b):
                return True
        for k in sp:
            stable = [s['name'] for s in c['points'][k]['stable']]
            named = [st['args']] if st['mode'] == 'predefined' else (st['args'] if st['mode'] == 'exclude' else [])
            for a in named:
                if a not in stable or stable.index(a) != c['db'].index(a):
                    return True
    return False


def restrict(c, steps):
    """the case with these steps only, unused points dropped and indices renumbered"""
    used = sorted(set(k for s in steps for k in step_points(s)))
    ren = {k: i for i, k in enumerate(used)}
    d = dict(c, steps=copy.deepcopy(steps))
    d.pop('_raw', None)
    d['points'] = [dict(c['points'][k], xi=pt_xi(c, k), T=pt_T(c, k)) if c['part'] != 'C' else c['points'][k] for k in used]
    if c['part'] == 'C':
        d['xs'] = [c['xs'][k] for k in used]
        d['Ts'] = [pt_T(c, k) for k in used]
        d.pop('T', None)
    for s in d['steps']:
        if 'points' in s:
            s['points'] = [ren[k] for k in s['points']]
        else:
            s['point'] = ren[s['point']]
    return d


def shrink_B(c, clause, cls, idx):
    """keep the failing step (for history clauses also earlier steps that touch one of its points);
    an array step is cut down to two neighbouring entries when that still fails"""
    def fails(d):
        return any(h[0] == clause and h[1] == cls for h in oracle_B(d, run_impl_B(d)))
    st = c['steps'][idx]
    mine = set(step_points(st))
    cands = []
    if is_array(st) and st.get('kind') != 'mobility':
        pts = step_points(st)
        for a in range(len(pts) - 1):
            s2 = dict(st, points=[pts[a], pts[a + 1]])
            if not same_comp(c, pts[a], pts[a + 1]):
                s2.pop('broadcast', None)
            cands.append([s2])
    cands.append([st])
    if clause not in ('postprocess_by_name', 'array_entry_is_point'):
        prev = [s for s in c['steps'][:idx] if mine & set(step_points(s))]
        for s in prev:
            cands.append([s, st])
        cands.append(prev + [st])
    for steps in cands:
        try:
            d = restrict(c, steps)
            if fails(d):
                return d
        except Exception:
            pass
    return c


# ------------------------------------------------------------------------------------------
# part D: the configuration layer - HomogenizationParameters(...) and its setters, and the
# HomogenizationModel methods that forward to them.  Whatever route the user takes, the rule, the
# labyrinth factor and the post-processing that reach computeHomogenizationFunction must be the ones
# asked for, and no route may let a labyrinth factor through with which the rule exceeds upper Wiener.
RULE_STR = ['wiener upper', 'wiener lower', 'hashin upper', 'hashin lower', 'lab']
RULE_ALT = ['upper wiener', 'lower wiener', 'upper hashin', 'lower hashin', 'labyrinth']    # spellings of the docstrings
MODES = ['none', 'predefined', 'majority', 'exclude']
ROUTE = {('params', 'rule'): 'HomogenizationParameters.setHomogenizationFunction',
         ('model', 'rule'): 'HomogenizationModel.setMobilityFunction',
         ('params', 'lab'): 'HomogenizationParameters.setLabyrinthFactor',
         ('model', 'lab'): 'HomogenizationModel.setLabyrinthFactor',
         ('params', 'post'): 'HomogenizationParameters.setPostProcessFunction',
         ('model', 'post'): 'HomogenizationModel.setMobilityPostProcessFunction'}


def gen_post(rng):
    mode = int(rng.integers(0, 4))
    args = None
    if mode == 1:
        args = str(rng.choice(POOL[:3]))
    elif mode == 3:
        args = [str(x) for x in rng.choice(POOL[:3], int(rng.integers(1, 3)), replace=False)]
    return {'mode': mode, 'mode_as': str(rng.choice(['str', 'id'])), 'args': args}


def gen_D(rng, quick):
    p = int(rng.choice([2, 3, 4]))
    e = int(rng.integers(1, 3))
    fr = simplex(rng, p, str(rng.choice(['exact', 'dirichlet'])))
    mob = 10 ** (rng.uniform(-24, -16, (1, e)) + rng.uniform(-1.5, 1.5, (p, e)))
    if rng.random() < 0.3:
        mob = (2.0 ** rng.integers(-8, 3, (p, e))).astype(float)
    ctor = {'default': bool(rng.random() < 0.2)}
    if not ctor['default']:
        ctor.update(rule=int(rng.integers(0, 5)), rule_as=str(rng.choice(['str', 'alt', 'id'])))
        if rng.random() < 0.15:       # outside the documented range of the constructor argument
            ctor['n'] = float(rng.choice([0.5, 0.999, 0.0, 3.0]))
        else:
            ctor['n'] = float(rng.choice([1.0, 2.0, 1.5, float(np.round(rng.uniform(1, 2), 3))]))
        ctor.update(gen_post(rng))
    ops = []
    for _ in range(int(rng.integers(0, 5))):
        via = str(rng.choice(['params', 'model']))
        op = str(rng.choice(['rule', 'lab', 'post'], p=[0.3, 0.45, 0.25]))
        o = {'via': via, 'op': op}
        if op == 'rule':
            o.update(rule=int(rng.integers(0, 5)), rule_as=str(rng.choice(['str', 'alt', 'id'])))
        elif op == 'lab':
            n = rng.choice([1.0, 2.0, 1.5, 0.999, 0.5, 0.0, -1.0, 3.0, 7.5, float(np.round(rng.uniform(0, 3), 3))])
            o['n'] = float(n)
            o['int'] = bool(float(n).is_integer() and rng.random() < 0.5)      # handed over as a Python int
        else:
            o.update(gen_post(rng))
        ops.append(o)
    return {'part': 'D', 'p': p, 'e': e, 'fr': fr, 'mob': [[float(x) for x in r] for r in mob], 'ctor': ctor, 'ops': ops}


def rule_arg(o, HP):
    ids = [HP.WIENER_UPPER, HP.WIENER_LOWER, HP.HASHIN_UPPER, HP.HASHIN_LOWER, HP.LABYRINTH]
    return ids[o['rule']] if o['rule_as'] == 'id' else (RULE_STR if o['rule_as'] == 'str' else RULE_ALT)[o['rule']]


def post_arg(o, HP):
    ids = [HP.NO_POST, HP.PREDEFINED, HP.MAJORITY, HP.EXCLUDE]
    return ids[o['mode']] if o['mode_as'] == 'id' else MODES[o['mode']]


def run_impl_D(c):
    H, funcs = kawin_rules()
    from kawin.diffusion import HomogenizationModel
    HP = H.HomogenizationParameters
    posts = [H._postProcessDoNothing, H._postProcessPredefinedMatrixPhase, H._postProcessMajorityPhase, H._postProcessExcludePhases]
    out = {'err': None}
    try:
        ct = c['ctor']
        if ct['default']:
            model = HomogenizationModel([-1e-3, 1e-3], 5, ['NI', 'CR'], ['FCC_A1', 'BCC_A2'])
            hp = model.homogenizationParameters
        else:
            hp = HP(rule_arg(ct, HP), labyrinthFactor=ct['n'], postProcessFunction=post_arg(ct, HP), postProcessArgs=ct['args'])
            model = HomogenizationModel([-1e-3, 1e-3], 5, ['NI', 'CR'], ['FCC_A1', 'BCC_A2'], homogenizationParameters=hp)
        def snapshot(m):
            q = m.homogenizationParameters
            return ([i for i, f in enumerate(funcs) if q.homogenizationFunction is f], float(q.labyrinthFactor),
                    [i for i, f in enumerate(posts) if q.postProcessFunction is f], list(q.postProcessParameters))
        # two more models alive in the same process: one with default parameters built before, one built after
        other1 = HomogenizationModel([-1e-3, 1e-3], 5, ['NI', 'CR'], ['FCC_A1', 'BCC_A2'])
        snap1 = snapshot(other1)
        for o in c['ops']:
            tgt = hp if o['via'] == 'params' else model
            if o['op'] == 'rule':
                (tgt.setHomogenizationFunction if o['via'] == 'params' else tgt.setMobilityFunction)(rule_arg(o, HP))
            elif o['op'] == 'lab':
                tgt.setLabyrinthFactor(int(o['n']) if o.get('int') else o['n'])
            else:
                (tgt.setPostProcessFunction if o['via'] == 'params' else tgt.setMobilityPostProcessFunction)(post_arg(o, HP), o['args'])
        fin_hp = model.homogenizationParameters
        mine = snapshot(model)
        other2 = HomogenizationModel([-1e-3, 1e-3], 5, ['NI', 'CR'], ['FCC_A1', 'BCC_A2'])
        out['others_before'] = [snap1, ([0], 1.0, [0], [None])]
        out['others_after'] = [snapshot(other1), snapshot(other2)]
        # ... which are then configured differently: the first model must not notice
        other1.setMobilityFunction('hashin lower'); other1.setLabyrinthFactor(2); other1.setMobilityPostProcessFunction('majority')
        other2.setMobilityFunction('lab'); other2.setLabyrinthFactor(1.25); other2.setMobilityPostProcessFunction('exclude', ['SIGMA'])
        out['mine'] = [mine, snapshot(model)]
        out['same_object'] = fin_hp is hp
        out['rule'] = [i for i, f in enumerate(funcs) if fin_hp.homogenizationFunction is f]
        out['mode'] = [i for i, f in enumerate(posts) if fin_hp.postProcessFunction is f]
        out['args'] = list(fin_hp.postProcessParameters)
        out['factor'] = float(fin_hp.labyrinthFactor)
        mob = np.array(c['mob'], dtype=np.float64).reshape(c['p'], c['e'])
        fr = np.array(c['fr'], dtype=np.float64)
        with np.errstate(all='ignore'):
            out['val'] = np.atleast_1d(fin_hp.homogenizationFunction(mob, fr, labyrinth_factor=fin_hp.labyrinthFactor)).astype(float).tolist()
            out['lab'] = np.atleast_1d(H.labyrinth(mob, fr, labyrinth_factor=fin_hp.labyrinthFactor)).astype(float).tolist()
            out['wu'] = np.atleast_1d(H.wienerUpper(mob, fr)).astype(float).tolist()
            out['pf'] = np.power(fr, fin_hp.labyrinthFactor).tolist()
    except Exception as ex:
        out['err'] = type(ex).__name__ + ': ' + str(ex)
    return out


def intent_D(c):
    """what the user asked for, by the last call for each option: (rule, route), (factor handed
    over, route), (mode, args, route)"""
    ct = c['ctor']
    rule, fac, post = (0, 'constructor (default)'), (1.0, 'constructor (default)'), (0, None, 'constructor (default)')
    if not ct['default']:
        rule, fac, post = (ct['rule'], 'constructor'), (ct['n'], 'constructor'), (ct['mode'], ct['args'], 'constructor')
    for o in c['ops']:
        r = ROUTE[(o['via'], o['op'])]
        if o['op'] == 'rule':
            rule = (o['rule'], r)
        elif o['op'] == 'lab':
            fac = (o['n'], r)
        else:
            post = (o['mode'], o['args'], r)
    return rule, fac, post


def oracle_D(c, out):
    """returns list of (clause, cls, msg)"""
    if out['err']:
        return [('no_internal_error', 'configuration raised', 'configuring the homogenization raised ' + out['err'])]
    v = []
    (rule, rroute), (n, froute), (mode, args, proute) = intent_D(c)
    if out['rule'] != [rule]:
        v.append(('configured_rule', rroute, 'asked for %s through %s, the configured function is %s' % (
            RULES[rule], rroute, [RULES[i] for i in out['rule']] or 'none of the five rules')))
    if out['mode'] != [mode] or out['args'] != [args]:
        v.append(('configured_post', proute, "asked for post-processing '%s' %r through %s, configured: %s %r" % (
            MODES[mode], args, proute, [MODES[i] for i in out['mode']], out['args'])))
    if out['others_before'] != out['others_after']:
        v.append(('instances_independent', 'another model changed', 'configuring one HomogenizationModel changed another one (rule, factor, post, args): default-constructed models had %r, after the calls %r'
                  % (out['others_before'], out['others_after'])))
    if out['mine'][0] != out['mine'][1]:
        v.append(('instances_independent', 'changed by another model', 'configuring two other HomogenizationModel objects changed this one from %r to %r' % (out['mine'][0], out['mine'][1])))
    if not out['same_object']:
        v.append(('configured_rule', 'model does not use the parameter object it was given', 'HomogenizationModel holds another HomogenizationParameters object than the one passed in'))
    # the labyrinth rule with the factor that is now configured: never above upper Wiener, equal at 1
    kind = 'factor 1' if n == 1 else 'factor < 1' if n < 1 else 'factor > 2' if n > 2 else 'factor in (1, 2]'
    for j, (lab, wu) in enumerate(zip(out['lab'], out['wu'])):
        if not (lab <= wu * (1 + 1e-12)):
            v.append(('labyrinth_le_upper', '%s via %s' % (kind, froute),
                      'labyrinth factor %r handed to %s: the configured factor is %r and the labyrinth rule gives %r > upper Wiener %r (fractions %r, mobilities %r)'
                      % (n, froute, out['factor'], lab, wu, c['fr'], [r[j] for r in c['mob']])))
            break
        if n == 1 and lab != wu:
            v.append(('labyrinth_one', 'factor 1 via %s' % froute,
                      'labyrinth factor 1 handed to %s: labyrinth %r differs from upper Wiener %r' % (froute, lab, wu)))
            break
    return v


def post_term(mode, args):
    if mode == 0:
        return 'PNone'
    if mode == 1:
        return '(PPredefined %s)' % natlit(POOL.index(args))
    if mode == 2:
        return 'PMajority'
    return '(PExclude [%s])' % '; '.join(natlit(POOL.index(a)) for a in args)


def in_model_D(c):
    """the model's constructor stores its argument; the theorems assume the documented range"""
    return c['ctor']['default'] or 1 <= c['ctor']['n'] <= 2


def model_term_D(c, out):
    ct = c['ctor']
    c0 = 'mkC WienerUpper (1 # 1) PNone' if ct['default'] else 'mkC %s %s %s' % (RULES[ct['rule']], qlit(ct['n']), post_term(ct['mode'], ct['args']))
    ops = []
    for o in c['ops']:
        if o['op'] == 'rule':
            ops.append('opRule %s' % RULES[o['rule']])
        elif o['op'] == 'lab':
            ops.append('opLab %s' % qlit(o['n']))
        else:
            ops.append('opPost %s' % post_term(o['mode'], o['args']))
    return 'check17d %s tinyB maxfB (%s) [%s] %s %s %s %s %s %s' % (
        RT, c0, '; '.join(ops), qlit(out['factor']), pw_term(out['factor'], c['fr'], out['pf']), natlit(c['e']),
        qlistlist(c['mob']), qlist(c['fr']), qlist(fin(out['val'])))


def post_obs(mode, args):
    if mode == 0:
        return 'PNone'
    if mode == 1:
        return ('PPredefined', POOL.index(args))
    if mode == 2:
        return 'PMajority'
    return ('PExclude', [POOL.index(a) for a in args])


def compare_D(c, out, mod):
    mrule, feq, mpost, (deg, verdict) = mod
    dis = []
    if [mrule] != [RULES[i] for i in out['rule']]:
        dis.append('configured rule: implementation %s, model %s' % ([RULES[i] for i in out['rule']], mrule))
    if not feq:
        dis.append('configured labyrinth factor: implementation %r differs from the model (np.clip(n, 1, 2) of the last factor set)' % out['factor'])
    try:
        obs = post_obs(out['mode'][0], out['args'][0]) if len(out['mode']) == 1 and len(out['args']) == 1 else None
    except Exception:
        obs = None
    if obs != mpost:
        dis.append('configured post-processing: implementation %r %r, model %r' % (out['mode'], out['args'], mpost))
    if not dis and not deg:
        if not np.all(np.isfinite(out['val'])):
            dis.append('configured rule returned %r' % out['val'])
        elif verdict is not None:
            k, ap = verdict[1]
            dis.append('configured rule value[%d]: implementation %r, model %r' % (k, out['val'][k], float(tofrac(ap))))
    return dis, 1 if deg else 0


def nontrivial_D(c):
    labs = [o for o in c['ops'] if o['op'] == 'lab']
    return any(not (1 <= o['n'] <= 2) for o in labs) or len(set((o['via'], o['op']) for o in c['ops'])) >= 2


def shrink_D(c, clause, cls):
    def fails(d):
        return any(h[0] == clause and h[1] == cls for h in oracle_D(d, run_impl_D(d)))
    cur = c
    changed = True
    while changed:
        changed = False
        for k in range(len(cur['ops'])):
            d = dict(cur, ops=cur['ops'][:k] + cur['ops'][k + 1:])
            if fails(d):
                cur, changed = d, True
                break
    for j in range(cur['e']):
        d = dict(cur, e=1, mob=[[r[j]] for r in cur['mob']])
        if fails(d):
            return d
    return cur


# ------------------------------------------------------------------------------------------
def corpus_cases():
    out = []
    p = os.path.join(VERIF, 'corpus', 'C17')
    if os.path.isdir(p):
        for f in sorted(os.listdir(p)):
            if f.endswith('.json'):
                obj = json.load(open(os.path.join(p, f)))
                c = obj.get('input', obj)
                c['corpus'] = f
                out.append(c)
    return out


def explore(ctx, cases, label):
    """correspondence + oracle on a batch; returns (disagreements, oracle hits)"""
    dis_all, hits = [], []
    terms, idx, outs = [], [], []
    t0 = time.time()
    for i, c in enumerate(cases):
        if c['part'] == 'A':
            out = run_impl_A(c)
            outs.append(out)
            if out['err'] is None:
                terms.append(model_term_A(c, out))
                idx.append(i)
        elif c['part'] == 'D':
            out = run_impl_D(c)
            outs.append(out)
            if out['err'] is None and in_model_D(c):
                terms.append(model_term_D(c, out))
                idx.append(i)
        else:
            out = run_impl_B(c)
            outs.append(out)
            terms.append(model_term_B(c, out))
            idx.append(i)
    t1 = time.time()
    mods = dict(zip(idx, ctx.coq_eval('cases_' + label, HEADER, terms)))
    tm = ctx.notes.setdefault('timing_s', {})
    tm['implementation_' + label] = round(t1 - t0, 1)
    tm['model_in_coq_' + label] = round(time.time() - t1, 1)
    for i, (c, out) in enumerate(zip(cases, outs)):
        if c['part'] == 'A':
            ctx.count(c, nontrivial_A(c))
            ctx.hist('part', 'A:' + c['kind'])
            ctx.hist('phases', c['p'])
            ctx.hist('labyrinth_factor', '1' if c['n'] == 1 else '2' if c['n'] == 2 else 'other')
            if i in mods:
                dis, ndeg = compare_A(c, out, mods[i])
            else:
                dis, ndeg = ['rule function raised ' + out['err']], 0
            for h in oracle_A(c, out):
                hits.append((c, h[0], h[1], None, h[2]))
        elif c['part'] == 'D':
            ctx.count(c, nontrivial_D(c))
            ctx.hist('part', 'D')
            for o in c['ops']:
                ctx.hist('setter', ROUTE[(o['via'], o['op'])])
                if o['op'] == 'lab':
                    ctx.hist('factor handed to a setter', '<1' if o['n'] < 1 else '>2' if o['n'] > 2 else 'in [1,2]')
            if i in mods:
                dis, ndeg = compare_D(c, out, mods[i])
            else:
                dis, ndeg = (['configuration raised ' + out['err']] if out['err'] else []), 0
                if not out['err']:
                    ctx.notes['constructor_factor_outside_documented_range'] = ctx.notes.get('constructor_factor_outside_documented_range', 0) + 1
            for h in oracle_D(c, out):
                hits.append((c, h[0], h[1], None, h[2]))
        else:
            ctx.count(c, nontrivial_B(c))
            ctx.hist('part', c['part'])
            for st in c['steps']:
                ctx.hist('post', st['mode'])
                ctx.hist('rule', RULES[st['rule']])
                ctx.hist('call', 'computeMobility(array)' if st.get('kind') == 'mobility' else
                         'one composition, array of T' if st.get('broadcast') else 'array of points' if is_array(st) else 'single point')
                for k in step_points(st):
                    ctx.hist('stable_phases', len(c['points'][k]['stable']))
            ctx.cov['traces_validated_against_impl'] += 1
            dis, ndeg = compare_B(c, out, mods[i])
            for h in oracle_B(c, out):
                hits.append((c, h[0], h[1], h[2], h[3]))
        if ndeg:
            ctx.notes['indeterminate_degenerate'] = ctx.notes.get('indeterminate_degenerate', 0) + ndeg
        for d in dis:
            dis_all.append((c, d))
        if len(ctx.cov['samples']) < 6 and (i % 40 == 0):
            ctx.sample({'input': c, 'implementation': out.get('res', out.get('cached'))})
    return dis_all, hits


def report_hits(ctx, hits):
    seen = set()
    for (c, clause, cls, idx, msg) in hits:
        if (clause, cls) in seen:
            continue
        seen.add((clause, cls))
        if c['part'] == 'A':
            small = shrink_A(c, clause, cls)
            msgs = [h[2] for h in oracle_A(small, run_impl_A(small)) if h[0] == clause and h[1] == cls]
        elif c['part'] == 'D':
            small = shrink_D(c, clause, cls)
            msgs = [h[2] for h in oracle_D(small, run_impl_D(small)) if h[0] == clause and h[1] == cls]
        else:
            small = shrink_B(c, clause, cls, idx)
            msgs = [h[3] for h in oracle_B(small, run_impl_B(small)) if h[0] == clause and h[1] == cls]
        ctx.violation(clause, {'site': SITE, 'cls': cls},
                      {'kind': 'input' if c['part'] == 'A' else 'history' if c['part'] != 'D' else 'configuration history', 'input': small, 'observed': msgs[0] if msgs else msg,
                       'oracle': 'property text evaluated on the implementation outputs (harness/c17.py: oracle_%s)' % (c['part'] if c['part'] in ('A', 'D') else 'B')},
                      msgs[0] if msgs else msg)


def run(ctx):
    quick = ctx.quick
    ctx.cov['rule'] = ('part A: (p, e) mobility matrices, p = 1..4 phases, e = 1..3 elements, kinds exact dyadic / physical / '
                       'spread over 10 decades / equal mobilities / one-hot fractions / extreme fractions / undefined (-1) entries, '
                       'labyrinth factor 1, 2, 1.5, 3 or random in [1, 2.5], each also evaluated with the phases permuted; non-trivial '
                       'when a fully defined column has two different mobilities and two positive fractions. part B: scripted '
                       'thermodynamics (2-5 database phases, 1-4 stable composition sets per point in an order unrelated to the database '
                       'order, phases without mobility model), histories of 2-5 computeHomogenizationFunction calls with one hash table, '
                       'all rules and post-processing modes, repeated steps; non-trivial when a named phase sits at a different position '
                       'among the stable phases than in the database (or is not stable) or a point is evaluated twice or an array holds neighbouring entries of equal composition and different temperature. A point is a (composition, temperature) pair, compositions occur at several temperatures; 40 % of the steps pass ARRAYS of 2-5 points (flat segments of a profile with a temperature gradient, repeated (x, T) pairs, one composition broadcast over an array of temperatures, computeMobility on the array); every entry is compared with the single-point evaluation on a fresh object, with the same array on a fresh object, and with the [min, max] of the own phase mobilities of that node. part C: the same histories against pycalphad on the Ni-Cr-Al and Fe-Cr-Ni databases of kawin\'s tests (both orders of the phase list, random compositions, T = 1073/1173/1273 K; the backend data shipped to the model come from a cache-free _computeSingleMobility call). part D: configuration histories - HomogenizationParameters constructed by string / alternative spelling / ID (or the default of HomogenizationModel), then 0-4 setter calls on the parameter object or through HomogenizationModel (setMobilityFunction, setLabyrinthFactor with factors below 1, in [1, 2], above 2, int or float, setMobilityPostProcessFunction); the configured rule / factor / post-processing are compared with the model and the configured labyrinth rule with upper Wiener on a defined matrix; non-trivial when a factor outside [1, 2] is handed to a setter or two different setters are used. distinct by hash of the exact input')
    t0 = time.time()
    axioms, failed = ctx.prove(['C17/Properties.v'])
    ctx.notes.setdefault('timing_s', {})['prove'] = round(time.time() - t0, 1)
    t0 = time.time()
    nA, nB, nC, nD = (260, 120, 30, 150) if quick else (4000, 2000, 500, 3000)
    cases = corpus_cases()
    cases += [gen_A(ctx.rng, quick) for _ in range(nA)] + [gen_B(ctx.rng, quick) for _ in range(nB)] + [gen_C(ctx.rng, quick) for _ in range(nC)]
    cases += [gen_D(ctx.rng, quick) for _ in range(nD)]
    ctx.notes['timing_s']['generate'] = round(time.time() - t0, 1)
    dis, hits = explore(ctx, cases, 'main')
    report_hits(ctx, hits)
    if (dis or failed) and not hits:
        more = [gen_A(ctx.rng, quick) for _ in range(1500)] + [gen_B(ctx.rng, quick) for _ in range(800)] + [gen_C(ctx.rng, quick) for _ in range(100)] + [gen_D(ctx.rng, quick) for _ in range(1000)]
        hits2 = []
        for c in more:
            if c['part'] == 'A':
                hits2 += [(c, h[0], h[1], None, h[2]) for h in oracle_A(c, run_impl_A(c))]
            elif c['part'] == 'D':
                hits2 += [(c, h[0], h[1], None, h[2]) for h in oracle_D(c, run_impl_D(c))]
            else:
                hits2 += [(c, h[0], h[1], h[2], h[3]) for h in oracle_B(c, run_impl_B(c))]
        ctx.cov['evaluations'] += len(more)
        if hits2:
            report_hits(ctx, hits2)
            hits = hits2
    if dis and not hits:
        c, d = dis[0]
        ctx.violation('correspondence', {'site': SITE, 'cls': d.split(':')[0].split('[')[0].split(' (')[0]},
                      {'broken': {'correspondence': 'coq/C17/Model.v vs kawin/diffusion/HomogenizationParameters.py', 'first_disagreement': d},
                       'input': c, 'disagreements': len(dis)},
                      'model and implementation disagree (%d cases), e.g. %s' % (len(dis), d), no_input=True)
    for t in failed:
        ctx.violation(t, {'site': 'coq/C17/Properties.v', 'cls': 'proof'},
                      {'broken': {'theorem': t, 'file': 'coq/C17/Properties.v'}},
                      'theorem %s no longer checks' % t, no_input=True)
    ctx.notes['disagreements'] = len(dis)
    ctx.notes['oracle_hits'] = len(hits)
    ctx.assumptions += [
        'binary64 rounding and numpy summation order are not modelled: outputs are compared with relative tolerance 2^-36 of a model-computed magnitude (for Hashin-Shtrikman: first-order error propagation through its two cancellations)',
        'np.power(f, n) for a non-integer labyrinth factor is an oracle of the model: the implementation\'s own powers are shipped to the model; the theorem C17_labyrinth_real_le covers the real power function, its hypothesis 0 <= f**n <= f is what numpy is trusted for',
        'np.finfo(float64).tiny / .max enter the model as parameters; cases in which the exact model leaves the binary64 range or divides by zero (all fractions excluded) are counted as indeterminate, not compared',
        'bounds and ordering are claimed (and checked by the oracle) for fully defined mobilities only, as the property states; with undefined entries only correspondence, permutation invariance and the labyrinth clauses are checked',
        'the thermodynamics object of part B is scripted (pycalphad is not run): what is tied is _computeSingleMobility + the post-processing + the rule + the hash-table protocol; in part C pycalphad runs and the equilibrium / mobility values of a cache-free call are taken as the backend oracle (their correctness belongs to C09/C10)',
        'part D: the constructor argument labyrinthFactor is documented as between 1 and 2; the model stores it as given and the configuration theorems assume that range; constructor values outside it are evaluated by the oracle only',
        'the hand-written model coq/C17/Model.v is tied to the code only through this correspondence']
    ctx.cov['trusted_base'] += ['Coq 8.16.1 kernel and vm_compute', 'hand-written model coq/C17/Model.v + correspondence driver coq/C17/Corr.v + harness/c17.py',
                                'float -> Q transport (float.as_integer_ratio) and output parser in harness/common.py']


def replay(ctx, obj):
    c = obj['input']
    if c['part'] == 'A':
        hits = [(h[0], h[1], h[2]) for h in oracle_A(c, run_impl_A(c))]
    elif c['part'] == 'D':
        hits = [(h[0], h[1], h[2]) for h in oracle_D(c, run_impl_D(c))]
    else:
        hits = [(h[0], h[1], h[3]) for h in oracle_B(c, run_impl_B(c))]
    for h in hits:
        print('replay:', h)
    print('replay: %d oracle violations on this input' % len(hits))
    return 1 if hits else 0
