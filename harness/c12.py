"""C12 - driving force, phase boundary and critical radius agree with each other.

proof:          coq/C12/Properties.v (25 theorems about coq/C12/Model.v): growth-sign algebra of the
                multicomponent rate (sign change exactly at Rcrit = 2 f gamma / dG_v, Rmin clamp, no driving
                force => every class shrinks, nuclei grow), the same for the binary rate under explicit
                backend premises (DG strictly increasing, DG(x_alpha(g)) = g + offset), with the exact
                position of the sign change 2 f gamma / (dG_v - off/Vm) and the band the offset can move
                it by; consequences of the premises (x_alpha strictly increasing in g, unique root, sign
                change of DG at the solvus); sentinel monotonicity and the prefix structure of the lookup
                table; RdrivingForceIndex bookkeeping; the GE-index loop; curvature / approximate
                driving-force algebra.  C12_strain_double_count_refuted: the code before the repair.
correspondence: (a) BinaryThermodynamics._interfacialCompositionFromEq is executed on scripted fake
                    workspaces (any enumeration order, phase sets, coordinate order, reverse flag) and
                    compared with the model's ge_comp inside Coq;
                (b) _growthRateOutputFromCurvature, computeGibbsThomsonContribution,
                    volumetricDrivingForce + nucleationBarrier are called on generated inputs (shape and
                    strain objects of kawin are oracles whose values are shipped) and compared with the
                    exact-rational model inside Coq;
                (c) PrecipitateModel._createLookupBinary / _singleGrowthBinary are called on a real model
                    with scripted interfacial compositions (lookup_fix, growth_bin);
                (d) at sampled steps of full runs (closed-form binary / ternary backends, Al-Zr and
                    Ni-Cr-Al through pycalphad) the growth rate recorded by kawin is recomputed by the
                    model inside Coq from the quantities kawin used (trace refinement), for the ternary
                    runs including the driving force and Gibbs-Thomson energy handed to the backend.
search:         oracles written from the property text, independent of the Coq model and of the code:
                (1) trace oracle, every step of every run: size classes above the recorded critical
                    radius grow, below shrink (band 2*gOffset/(Vm*dG_v) + 1e-6 exempt; clamped Rcrit:
                    only 'above grows'; no driving force: nothing grows);
                (2) GE loop: per GE index the first two-phase entry, sentinel otherwise;
                    Runs include non-isothermal binary schedules (heating, quench, hold after the jump, heating
                    then cooling; closed-form backends and Al-Zr): a lookup table further than maxTempChange from
                    the current temperature is NOT exempt.
                (3) backend sampling on Al-Zr and Cu-Ti (pycalphad), as query SEQUENCES over several temperatures
                    (and back) on ONE long-lived object per driving-force method with the default
                    removeCache=False: DG(x_alpha(g)) within the offset of
                    g, bisection root of DG(x) = g against getInterfacialComposition, DG increasing in x,
                    sign change at the solvus, x_alpha increasing in g, sentinel monotone, the four
                    driving-force methods (sign; value to the offset for stoichiometric Al3Zr).
                    Systems include precipitates whose formula unit is not one mole of atoms (Al-Mg BETA_AL3MG2, 229
                    atoms; Al-Mg-Si, five stoichiometric phases with 2.8 ... 19 atoms, multicomponent backend), and a
                    kawin-free reference: tangent-plane distance to the compound from pycalphad's plain models.
                (3) is sampling only (level: exploration) - pycalphad is not modelled.
                    Calling conventions (sample_conventions): the same entry points with g / x / T as scalars, lists, tuples,
                    int and float arrays, 0-d arrays, temperature arrays with equal / separated / nearly equal entries,
                    argument arrays unchanged and re-used, histories on one object, two objects interleaved; a run whose
                    display names differ from the phase names against its twin.
                (4) ExtraGibbsModel (the precipitate model carrying GE): GM and G of the real symbolic models of nine
                    phases evaluated at random points against extra_gm / extra_g of the Coq model, and against
                    'GE raises the energy per mole of atoms by GE in both properties'.
"""
import contextlib, io, json, math, time, types, warnings
from fractions import Fraction
import numpy as np
from common import *

LEVEL = 'proof'
GAS = 8.314
RT = '(1 # 68719476736)'        # 2^-36
RTX = '(1 # 281474976710656)'   # 2^-48 for exact dyadic cases (a few roundings of / remain)

HEADER = '''From Coq Require Import QArith List ZArith Bool.
Require Import Kawin.Common.Ops Kawin.Common.Vec Kawin.Common.Out Kawin.C12.Model Kawin.C12.Corr.
Import ListNotations.
Open Scope Q_scope.
'''

SITE_GE = 'BinTherm._interfacialCompositionFromEq'
SITE_CURV = 'MultiTherm._growthRateOutputFromCurvature'
SITE_GT = 'PrecipitationParameters.computeGibbsThomsonContribution'
SITE_NB = 'NucleationRate.nucleationBarrier'
SITE_LK = 'KWNEuler._createLookupBinary'
SITE_GB = 'KWNEuler._singleGrowthBinary'
SITE_GM = 'KWNEuler._singleGrowthMulti'
SITE_TH = 'Thermodynamics (pycalphad backend)'


@contextlib.contextmanager
def quiet():
    with contextlib.redirect_stdout(io.StringIO()), warnings.catch_warnings():
        warnings.simplefilter('ignore')
        with np.errstate(all='ignore'):
            yield


def fl(xs):
    return [float(v) for v in np.ravel(xs)]


# ==========================================================================================
# closed-form backends (consistent by construction: DG(x_alpha(g)) = g + off exactly, up to rounding)
class DiluteBinary:
    """ideal dilute solution, stoichiometric precipitates.  DG(x) = R T xb ln(x / xe(T));
    x_alpha_true(g) = xe exp(g / (R T xb)); like kawin's backend the interfacial composition is
    evaluated at g + off; -1 where x_alpha would reach xlim."""
    numElements = 2
    elements = ['A', 'B', 'VA']
    P = {'B1': (0.25, 60000., 2.0), 'B2': (0.5, 52000., 1.2), 'B3': (0.2, 65000., 2.6)}

    def __init__(self, phases=('B1',), off=1.0, D0=1e-5, Q=150000., xlim_frac=0.6):
        self.phases = ['ALPHA'] + list(phases)
        self.gOffset = off
        self.D0, self.Q = D0, Q
        self.xlim_frac = xlim_frac
        self.ic_log = []

    def xeq(self, T, ph):
        xb, H, S = self.P[ph]
        return np.exp(-H / (GAS * T) + S)

    def dg(self, x, T, ph):
        xb = self.P[ph][0]
        return GAS * T * xb * np.log(x / self.xeq(T, ph))

    def xalpha_true(self, g, T, ph):
        xb = self.P[ph][0]
        return self.xeq(T, ph) * np.exp(g / (GAS * T * xb))

    def getInterfacialComposition(self, T, gExtra=0, precPhase=None):
        T = np.atleast_1d(T)
        g = np.array(np.atleast_1d(gExtra), dtype=float)
        ph = precPhase if precPhase is not None else self.phases[1]
        xb0 = self.P[ph][0]
        xa = self.xalpha_true(g + self.gOffset, T[0], ph)
        bad = ~(xa < self.xlim_frac * xb0)
        xa = np.where(bad, -1.0, xa)
        xb = np.where(bad, -1.0, xb0 * np.ones(g.shape))
        self.ic_log.append((float(T[0]), xa.copy(), xb.copy()))
        return np.squeeze(xa), np.squeeze(xb)

    def getDrivingForce(self, x, T, precPhase=None, removeCache=False, **k):
        x = np.atleast_2d(x)
        T = np.atleast_1d(T)
        ph = precPhase if precPhase is not None else self.phases[1]
        with np.errstate(all='ignore'):
            dg = self.dg(x[:, 0], T, ph)
        return np.squeeze(dg), np.squeeze(self.P[ph][0] * np.ones(len(T)))

    def getInterdiffusivity(self, x, T, removeCache=True, phase=None):
        return np.squeeze(self.D0 * np.exp(-self.Q / (GAS * np.atleast_1d(T))))

    def getTracerDiffusivity(self, x, T, removeCache=True, phase=None):
        d = self.D0 * np.exp(-self.Q / (GAS * np.atleast_1d(T)))
        return np.squeeze(np.array([d, d]).T)


class RegularBinary(DiluteBinary):
    """non-dilute: DG(x) = R T [xb ln(x/xe) + (1-xb) ln((1-x)/(1-xe))], strictly increasing on (0, xb);
    x_alpha by bisection of DG(x) = g (60 halvings, vectorised)."""
    def dg(self, x, T, ph):
        xb = self.P[ph][0]
        xe = self.xeq(T, ph)
        return GAS * T * (xb * np.log(x / xe) + (1 - xb) * np.log((1 - x) / (1 - xe)))

    def xalpha_true(self, g, T, ph):
        xb = self.P[ph][0]
        g = np.asarray(g, dtype=float)
        lo = np.full(g.shape, 1e-300)
        hi = np.full(g.shape, xb)
        for _ in range(200):
            mid = 0.5 * (lo + hi)
            up = self.dg(mid, T, ph) < g
            lo = np.where(up, mid, lo)
            hi = np.where(up, hi, mid)
        return 0.5 * (lo + hi)


class StubTernary:
    """A-B-C ideal dilute matrix, stoichiometric precipitate; the growth rate goes through kawin's own
    _growthRateOutputFromCurvature with closed-form curvature terms."""
    numElements = 3
    elements = ['A', 'B', 'C', 'VA']
    P = {'B1': ((0.2, 0.05), (1.5e-3, 2e-3)),        # precipitate composition, solvus composition at 700 K
         'B2': ((0.1, 0.3), (2.5e-3, 1.2e-3))}

    def __init__(self, phases=('B1',), D=2e-17):
        self.phases = ['ALPHA'] + list(phases)
        self.D = D
        self.calls = []
        self.mc = {}

    def xe(self, T, ph):
        return np.array(self.P[ph][1]) * np.exp(-40000. / GAS * (1 / T - 1 / 700.))

    def getDrivingForce(self, x, T, precPhase=None, removeCache=False, **k):
        x = np.atleast_2d(x)
        T = np.atleast_1d(T)
        ph = precPhase if precPhase is not None else self.phases[1]
        xb = np.array(self.P[ph][0])
        with np.errstate(all='ignore'):
            dg = np.array([GAS * Ti * np.sum(xb * np.log(xi / self.xe(Ti, ph))) for xi, Ti in zip(x, T)])
        return np.squeeze(dg), np.squeeze(np.array([xb for _ in T]))

    def _curv(self, x, T, ph):
        from kawin.thermo.MultiTherm import CurvatureOutput
        xb = np.array(self.P[ph][0])
        xe = self.xe(T, ph)
        den = GAS * T * np.sum((xb - xe) ** 2 / xe) / self.D
        mc = 1 / den
        dc = (xb - xe) / (GAS * T * np.sum((xb - xe) ** 2 / xe))
        beta = 1 / np.sum((xb - xe) ** 2 / (xe * self.D))
        self.mc[ph] = mc
        return CurvatureOutput(dc=dc, mc=mc, gba=np.zeros((2, 2)), beta=beta, c_eq_alpha=xe, c_eq_beta=xb)

    def getGrowthAndInterfacialComposition(self, x, T, dG, R, gExtra, precPhase=None, removeCache=False, searchDir=None):
        from kawin.thermo.MultiTherm import _growthRateOutputFromCurvature
        ph = precPhase if precPhase is not None else self.phases[1]
        c = self._curv(np.array(x), float(T), ph)
        out = _growthRateOutputFromCurvature(np.array(x, dtype=float), dG, R, gExtra, c)
        self.calls.append({'phase': ph, 'dG': float(np.squeeze(dG)), 'R': np.array(R, dtype=float).copy(),
                           'gExtra': np.array(gExtra, dtype=float).copy(), 'mc': float(c.mc),
                           'growth': np.array(out.growth_rate, dtype=float).copy()})
        return out

    def impingementFactor(self, x, T, precPhase=None, removeCache=False, searchDir=None):
        ph = precPhase if precPhase is not None else self.phases[1]
        return self._curv(np.array(x), float(T), ph).beta


class MultiLog:
    """forwards to a real MulticomponentThermodynamics and logs what _singleGrowthMulti hands over"""
    def __init__(self, inner):
        object.__setattr__(self, '_inner', inner)
        object.__setattr__(self, 'calls', [])

    def __getattr__(self, k):
        return getattr(self._inner, k)

    def __setattr__(self, k, v):
        setattr(self._inner, k, v)

    def getGrowthAndInterfacialComposition(self, x, T, dG, R, gExtra, precPhase=None, removeCache=False, searchDir=None):
        out = self._inner.getGrowthAndInterfacialComposition(x, T, dG, R, gExtra, precPhase=precPhase, removeCache=removeCache, searchDir=searchDir)
        if out is not None and np.ndim(R) > 0:
            ph = precPhase if precPhase is not None else self._inner.phases[1]
            self.calls.append({'phase': ph, 'dG': float(np.squeeze(dG)), 'R': np.array(R, dtype=float).copy(),
                               'gExtra': np.array(gExtra, dtype=float).copy(),
                               'mc': float(self._inner._curvature_outputs[ph].mc),
                               'growth': np.array(out.growth_rate, dtype=float).copy()})
        return out


# ==========================================================================================
# (a) the GE-index loop against a fake workspace
NAMES = ['ALPHA', 'BETA', 'GAMMA']


class _CS:
    def __init__(self, name, X):
        self.phase_record = types.SimpleNamespace(phase_name=name)
        self.X = np.array(X, dtype=float)


class _Wks:
    def __init__(self, keys, entries):
        self.eq = types.SimpleNamespace(coords={k: None for k in keys})
        self._entries = entries

    def enumerate_composition_sets(self):
        for e in self._entries:
            yield e


def gen_ge_case(rng):
    n = int(rng.integers(1, 7))
    nx = int(rng.integers(1, 6))
    mat = 'ALPHA'
    prec = 'ALPHA' if rng.random() < 0.08 else 'BETA'
    order = str(rng.choice(['ge_outer', 'x_outer', 'shuffled'], p=[0.8, 0.12, 0.08]))
    keys = ['GE', 'N', 'P', 'T', 'X_B']
    if rng.random() < 0.4:
        keys = [keys[i] for i in rng.permutation(5)]
    skip = set(int(k) for k in range(n) if rng.random() < 0.15)
    ents = []
    for ge in range(n):
        if ge in skip:
            continue
        for xi in range(nx):
            kind = str(rng.choice(['m', 'p', 'mp', 'pm', 'mo', 'mpo', 'mm', 'none'], p=[0.25, 0.05, 0.3, 0.15, 0.08, 0.07, 0.05, 0.05]))
            cs = []
            for ch in ({'m': 'm', 'p': 'p', 'mp': 'mp', 'pm': 'pm', 'mo': 'mo', 'mpo': 'mpo', 'mm': 'mm', 'none': ''}[kind]):
                nm = {'m': mat, 'p': 'BETA', 'o': 'GAMMA'}[ch]
                cs.append([nm, [float(np.round(rng.uniform(0, 1), 6)), float(np.round(rng.uniform(0, 1), 6))]])
            ents.append([ge, xi, cs])
    if order == 'x_outer':
        ents.sort(key=lambda e: (e[1], e[0]))
    elif order == 'shuffled':
        ents = [ents[i] for i in rng.permutation(len(ents))]
    if rng.random() < 0.04 and ents:
        ents[int(rng.integers(0, len(ents)))][0] = n + int(rng.integers(0, 2))       # out of range: IndexError
    return {'kind': 'ge', 'n': n, 'prec': prec, 'reverse': bool(rng.random() < 0.4), 'keys': keys, 'order': order,
            'entries': ents, 'gextra': [float(g) for g in np.round(rng.uniform(0, 5000, n), 3)]}


def run_ge_impl(c):
    import kawin.thermo.BinTherm as BT
    gi = c['keys'].index('GE')
    ents = []
    for ge, xi, cs in c['entries']:
        idx = [7, 0, 0, 0, xi]
        idx = [idx[['GE', 'N', 'P', 'T', 'X_B'].index(k)] for k in c['keys']]
        idx[gi] = ge
        ents.append((tuple(idx), [_CS(nm, X) for nm, X in cs]))
    fake = types.SimpleNamespace(gOffset=1, elements=['A', 'B', 'VA'], _guessComposition={c['prec']: (0, 1, 0.1)},
                                 _setupSubModels=lambda p: ([], {}), db=None, phase_records=None, pDens=10,
                                 phases=['ALPHA', c['prec']], reverse=c['reverse'])
    saved = BT.Workspace
    BT.Workspace = lambda *a, **k: _Wks(c['keys'], ents)
    try:
        xm, xp = BT.BinaryThermodynamics._interfacialCompositionFromEq(fake, 700.0, np.array(c['gextra'], dtype=float), c['prec'])
        return {'err': None, 'xm': fl(np.atleast_1d(xm)), 'xp': fl(np.atleast_1d(xp))}
    except IndexError as e:
        return {'err': 'IndexError', 'xm': [], 'xp': []}
    except Exception as e:
        return {'err': type(e).__name__ + ': ' + str(e), 'xm': [], 'xp': []}
    finally:
        BT.Workspace = saved


def ge_term(c, im):
    code = {nm: i for i, nm in enumerate(NAMES)}
    es = '[' + '; '.join('(%s, [%s])' % (natlit(ge), '; '.join('(%s, (%s, %s))' % (natlit(code[nm]), qlit(X[0]), qlit(X[1])) for nm, X in cs))
                         for ge, xi, cs in c['entries']) + ']'
    return 'chk_ge %s %s %s %s %s %s %s %s' % (natlit(0), natlit(code[c['prec']]), boollit(c['reverse']), natlit(c['n']), es,
                                              boollit(im['err'] == 'IndexError'), qlist(im['xm']), qlist(im['xp']))


def ge_oracle(c, im):
    """property text: per GE index the first two-phase (matrix + precipitate) entry, -1 otherwise;
    claimed for enumerations whose GE index does not decrease and stays inside the arrays"""
    ges = [e[0] for e in c['entries']]
    if any(a > b for a, b in zip(ges, ges[1:])) or any(g >= c['n'] for g in ges):
        return []
    if im['err']:
        return [('ge_index_loop', 'exception', 'raised %s on a well-ordered enumeration' % im['err'])]
    ci = 0 if c['reverse'] else 1
    out = []
    for k in range(c['n']):
        exp = (-1.0, -1.0)
        for ge, xi, cs in c['entries']:
            names = [nm for nm, X in cs]
            if ge == k and len(cs) == 2 and 'ALPHA' in names and c['prec'] in names:
                m = [X for nm, X in cs if nm == 'ALPHA'][0]
                p = [X for nm, X in cs if nm == c['prec']][0]
                exp = (m[ci], p[ci])
                break
        if (im['xm'][k], im['xp'][k]) != exp:
            out.append(('ge_index_loop', 'wrong entry', 'GE index %d: returned (%r, %r), first two-phase entry is %r' % (k, im['xm'][k], im['xp'][k], exp)))
            break
    return out


# ==========================================================================================
# (b) arithmetic kernels
def gen_curv_case(rng):
    exact = bool(rng.random() < 0.3)
    n = int(rng.integers(1, 9))
    ne = int(rng.integers(1, 4))
    if exact:
        R = [float(v) for v in rng.choice([0.5, 1, 2, 4, 8, 3, 5], n)]
        gE = [float(v) for v in rng.integers(-8, 9, n)]
        dG = float(rng.integers(-8, 9))
        mc = float(rng.choice([0.25, 0.5, 1, 2, 3]))
        x = [float(v) for v in rng.choice([0.125, 0.25, 0.5, 0.0625], ne)]
        dc = [float(v) for v in rng.choice([-0.125, 0.0625, 0.03125, 0.25, 0], ne)]
    else:
        R = [float(v) for v in 10 ** rng.uniform(-10, -7, n)]
        scale = 10 ** rng.uniform(1, 4.5)
        dG = float(rng.normal(0, 1) * scale)
        gE = [float(v) for v in rng.uniform(0, 3, n) * scale]
        if rng.random() < 0.3:
            gE[int(rng.integers(0, n))] = dG * (1 + float(rng.normal(0, 1e-9)))        # near the sign change
        mc = float(10 ** rng.uniform(-24, -16))
        x = [float(v) for v in rng.uniform(1e-3, 0.2, ne)]
        dc = [float(v) for v in rng.normal(0, 1, ne) * 10 ** rng.uniform(-7, -3.5)]
    cea = [float(v) for v in rng.uniform(1e-3, 0.1, ne)]
    ceb = [float(v) for v in rng.uniform(0.1, 0.5, ne)]
    gba = [[float(v) for v in row] for row in rng.uniform(-1, 1, (ne, ne))]
    return {'kind': 'curv', 'exact': exact, 'R': R, 'gE': gE, 'dG': dG, 'mc': mc, 'x': x, 'dc': dc, 'cea': cea, 'ceb': ceb, 'gba': gba}


def run_curv_impl(c):
    from kawin.thermo.MultiTherm import _growthRateOutputFromCurvature, CurvatureOutput
    cur = CurvatureOutput(dc=np.array(c['dc']), mc=c['mc'], gba=np.array(c['gba']), beta=1.0,
                          c_eq_alpha=np.array(c['cea']), c_eq_beta=np.array(c['ceb']))
    try:
        out = _growthRateOutputFromCurvature(np.array(c['x']), c['dG'], np.array(c['R']), np.array(c['gE']), cur)
        n, ne = len(c['R']), len(c['x'])
        return {'err': None, 'growth': fl(np.atleast_1d(out.growth_rate)), 'calpha': np.reshape(np.array(out.c_alpha, dtype=float), (n, ne)).tolist()}
    except Exception as e:
        return {'err': type(e).__name__ + ': ' + str(e)}


def curv_term(c, im):
    return 'chk_curv %s %s %s %s %s %s %s %s %s' % (RTX if c['exact'] else RT, qlit(c['mc']), qlit(c['dG']), qlist(c['R']), qlist(c['gE']),
                                                    qlist(c['x']), qlist(c['dc']), qlist(im['growth']), qlistlist(im['calpha']))


def curv_oracle(c, im):
    """property text: growth of a class has the sign of (driving force - Gibbs-Thomson energy)"""
    if im['err']:
        return [('growth_sign_multi', 'exception', 'raised ' + im['err'])]
    for k, (g, ge) in enumerate(zip(im['growth'], c['gE'])):
        d = c['dG'] - ge
        if abs(d) <= 1e-12 * (abs(c['dG']) + abs(ge)):
            continue
        if (g > 0) != (d > 0) or g == 0:
            return [('growth_sign_multi', 'sign', 'class %d: growth %r but driving force - Gibbs-Thomson energy = %r' % (k, g, d))]
    return []


SHAPES = ['sphere', 'needle', 'plate', 'cubic']


def make_precip(c):
    from kawin.precipitation import PrecipitateParameters
    p = PrecipitateParameters('B1')
    p.gamma = c['gamma']
    p.volume.setVolume(c['vm'], 'VM', 4)
    p.shapeFactor.setPrecipitateShape(c['shape'], c['ar'])
    if c['strain'] != 0:
        p.strainEnergy.setConstantElasticEnergy(c['strain'])
    p.nucleation.setNucleationType(c.get('site', 'bulk'))
    p.Rmin = c.get('rmin', 3e-10)
    return p


def gen_gt_case(rng):
    shape = str(rng.choice(SHAPES))
    n = int(rng.integers(1, 10))
    return {'kind': 'gt', 'shape': shape, 'ar': 1.0 if shape == 'sphere' else float(np.round(rng.uniform(1, 6), 3)),
            'gamma': float(np.round(10 ** rng.uniform(-2, 0), 6)), 'vm': float(10 ** rng.uniform(-5.3, -4.7)),
            'strain': float(rng.choice([0.0, 10 ** rng.uniform(5, 8), -10 ** rng.uniform(5, 7)], p=[0.3, 0.6, 0.1])),
            'R': [float(v) for v in np.sort(10 ** rng.uniform(-10, -7, n))]}


def run_gt_impl(c):
    try:
        with quiet():
            p = make_precip(c)
            R = np.array(c['R'])
            g = p.computeGibbsThomsonContribution(R)
            f = p.shapeFactor.thermoFactor(R)
            s = p.computeStrainEnergyFromR(R)
        n = len(c['R'])
        return {'err': None, 'g': fl(np.atleast_1d(g)), 'f': fl(np.atleast_1d(f) * np.ones(n)), 's': fl(np.atleast_1d(s) * np.ones(n))}
    except Exception as e:
        return {'err': type(e).__name__ + ': ' + str(e)}


def gt_term(c, im):
    return 'chk_gt %s %s %s %s %s %s %s' % (RT, qlit(c['vm']), qlit(c['gamma']), qlist(im['s']), qlist(im['f']), qlist(c['R']), qlist(im['g']))


def gt_oracle(c, im):
    """Gibbs-Thomson energy = Vm (strain + 2 f gamma / R), scalar recomputation"""
    if im['err']:
        return [('gibbs_thomson', 'exception', 'raised ' + im['err'])]
    for k, R in enumerate(c['R']):
        exp = c['vm'] * (im['s'][k] + 2 * im['f'][k] * c['gamma'] / R)
        if abs(im['g'][k] - exp) > 1e-9 * (abs(c['vm'] * im['s'][k]) + abs(c['vm'] * 2 * im['f'][k] * c['gamma'] / R)):
            return [('gibbs_thomson', 'value', 'R=%r: returned %r, Vm (strain + 2 f gamma/R) = %r' % (R, im['g'][k], exp))]
    return []


class _ConstDG:
    numElements = 2

    def __init__(self, dg):
        self.dg = dg

    def getDrivingForce(self, x, T, precPhase=None, removeCache=False, **k):
        return np.squeeze(np.array([self.dg])), np.squeeze(np.array([0.25]))


def gen_nb_case(rng):
    shape = str(rng.choice(SHAPES))
    vm = float(10 ** rng.uniform(-5.3, -4.7))
    gamma = float(np.round(10 ** rng.uniform(-2, 0), 6))
    strain = float(rng.choice([0.0, 10 ** rng.uniform(5, 8)], p=[0.4, 0.6]))
    dgv = float(rng.choice([10 ** rng.uniform(6, 10), -10 ** rng.uniform(5, 9), 0.0], p=[0.8, 0.15, 0.05]))
    chem = (dgv + strain) * vm
    rmin = float(rng.choice([3e-10, 10 ** rng.uniform(-10, -8)]))
    return {'kind': 'nb', 'shape': shape, 'ar': 1.0 if shape == 'sphere' else float(np.round(rng.uniform(1, 6), 3)), 'gamma': gamma,
            'vm': vm, 'strain': strain, 'chem': chem, 'rmin': rmin, 'site': str(rng.choice(['bulk', 'dislocations']))}


def run_nb_impl(c):
    from kawin.precipitation import NucleationRate as NR
    try:
        with quiet():
            p = make_precip(c)
            chemDG, volDG, _ = NR.volumetricDrivingForce(_ConstDG(c['chem']), 0.01, 700.0, p, aspectRatio=c['ar'])
            Rc, Gc = NR.nucleationBarrier(volDG, p, aspectRatio=c['ar'])
            f = p.shapeFactor.description.thermoFactor(c['ar'])
            s = p.strainEnergy.compute(p.shapeFactor.description.normalRadii(c['ar']))
        return {'err': None, 'vol': float(volDG), 'rc': float(Rc), 'gc': float(Gc), 'f': float(np.squeeze(f)), 's': float(np.squeeze(s))}
    except Exception as e:
        return {'err': type(e).__name__ + ': ' + str(e)}


def nb_term(c, im):
    return 'chk_rcrit %s %s %s %s %s %s %s %s %s' % (RT, qlit(c['chem']), qlit(c['vm']), qlit(im['s']), qlit(im['f']), qlit(c['gamma']),
                                                    qlit(c['rmin']), qlit(im['vol']), qlit(im['rc']))


def nb_oracle(c, im):
    """Rcrit = 2 f gamma / dG_v raised to Rmin for a positive volumetric driving force, 0 otherwise"""
    if im['err']:
        return [('rcrit', 'exception', 'raised ' + im['err'])]
    v = c['chem'] / c['vm'] - im['s']
    if abs(im['vol'] - v) > 1e-9 * (abs(c['chem'] / c['vm']) + abs(im['s'])):
        return [('rcrit', 'volumetric driving force', 'returned %r, DG/Vm - strain = %r' % (im['vol'], v))]
    exp = max(2 * im['f'] * c['gamma'] / im['vol'], c['rmin']) if im['vol'] > 0 else 0.0
    if abs(im['rc'] - exp) > 1e-9 * abs(exp):
        return [('rcrit', 'value', 'Rcrit %r, expected %r (dG_v %r, Rmin %r)' % (im['rc'], exp, im['vol'], c['rmin']))]
    return []


# ==========================================================================================
# (c) lookup table bookkeeping and binary growth on a real PrecipitateModel with scripted compositions
class _Scripted:
    numElements = 2
    elements = ['A', 'B', 'VA']
    phases = ['ALPHA', 'B1']

    def __init__(self, xa, xb, D):
        self.xa, self.xb, self.D = np.array(xa, dtype=float), np.array(xb, dtype=float), D

    def getInterfacialComposition(self, T, gExtra=0, precPhase=None):
        g = np.atleast_1d(gExtra)
        if len(g) == len(self.xa):
            self.g_seen = np.array(g, dtype=float).copy()
            return self.xa.copy(), self.xb.copy()
        k = int(np.argmax(self.xa != -1))
        return np.squeeze(np.array([self.xa[k] * 0.5])), np.squeeze(np.array([self.xb[k]]))

    def getInterdiffusivity(self, x, T, removeCache=True, phase=None):
        return self.D


def make_binary_model(cfg, therm):
    from kawin.precipitation import PrecipitateModel, VolumeParameter
    phases = list(cfg.get('phases', ['B1']))
    m = PrecipitateModel(phases=phases, elements=['B'])
    cmin, cmax, nb, minb, maxb = cfg.get('bins', (1e-10, 1e-8, 75, 50, 100))
    m.setPBMParameters(cMin=cmin, cMax=cmax, bins=nb, minBins=minb, maxBins=maxb, adaptive=cfg.get('adaptive', True))
    m.setInitialComposition(cfg.get('x0', 2e-2))
    T = cfg.get('T', 700.0)
    with quiet():
        if isinstance(T, (list, tuple)):
            m.setTemperature(list(T[0]), list(T[1]))
        else:
            m.setTemperature(T)
    a = 0.4e-9
    m.setVolumeAlpha(a ** 3, VolumeParameter.ATOMIC_VOLUME, 4)
    gammas = cfg.get('gammas', [cfg.get('gamma', 0.15)] * len(phases))
    for i, p in enumerate(phases):
        m.setInterfacialEnergy(gammas[i], phase=p)
        m.setVolumeBeta(a ** 3 / cfg.get('vratio', 1.0), VolumeParameter.ATOMIC_VOLUME, 4, phase=p)
        m.setNucleationSite(cfg.get('site', 'dislocations'), phase=p)
        if cfg.get('shape', 'sphere') != 'sphere':
            m.setPrecipitateShape(cfg['shape'], phase=p, ratio=cfg.get('ar', 2.0))
        if cfg.get('strain', 0):
            from kawin.precipitation import StrainEnergy
            se = StrainEnergy()
            se.setConstantElasticEnergy(cfg['strain'])
            m.setStrainEnergy(se, phase=p)
        if 'rmin' in cfg:
            m.precipitateParameters[i].Rmin = cfg['rmin']
    if cfg.get('display_names'):
        # the name shown to the user differs from the phase name of the database / backend
        for i, pp in enumerate(m.precipitateParameters):
            pp.name = 'precipitate no. %d' % (i + 1)
    m.setNucleationDensity(grainSize=1, dislocationDensity=1e15)
    if cfg.get('constraints'):
        m.setConstraints(**cfg['constraints'])
    m.setThermodynamics(therm)
    return m


def gen_lk_case(rng):
    nb = int(rng.integers(2, 25))
    n = nb + 1
    pat = str(rng.choice(['prefix', 'none', 'scattered'], p=[0.7, 0.22, 0.08]))
    xa = np.sort(10 ** rng.uniform(-4, -1.3, n))
    xb = np.round(rng.uniform(0.2, 0.5, n), 6)
    k = 0
    if pat == 'prefix':
        k = int(rng.integers(1, n))          # at least one stable class
        xa[:k] = -1
        xb[:k] = -1
    elif pat == 'scattered':
        idx = rng.random(n) < 0.3
        idx[int(rng.integers(0, n))] = False
        xa[idx] = -1
        xb[idx] = -1
    vr = float(rng.choice([1.0, float(np.round(rng.uniform(0.8, 1.25), 4))]))
    stable = xa[xa != -1]
    x = float(stable[int(rng.integers(0, len(stable)))] * rng.uniform(0.7, 1.5)) if rng.random() < 0.8 else float(rng.uniform(1e-4, 0.05))
    return {'kind': 'lk', 'bins': nb, 'xa': fl(xa), 'xb': fl(xb), 'vratio': vr, 'x': x, 'pattern': pat, 'D': float(10 ** rng.uniform(-20, -15)),
            'shape': str(rng.choice(SHAPES)), 'ar': float(np.round(rng.uniform(1, 4), 3))}


def run_lk_impl(c):
    try:
        with quiet():
            m = make_binary_model({'bins': (1e-10, 1e-8, c['bins'], c['bins'], c['bins']), 'adaptive': False, 'vratio': c['vratio'],
                                   'shape': c['shape'], 'ar': c['ar'], 'x0': c['x']}, DiluteBinary())
            m.setup()
            m.therm = _Scripted(c['xa'], c['xb'], c['D'])
            m._createLookupBinary(700.0)
            rd = int(m.RdrivingForceIndex[0])
            A = np.array(m.PSDXalpha[0][:, 0], dtype=float)
            B = np.array(m.PSDXbeta[0][:, 0], dtype=float)
            Y = m.pData.copySlice(m.pData.n)
            Y.composition = np.array([[c['x']]])
            Y.temperature = np.array([700.0])
            out = {'err': None, 'rdfi': rd, 'A': fl(A), 'B': fl(B), 'vma': float(m.matrixParameters.volume.Vm), 'vmb': float(m.precipitateParameters[0].volume.Vm)}
            bounds = np.array(m.PBM[0].PSDbounds, dtype=float)
            out['R'] = fl(bounds)
            g = np.array(m._singleGrowthBinary(0, Y), dtype=float)
            out['growth'] = [float(v) for v in g]
            S = (c['x'] - A) / (out['vma'] * B / out['vmb'] - A)
            out['S'] = [float(v) for v in S]
            out['eps'] = fl(np.atleast_1d(m.matrixParameters.effectiveDiffusion(S)))
            out['kin'] = fl(np.atleast_1d(m.precipitateParameters[0].shapeFactor.kineticFactor(bounds)) * np.ones(len(bounds)))
            # what the table builder handed to the backend as Gibbs-Thomson energies of the class boundaries
            pp = m.precipitateParameters[0]
            out['g_seen'] = fl(m.therm.g_seen)
            out['f'] = fl(np.atleast_1d(pp.shapeFactor.thermoFactor(bounds)) * np.ones(len(bounds)))
            out['s'] = fl(np.atleast_1d(pp.computeStrainEnergyFromR(bounds)) * np.ones(len(bounds)))
            out['gamma'] = float(pp.gamma)
        return out
    except Exception as e:
        return {'err': type(e).__name__ + ': ' + str(e)}


def lk_term(c, im):
    return 'chk_lookup %s %s %s %s %s' % (qlist(c['xa']), qlist(c['xb']), qlist(im['A']), qlist(im['B']), natlit(im['rdfi']))


def bin_ok(im, x=None):
    """the growth routine is compared where the theorems speak: a table without sentinels, every
    supersaturation defined and below the tabulated end of the effective diffusion distance"""
    A, B, S, g = np.array(im['A']), np.array(im['B']), np.array(im['S']), np.array(im['growth'])
    return bool(np.all(A != -1) and np.all(np.isfinite(S)) and np.all(S < 0.95) and np.all(np.isfinite(g)) and np.all(np.array(im['eps']) > 0)
                and np.all(im['vma'] * B / im['vmb'] - A != 0))


def bin_term(x, D, im):
    return 'chk_bin %s %s %s %s %s %s %s %s %s %s %s %s' % (RT, natlit(im['rdfi']), qlit(x), qlit(im['vma']), qlit(im['vmb']), qlit(D),
                                                           qlist(im['kin']), qlist(im['eps']), qlist(im['R']), qlist(im['A']), qlist(im['B']), qlist(im['growth']))


def lk_oracle(c, im):
    """property text: the unstable classes are a prefix; afterwards no sentinel is left, classes above the
    index keep their compositions, and the growth of a class has the sign of x - x_alpha"""
    if im['err']:
        return [('lookup_fix', 'exception', 'raised ' + im['err'])]
    out = []
    if c['pattern'] != 'scattered':
        xa = np.array(c['xa'])
        k = int(np.sum(xa == -1))
        exp_idx = max(k - 1, 0)
        if im['rdfi'] != exp_idx:
            out.append(('lookup_fix', 'index', '%d unstable classes but RdrivingForceIndex = %d' % (k, im['rdfi'])))
        elif any(a == -1 for a in im['A']):
            out.append(('lookup_fix', 'sentinel left', 'a sentinel is left in the table'))
        elif im['A'][exp_idx + 1:] != c['xa'][exp_idx + 1:] or any(a != c['xa'][exp_idx + 1] for a in im['A'][:exp_idx + 1]):
            out.append(('lookup_fix', 'table', 'compositions above the index changed or the prefix is not the first stable one'))
        if not out and bin_ok(im):
            for j, (g, a) in enumerate(zip(im['growth'], im['A'])):
                den = im['vma'] * im['B'][j] / im['vmb'] - a
                if den > 0 and abs(c['x'] - a) > 1e-12 * (abs(a) + c['x']) and ((g > 0) != (c['x'] > a) or g == 0):
                    out.append(('growth_sign_binary', 'sign', 'class %d: growth %r with x = %r, x_alpha = %r' % (j, g, c['x'], a)))
                    break
    return out


# ==========================================================================================
# (d) runs: trace oracle at every step, trace refinement at sampled steps
def run_config(cfg):
    """returns (model, list of step records).  cfg['backend']: dilute | regular | ternary | alzr | nicral"""
    from kawin.precipitation import PrecipitateModel, VolumeParameter, StrainEnergy
    from kawin.solver.Iterators import ExplicitEulerIterator, RK4Iterator
    be = cfg['backend']
    log = None
    if be in ('dilute', 'regular'):
        therm = (DiluteBinary if be == 'dilute' else RegularBinary)(cfg.get('phases', ['B1']), off=cfg.get('off', 1.0))
        m = make_binary_model(cfg, therm)
        off = therm.gOffset
    elif be == 'ternary':
        # one or several precipitate phases; every per-phase parameter (interfacial energy, molar volume, shape, strain
        # energy, Rmin) may differ between the phases: 'gammas', 'vratios', 'shapes', 'strains' are lists over the phases
        phs = list(cfg.get('phases', ['B1']))
        therm = StubTernary(phs)
        log = therm
        m = PrecipitateModel(phases=phs, elements=['B', 'C'])
        m.setPBMParameters(cMin=1e-10, cMax=1e-8, bins=60, minBins=40, maxBins=80)
        m.setInitialComposition(cfg.get('x0', [0.012, 0.008]))
        with quiet():
            m.setTemperature(cfg.get('T', 700.0))
        a = 0.4e-9
        m.setVolumeAlpha(a ** 3, VolumeParameter.ATOMIC_VOLUME, 4)
        m.setNucleationDensity(bulkN0=1e28)
        for i, ph in enumerate(phs):
            m.setInterfacialEnergy(cfg.get('gammas', [cfg.get('gamma', 0.12)] * len(phs))[i], phase=ph)
            m.setVolumeBeta(a ** 3 / cfg.get('vratios', [cfg.get('vratio', 1.0)] * len(phs))[i], VolumeParameter.ATOMIC_VOLUME, 4, phase=ph)
            m.setNucleationSite(cfg.get('site', 'bulk'), phase=ph)
            shape, ar = cfg.get('shapes', [(cfg.get('shape', 'sphere'), cfg.get('ar', 2.0))] * len(phs))[i]
            if shape != 'sphere':
                m.setPrecipitateShape(shape, phase=ph, ratio=ar)
            strain = cfg.get('strains', [cfg.get('strain', 0)] * len(phs))[i]
            if strain:
                se = StrainEnergy()
                se.setConstantElasticEnergy(strain)
                m.setStrainEnergy(se, phase=ph)
            if 'rmin' in cfg:
                m.precipitateParameters[i].Rmin = cfg['rmin']
        m.setThermodynamics(therm)
        off = 0.0
    elif be == 'alzr':
        from kawin.thermo import BinaryThermodynamics
        from kawin.tests.datasets import ALZR_TDB
        with quiet():
            therm = BinaryThermodynamics(ALZR_TDB, ['AL', 'ZR'], ['FCC_A1', 'AL3ZR'], drivingForceMethod=cfg.get('method', 'tangent'))
            therm.setDiffusivity(lambda T: 0.0768 * np.exp(-242000 / (8.314 * T)), 'FCC_A1')
            m = PrecipitateModel(phases=['AL3ZR'], elements=['ZR'])
            m.setPBMParameters(cMin=1e-10, cMax=1e-8, bins=75, minBins=50, maxBins=100)
            m.setInitialComposition(cfg.get('x0', 4e-3))
            T = cfg.get('T', 723.15)
            if isinstance(T, (list, tuple)):
                m.setTemperature(list(T[0]), list(T[1]))
            else:
                m.setTemperature(T)
            if cfg.get('constraints'):
                m.setConstraints(**cfg['constraints'])
            m.setInterfacialEnergy(cfg.get('gamma', 0.1))
            a = 0.405e-9
            m.setVolumeAlpha(a ** 3, VolumeParameter.ATOMIC_VOLUME, 4)
            m.setVolumeBeta(a ** 3, VolumeParameter.ATOMIC_VOLUME, 4)
            m.setNucleationDensity(grainSize=1, dislocationDensity=1e15)
            m.setNucleationSite('dislocations')
            if cfg.get('strain', 0):
                se = StrainEnergy()
                se.setConstantElasticEnergy(cfg['strain'])
                m.setStrainEnergy(se)
            m.setThermodynamics(therm)
        off = float(therm.gOffset)
    elif be == 'nicral':
        from kawin.thermo import MulticomponentThermodynamics
        from kawin.tests.datasets import NICRAL_TDB
        with quiet():
            inner = MulticomponentThermodynamics(NICRAL_TDB, ['NI', 'AL', 'CR'], ['FCC_A1', 'FCC_L12'], drivingForceMethod='tangent')
            therm = MultiLog(inner)
            log = therm
            m = PrecipitateModel(elements=['Al', 'Cr'], phases=['FCC_L12'])
            m.setPBMParameters(cMin=1e-10, cMax=1e-8, bins=75, minBins=50, maxBins=100)
            m.setInitialComposition(cfg.get('x0', [0.098, 0.083]))
            m.setInterfacialEnergy(cfg.get('gamma', 0.023))
            m.setTemperature(cfg.get('T', 1073))
            a = 0.352e-9
            m.setVolumeAlpha(a ** 3, VolumeParameter.ATOMIC_VOLUME, 4)
            m.setVolumeBeta(a ** 3, VolumeParameter.ATOMIC_VOLUME, 4)
            m.setNucleationSite('bulk')
            m.setNucleationDensity(bulkN0=1e30)
            if cfg.get('strain', 0):
                se = StrainEnergy()
                se.setConstantElasticEnergy(cfg['strain'])
                m.setStrainEnergy(se)
            m.setThermodynamics(therm)
        off = 0.0
    else:
        raise ValueError(be)
    steps = []
    maxsteps = cfg.get('maxsteps', 4000)
    binary = m.numberOfElements == 1

    class Obs:
        def updateCoupledModel(self, mm):
            n = mm.pData.n
            rec = {'n': int(n), 'T': float(mm.pData.temperature[n]), 'x': fl(mm.pData.composition[n]), 'phases': []}
            for p in range(len(mm.phases)):
                pp = mm.precipitateParameters[p]
                d = {'Rc': float(mm.pData.Rcrit[n, p]), 'dGv': float(mm.pData.drivingForce[n, p]),
                     'growth': np.array(mm.growth[p], dtype=float).copy(), 'R': np.array(mm.PBM[p].PSDbounds, dtype=float).copy(),
                     'rdfi': int(mm.RdrivingForceIndex[p]) if binary else -1, 'vmb': float(pp.volume.Vm), 'rmin': float(pp.Rmin),
                     'psd': np.array(mm.PBM[p].PSD, dtype=float).copy(),
                     # temperature the binary lookup table in use was computed at, relative to the current temperature
                     'lag': (float(mm.pData.temperature[n] - mm._lookupTemp) if getattr(mm, '_lookupTemp', None) is not None
                             else float(getattr(mm, 'dTemp', 0.0))) if binary else 0.0,
                     'maxTC': float(mm.constraints.maxTempChange)}
                if binary:
                    d['A'] = np.array(mm.PSDXalpha[p][:, 0], dtype=float).copy()
                    d['B'] = np.array(mm.PSDXbeta[p][:, 0], dtype=float).copy()
                elif log is not None and log.calls:
                    c = [q for q in log.calls if q['phase'] == pp.phase]
                    d['call'] = c[-1] if c else None
                rec['phases'].append(d)
            if log is not None:
                del log.calls[:]
            steps.append(rec)
            if len(steps) >= maxsteps:
                raise _Stop()
    m.addCouplingModel(Obs())
    it = ExplicitEulerIterator if cfg.get('iterator', 'euler') == 'euler' else RK4Iterator
    try:
        with quiet():
            m.solve(cfg.get('tf', 1e3), solverType=it, verbose=False)
    except _Stop:
        pass
    return m, steps, off


class _Stop(Exception):
    pass


def trace_oracle(m, rec, off):
    """property text on one recorded state.  Returns list of (clause, site, cls, message)."""
    out = []
    binary = m.numberOfElements == 1
    site = SITE_GB if binary else SITE_GM
    clause = 'growth_sign_binary' if binary else 'growth_sign_multi'
    for p, d in enumerate(rec['phases']):
        g, R = d['growth'], d['R']
        if len(g) != len(R):
            out.append((clause, site, 'shape', 'growth has %d entries for %d class boundaries' % (len(g), len(R))))
            continue
        valid = np.isfinite(g)
        if binary:
            # classes up to RdrivingForceIndex hold no particles and carry a copied composition: outside
            # "the range in which the precipitate is stable"; a zeroed table means no stable class at all
            valid &= np.arange(len(R)) > d['rdfi']
            if not np.any(d['A'] != 0) or np.any(d['A'][d['rdfi'] + 1:] == -1):
                continue
            if 0 < abs(d['lag']) <= d['maxTC']:
                continue            # table computed within maxTempChange of the current temperature: the lag the user allowed
                                    # (C13); a table further away than that is NOT exempt - it is what makes Rcrit and the
                                    # growth sign disagree after a temperature change
        stale = ''
        if binary and abs(d['lag']) > d['maxTC']:
            stale = ', lookup table of another temperature'
        note = (' [interfacial compositions tabulated %g K away from the current temperature %g K, maxTempChange %g]' % (d['lag'], rec['T'], d['maxTC'])) if stale else ''
        if d['dGv'] > 0 and d['Rc'] > 0:
            band = 2 * off / (d['vmb'] * d['dGv']) + 1e-6
            rel = (R - d['Rc']) / d['Rc']
            above = valid & (rel > band)
            below = valid & (rel < -band)
            bad = np.where(above & ~(g > 0))[0]
            if len(bad):
                k = int(bad[0])
                out.append((clause, site, 'above Rcrit shrinks' + stale, 'step %d phase %d: class boundary R = %r above Rcrit = %r has growth rate %r (dG_v %r)' % (rec['n'], p, float(R[k]), d['Rc'], float(g[k]), d['dGv']) + note))
            clamped = d['Rc'] <= d['rmin'] * (1 + 1e-12)
            bad = np.where(below & ~(g < 0))[0]
            if len(bad) and not clamped:
                k = int(bad[-1])
                out.append((clause, site, 'below Rcrit grows' + stale, 'step %d phase %d: class boundary R = %r below Rcrit = %r has growth rate %r (dG_v %r)' % (rec['n'], p, float(R[k]), d['Rc'], float(g[k]), d['dGv']) + note))
        elif d['dGv'] < 0:
            bad = np.where(valid & (g > 0))[0]
            if len(bad):
                k = int(bad[0])
                out.append((clause, site, 'grows without driving force' + stale, 'step %d phase %d: driving force %r < 0 but class boundary R = %r grows at %r' % (rec['n'], p, d['dGv'], float(R[k]), float(g[k])) + note))
    return out


def class_subset(R, Rc, full):
    """size classes shipped to Coq for one recorded step: all of them (thorough) or every fourth one plus the eight
    around the critical radius (quick; every class is computed independently of the others, parsing the exact
    literals dominates the cost)"""
    n = len(R)
    if full or n <= 24:
        return list(range(n))
    k = int(np.searchsorted(R, Rc)) if Rc > 0 else 0
    return sorted(set(range(0, n, 4)) | set(i for i in range(k - 4, k + 4) if 0 <= i < n) | {n - 1})


def trace_terms(m, rec, therm_off, full=True):
    """Coq terms that recompute the recorded growth from what kawin used (one per phase)"""
    terms = []
    binary = m.numberOfElements == 1
    for p, d in enumerate(rec['phases']):
        pp = m.precipitateParameters[p]
        R = d['R']
        with quiet():
            kin = np.atleast_1d(pp.shapeFactor.kineticFactor(R)) * np.ones(len(R))
        if binary:
            if d['rdfi'] + 1 >= len(R) or len(d['A']) != len(R):
                continue
            x = rec['x'][0]
            vma, vmb = float(m.matrixParameters.volume.Vm), d['vmb']
            with quiet():
                S = (x - d['A']) / (vma * d['B'] / vmb - d['A'])
                eps = np.atleast_1d(m.matrixParameters.effectiveDiffusion(S))
                D = float(np.squeeze(m.therm.getInterdiffusivity(x, rec['T'], removeCache=False)))
            im = {'A': fl(d['A']), 'B': fl(d['B']), 'S': fl(S), 'growth': fl(d['growth']), 'eps': fl(eps), 'vma': vma, 'vmb': vmb, 'rdfi': d['rdfi'],
                  'kin': fl(kin), 'R': fl(R)}
            if not bin_ok(im):
                continue
            sel = class_subset(R, d['Rc'], full)
            for k in ('A', 'B', 'S', 'growth', 'eps', 'kin', 'R'):
                im[k] = [im[k][i] for i in sel]
            im['rdfi'] = 0            # the guard RdrivingForceIndex + 1 < len was checked above on the full table
            terms.append(('bin', p, bin_term(x, D, im)))
        else:
            c = d.get('call')
            if not c or len(c['R']) != len(R) or not np.array_equal(c['R'], R) or not np.all(np.isfinite(d['growth'])):
                continue
            with quiet():
                f = np.atleast_1d(pp.shapeFactor.thermoFactor(R)) * np.ones(len(R))
                s = np.atleast_1d(pp.computeStrainEnergyFromR(R)) * np.ones(len(R))
                ar = pp.shapeFactor.aspectRatio(d['Rc'])
                ns = float(np.squeeze(pp.strainEnergy.compute(pp.shapeFactor.description.normalRadii(ar))))
            sel = class_subset(R, d['Rc'], full)
            sub = lambda a: [float(np.ravel(a)[i]) for i in sel]
            terms.append(('multi', p, 'chk_multi %s %s %s %s %s %s %s %s %s %s %s %s %s' % (
                RT, qlit(c['mc']), qlit(d['vmb']), qlit(pp.gamma), qlit(d['dGv']), qlit(ns), qlit(c['dG']),
                qlist(sub(kin)), qlist(sub(R)), qlist(sub(f)), qlist(sub(s)), qlist(sub(c['gExtra'])), qlist(sub(d['growth'])))))
    return terms


def quick_configs():
    return [
        {'name': 'dilute-isothermal', 'backend': 'dilute', 'off': 1.0, 'tf': 40.0, 'maxsteps': 1500},
        {'name': 'regular-strain-needle', 'backend': 'regular', 'off': 0.0, 'strain': 3e7, 'shape': 'needle', 'ar': 2.0, 'vratio': 0.95, 'tf': 40.0, 'maxsteps': 1200},
        {'name': 'dilute-ramp', 'backend': 'dilute', 'off': 1.0, 'T': ([0, 0.004, 0.02, 1], [700, 700, 760, 760]), 'constraints': {'maxTempChange': 0.0}, 'tf': 80.0, 'maxsteps': 1500},
        # non-isothermal binary runs: quench, hold after the jump, heating followed by cooling; maxTempChange = 0 makes the
        # table follow every temperature change (no allowed lag), the default (1 K) exempts only tables within 1 K
        {'name': 'dilute-quench', 'backend': 'dilute', 'off': 1.0, 'T': ([0, 0.004, 0.0045, 1], [760, 760, 700, 700]), 'constraints': {'maxTempChange': 0.0}, 'tf': 60.0, 'maxsteps': 1500},
        {'name': 'dilute-quench-default-lag', 'backend': 'dilute', 'off': 1.0, 'T': ([0, 0.003, 0.0032, 1], [750, 750, 690, 690]), 'tf': 50.0, 'maxsteps': 1200},
        {'name': 'regular-heat-cool', 'backend': 'regular', 'off': 0.0, 'T': ([0, 0.002, 0.006, 0.012, 1], [700, 700, 740, 690, 690]), 'constraints': {'maxTempChange': 0.0}, 'tf': 70.0, 'maxsteps': 1500},
        {'name': 'alzr-quench', 'backend': 'alzr', 'T': ([0, 0.02 / 3600, 0.021 / 3600, 1], [773.15, 773.15, 673.15, 673.15]), 'constraints': {'maxTempChange': 0.0}, 'tf': 0.1, 'maxsteps': 400},
        {'name': 'alzr-heat-hold', 'backend': 'alzr', 'T': ([0, 1.0 / 3600, 9.0 / 3600, 1], [715.15, 715.15, 723.15, 723.15]), 'constraints': {'maxTempChange': 0.0}, 'tf': 20.0, 'maxsteps': 400},
        # the same two-phase run with display names different from the phase names: must be the same run (twin_of)
        {'name': 'dilute-two-phases', 'backend': 'dilute', 'off': 1.0, 'phases': ['B1', 'B3'], 'gammas': [0.15, 0.16], 'tf': 20.0, 'maxsteps': 500},
        {'name': 'dilute-two-phases-display-names', 'backend': 'dilute', 'off': 1.0, 'phases': ['B1', 'B3'], 'gammas': [0.15, 0.16], 'tf': 20.0, 'maxsteps': 500,
         'display_names': True, 'twin_of': 'dilute-two-phases'},
        {'name': 'dilute-two-phases-rk4', 'backend': 'dilute', 'off': 1.0, 'phases': ['B1', 'B3'], 'gammas': [0.15, 0.16], 'iterator': 'rk4', 'tf': 5.0, 'maxsteps': 500},
        {'name': 'ternary', 'backend': 'ternary', 'tf': 2e3, 'maxsteps': 1200},
        # several precipitate phases on the multicomponent path, each with its own interfacial energy, molar volume, shape and strain
        {'name': 'ternary-two-phases', 'backend': 'ternary', 'phases': ['B1', 'B2'], 'gammas': [0.14, 0.09], 'vratios': [1.0, 0.9],
         'shapes': [('sphere', 1.0), ('needle', 2.0)], 'strains': [0, 2e7], 'tf': 1e3, 'maxsteps': 900},
        {'name': 'ternary-strain-plate', 'backend': 'ternary', 'strain': 4e7, 'shape': 'plate', 'ar': 3.0, 'tf': 2e3, 'maxsteps': 1200},
        {'name': 'alzr', 'backend': 'alzr', 'tf': 300.0, 'maxsteps': 600},
        {'name': 'nicral', 'backend': 'nicral', 'tf': 2.0, 'maxsteps': 150},
    ]


def random_config(rng, k):
    be = str(rng.choice(['dilute', 'regular', 'ternary'], p=[0.4, 0.3, 0.3]))
    cfg = {'name': 'random-%d' % k, 'backend': be, 'off': float(rng.choice([0.0, 1.0, 5.0])), 'gamma': float(np.round(rng.uniform(0.1, 0.18), 3)),
           'vratio': float(rng.choice([1.0, 0.95, 1.05])), 'maxsteps': 1500}
    if rng.random() < 0.5:
        cfg['strain'] = float(np.round(10 ** rng.uniform(6.5, 7.7), -4))
    if rng.random() < 0.5:
        cfg['shape'] = str(rng.choice(['needle', 'plate', 'cubic']))
        cfg['ar'] = float(np.round(rng.uniform(1.2, 4), 2))
    if rng.random() < 0.3:
        cfg['rmin'] = float(rng.choice([3e-10, 8e-10, 2e-9]))
    if be == 'ternary':
        if rng.random() < 0.4:
            cfg['phases'] = ['B1', 'B2']
            cfg['gammas'] = [float(np.round(rng.uniform(0.08, 0.16), 3)) for _ in range(2)]
            cfg['vratios'] = [1.0, float(rng.choice([0.9, 1.0, 1.1]))]
        cfg['tf'] = float(10 ** rng.uniform(2, 3.5))
        cfg['x0'] = [float(np.round(rng.uniform(0.008, 0.015), 4)), float(np.round(rng.uniform(0.006, 0.01), 4))]
    else:
        cfg['tf'] = float(10 ** rng.uniform(1, 2.5))
        cfg['x0'] = float(np.round(rng.uniform(0.01, 0.03), 4))
        if rng.random() < 0.3:
            T1 = float(rng.choice([650, 760, 800]))
            cfg['T'] = ([0, 0.002, 0.02, 1], [700, 700, T1, T1])
            cfg['constraints'] = {'maxTempChange': 0.0}
        if rng.random() < 0.25:
            cfg['iterator'] = 'rk4'
            cfg['tf'] = min(cfg['tf'], 5.0)
    return cfg


# ==========================================================================================
# (e) backend sampling (pycalphad): the premises of the binary theorems and the remaining clauses
_DBS = {}
REF = {'Al-Zr': ('alzr', ['AL', 'ZR', 'VA'], 'FCC_A1', 'AL3ZR', ['ZR']),
       'Al-Mg': ('almgsi', ['AL', 'MG', 'VA'], 'FCC_A1', 'BETA_AL3MG2', ['MG']),
       'Al-Mg-Si': ('almgsi', ['AL', 'MG', 'SI', 'VA'], 'FCC_A1', None, ['MG', 'SI'])}


def ref_dg(system, x, T, prec=None):
    """driving force of a STOICHIOMETRIC precipitate straight from the property text, with pycalphad alone (plain database
    models, nothing of kawin): distance per mole of atoms between the tangent plane of the matrix at composition x and the
    molar Gibbs energy of the compound,  sum_i x_i^beta mu_i(x, T) - GM_beta(T)"""
    from pycalphad import Database, equilibrium, calculate, variables as v
    from kawin.tests.datasets import ALZR_TDB, ALMGSI_DB
    src, comps, matrix, p0, solutes = REF[system]
    prec = prec or p0
    if src not in _DBS:
        _DBS[src] = Database({'alzr': ALZR_TDB, 'almgsi': ALMGSI_DB}[src])
    db = _DBS[src]
    cond = {v.T: float(T), v.P: 101325, v.N: 1}
    cond.update({v.X(e): float(xe) for e, xe in zip(solutes, np.atleast_1d(x))})
    with quiet():
        eq = equilibrium(db, comps, [matrix], cond)
        pts = calculate(db, comps, prec, T=float(T), P=101325, output='GM')
    mu = np.squeeze(eq.MU.values)
    els = [str(c) for c in eq.component.values]
    X = np.atleast_2d(np.squeeze(pts.X.values))
    GM = np.atleast_1d(np.squeeze(pts.GM.values))
    if len(GM) != 1 or not np.all(np.isfinite(mu)):
        return None
    pc = [str(c) for c in pts.component.values]
    return float(np.sum(X[0] * np.array([mu[els.index(c)] for c in pc])) - GM[0])


def sample_backend_multi(ctx, quick, plan=None):
    """Al-Mg-Si (five stoichiometric precipitates with 2.8 ... 19 atoms per formula unit): the four driving-force methods on
    one long-lived MulticomponentThermodynamics object each, over a temperature sequence, against each other and against
    the pycalphad-only reference"""
    rng = ctx.rng if plan is None else np.random.Generator(np.random.PCG64(0))
    hits = []
    objs = {meth: make_therm('almgsi', meth) for meth in ('tangent', 'approximate', 'sampling', 'curvature')}
    off = float(objs['tangent'].gOffset)
    nT = 2 if quick else 6
    Ts = [float(np.round(400 + (i + rng.uniform(0.1, 0.9)) * 150 / nT, 1)) for i in rng.permutation(nT)]
    stats = {'methods': 0, 'reference': 0}
    history = []
    if plan is not None:
        Ts = [float(t) for t in plan['Ts']]
    for T in Ts:
        history.append(T)
        comps = [[float(np.round(rng.uniform(0.004, 0.01), 5)), float(np.round(rng.uniform(0.003, 0.008), 5))],
                 [float(np.round(rng.uniform(5e-5, 3e-4), 6)), float(np.round(rng.uniform(5e-5, 2e-4), 6))]]
        if plan is not None:
            comps = [plan['x']]
        for x in comps:
            for ph in ([plan['phase']] if plan is not None else ALMGSI_PHASES[1:] if not quick else [ALMGSI_PHASES[1 + int(k)] for k in rng.choice(5, 3, replace=False)]):
                case = {'system': 'Al-Mg-Si', 'phase': ph, 'x': x, 'T': T, 'temperatures_queried_on_the_same_objects': list(history)}
                vals = {}
                for meth, th in objs.items():
                    with quiet():
                        d, _ = th.getDrivingForce(x, T, precPhase=ph)
                    vals[meth] = None if d is None or np.ndim(d) > 0 else float(d)
                ok = vals['tangent'] is not None and np.isfinite(vals['tangent'])
                ctx.count(case, ok)
                ctx.hist('backend', 'Al-Mg-Si')
                if not ok:
                    continue
                dd = vals['tangent']
                with quiet():
                    ref = ref_dg('Al-Mg-Si', x, T, ph)
                stats['reference'] += 1
                if ref is not None and abs(dd - ref) > 0.05 + 1e-6 * abs(ref):
                    hits.append(('dg_reference', SITE_TH, 'tangent', dict(case, tangent=dd, reference=ref),
                                 'Al-Mg-Si %s x=%r T=%g: tangent driving force %r, tangent-plane distance to the compound (pycalphad alone) %r (ratio %.4g)' % (ph, x, T, dd, ref, dd / ref if ref else float('nan'))))
                for meth in ('approximate', 'sampling', 'curvature'):
                    v2 = vals[meth]
                    stats['methods'] += 1
                    if v2 is None or not np.isfinite(v2):
                        continue
                    if abs(dd) > 5 * off + 5 and np.sign(v2) != np.sign(dd):
                        hits.append(('methods_agree', SITE_TH, 'sign ' + meth, dict(case, tangent=dd, other=v2),
                                     'Al-Mg-Si %s x=%r T=%g (temperatures so far %r): tangent %r, %s %r' % (ph, x, T, history, dd, meth, v2)))
                    if meth != 'curvature' and abs(v2 - dd) > 2 * off + 1e-3 * abs(dd):
                        hits.append(('methods_agree', SITE_TH, 'value ' + meth, dict(case, tangent=dd, other=v2),
                                     'Al-Mg-Si %s x=%r T=%g (temperatures so far %r): tangent %r, %s %r (offset %g; stoichiometric precipitate)' % (ph, x, T, history, dd, meth, v2, off)))
    ctx.notes['backend_sampling_multi'] = stats
    return hits


SITE_IC = 'BinTherm.getInterfacialComposition'
SITE_DF = 'Thermodynamics.getDrivingForce'


def _relclose(a, b, rtol=1e-6, atol=1e-12):
    a, b = np.atleast_1d(np.array(a, dtype=float)), np.atleast_1d(np.array(b, dtype=float))
    return a.shape == b.shape and bool(np.all(np.abs(a - b) <= rtol * np.maximum(np.abs(a), np.abs(b)) + atol))


def sample_conventions(ctx, quick, plan=None):
    """The public thermodynamic entry points of the property, called the different ways their documentation allows, on long-lived
    objects; every answer is compared with the plain scalar call for the same (T, g) / (x, T) and with the property text
    (driving force at the returned composition = g to the offset, at the REQUESTED temperature).
      conventions: Python / numpy scalar, 0-d array, list, tuple, int and float 1-d arrays; temperature as scalar, as array of
                   equal entries, of well separated entries, of entries within 0.1 % of each other; precPhase omitted / keyword /
                   positional; argument arrays unchanged afterwards and re-used for the next call (same answer again)
      histories:   call, then a setter / cache operation / calls at other temperatures, then the same call again - against a
                   fresh object in the final configuration
      interleaved: two differently configured objects used alternately - each against itself alone"""
    rng = ctx.rng if plan is None else np.random.Generator(np.random.PCG64(0))
    hits = []
    stats = {'ic_calls': 0, 'df_calls': 0, 'histories': 0, 'interleaved': 0}
    for key, gmax, (Tlo, Thi) in ([('alzr', 12000., (600., 850.)), ('almg', 350., (430., 520.))] if plan is None else [plan['sys']]):
        th = make_therm(key)
        off = float(th.gOffset)
        ph = th.phases[1]
        T0 = float(np.round(rng.uniform(Tlo, Thi), 2)) if plan is None else plan['T0']
        gs = np.sort(np.round(rng.uniform(0.05, 1, 4) * gmax, 1)) if plan is None else np.array(plan['g'], dtype=float)
        case = {'sys': [key, gmax, [Tlo, Thi]], 'T0': T0, 'g': fl(gs)}
        ctx.count({'conventions': case}, True)
        ctx.hist('backend', 'conventions:' + key)

        def ic(T, g, *a, **k):
            stats['ic_calls'] += 1
            with quiet():
                xa, xb = th.getInterfacialComposition(T, g, *a, **k)
            return np.atleast_1d(np.array(xa, dtype=float)), np.atleast_1d(np.array(xb, dtype=float))

        def df(obj, x, T, *a, **k):
            stats['df_calls'] += 1
            with quiet():
                d, xb = obj.getDrivingForce(x, T, *a, **k)
            return np.atleast_1d(np.array(d, dtype=float))

        def report(site, cls, what, msg):
            hits.append(('calling_convention', site, cls, dict(case, what=what), '%s %s: %s' % (key, what, msg)))

        # reference: one plain scalar call per (T, g)
        def ref(T, g):
            a, b = ic(float(T), float(g))
            return float(a[0]), float(b[0])
        # ---- interfacial composition: ways of passing g at one scalar temperature
        ref0 = np.array([ref(T0, g)[0] for g in gs])
        forms = [('list', [float(g) for g in gs]), ('tuple', tuple(float(g) for g in gs)), ('float64 array', np.array(gs, dtype=np.float64)),
                 ('float32-exact int array', np.array(np.round(gs), dtype=np.int64))]
        for nm, arg in forms:
            exp = ref0 if 'int' not in nm else np.array([ref(T0, float(g))[0] for g in np.round(gs)])
            keep = np.array(arg).copy() if isinstance(arg, np.ndarray) else None
            a1, _ = ic(T0, arg)
            if not _relclose(a1, exp):
                report(SITE_IC, 'array vs scalar call', 'g as ' + nm, 'T=%g g=%r: %r, scalar calls give %r' % (T0, fl(gs), fl(a1), fl(exp)))
            if keep is not None and not np.array_equal(keep, arg):
                report(SITE_IC, 'argument modified', 'g as ' + nm, 'T=%g: the caller\'s g array %r was changed to %r by the call' % (T0, fl(keep), fl(arg)))
            a2, _ = ic(T0, arg, precPhase=ph)                         # the same argument object again, precPhase as keyword
            a3, _ = ic(T0, arg, ph)                                   # ... and positional
            if not (_relclose(a2, a1) and _relclose(a3, a1)):
                report(SITE_IC, 'repeat call differs', 'g as ' + nm + ', same argument object re-used',
                       'T=%g g=%r: first call %r, second %r, third %r' % (T0, fl(gs), fl(a1), fl(a2), fl(a3)))
        for nm, Tt, gg in [('numpy scalars', np.float64(T0), np.float64(gs[1])), ('0-d arrays', np.array(T0), np.array(gs[1])), ('int T', int(round(T0)), float(gs[1]))]:
            tv, gv = float(Tt), float(gg)
            exp = ref(tv, gv)[0]
            a1, _ = ic(Tt, gg)
            if not _relclose(a1, [exp]):
                report(SITE_IC, 'array vs scalar call', nm, 'T=%r g=%r: %r, plain scalar call %r' % (tv, gv, fl(a1), exp))
            if float(Tt) != tv or float(gg) != gv:
                report(SITE_IC, 'argument modified', nm, 'T=%r g=%r: the argument objects hold %r, %r after the call' % (tv, gv, float(Tt), float(gg)))
        # ---- (T array, g array): equal temperatures, well separated, and close together (within 0.1 % of the first)
        for nm, Ts in [('equal temperatures', np.full(4, T0)), ('separated temperatures', T0 + np.array([0., 12., 25., -14.])),
                       ('temperatures within 0.1 %', T0 + np.array([0., 0.15, 0.4, 0.6])), ('temperatures within 0.01 %', T0 + np.array([0., 0.02, 0.05, -0.04]))]:
            Tk, gk = Ts.copy(), np.array(gs, dtype=float)
            a1, b1 = ic(Ts, gk)
            exp = np.array([ref(t, g)[0] for t, g in zip(Ts, gs)])
            if not _relclose(a1, exp):
                k = int(np.argmax(np.abs(a1 - exp) / np.maximum(np.abs(exp), 1e-300)))
                report(SITE_IC, 'array vs scalar call', 'T array with ' + nm, 'T=%r g=%r: entry %d is %r, the scalar call at T=%r g=%r gives %r' % (fl(Ts), fl(gs), k, float(a1[k]), float(Ts[k]), float(gs[k]), float(exp[k])))
            if not (np.array_equal(Tk, Ts) and np.array_equal(gk, np.array(gs, dtype=float))):
                report(SITE_IC, 'argument modified', 'T array with ' + nm, 'an argument array was changed by the call')
            # property text at the REQUESTED temperatures: driving force at the returned composition = g (to the offset)
            okm = a1 != -1
            if np.any(okm):
                d = df(th, a1[okm], Ts[okm])
                dev = d - gs[okm]
                if np.any((dev < -0.05) | (dev > off + 0.05)):
                    k = int(np.argmax((dev < -0.05) | (dev > off + 0.05)))
                    hits.append(('backend_consistency', SITE_IC, 'driving force at x_alpha(g), T array', dict(case, what='T array with ' + nm),
                                 '%s T=%r g=%r: composition returned for T=%r g=%r is %r, the driving force there (at that T) is %r (offset %g)' % (
                                     key, fl(Ts), fl(gs), float(Ts[okm][k]), float(gs[okm][k]), float(a1[okm][k]), float(d[k]), off)))
        # ---- the same g array through a temperature loop (table building): array unchanged, answers = scalar calls
        garr = np.array(gs, dtype=np.float64)
        for t in T0 + np.array([0., 7., 15., 0.]):
            a1, _ = ic(float(t), garr)
            exp = np.array([ref(t, g)[0] for g in gs])
            if not _relclose(a1, exp) or not np.array_equal(garr, gs):
                report(SITE_IC, 'repeat call differs', 'one g array re-used over a temperature loop',
                       'T=%g: %r, scalar calls %r; the array now holds %r (was %r)' % (t, fl(a1), fl(exp), fl(garr), fl(gs)))
                break
        # ---- driving force: conventions
        xs = ref0[ref0 > 0] * 1.5
        if len(xs) >= 2:
            exp = np.array([df(th, float(x), float(T0))[0] for x in xs])
            for nm, xa_, Ta_ in [('lists', [float(x) for x in xs], [float(T0)] * len(xs)), ('arrays', np.array(xs), np.full(len(xs), T0)),
                                 ('x array, scalar T', np.array(xs), T0), ('x array, int T', np.array(xs), None)]:
                if Ta_ is None:
                    Ta_ = int(round(T0))
                    e2 = np.array([df(th, float(x), float(Ta_))[0] for x in xs])
                else:
                    e2 = exp
                kx = np.array(xa_).copy() if isinstance(xa_, np.ndarray) else None
                d1 = df(th, xa_, Ta_)
                d2 = df(th, xa_, Ta_, precPhase=ph)
                d3 = df(th, xa_, Ta_, ph, False)
                if not (_relclose(d1, e2, 1e-6, 1e-4) and _relclose(d2, e2, 1e-6, 1e-4) and _relclose(d3, e2, 1e-6, 1e-4)):
                    report(SITE_DF, 'array vs scalar call', nm, 'x=%r T=%r: %r / %r / %r, scalar calls %r' % (fl(xs), Ta_ if np.ndim(Ta_) == 0 else fl(Ta_), fl(d1), fl(d2), fl(d3), fl(e2)))
                if kx is not None and not np.array_equal(kx, xa_):
                    report(SITE_DF, 'argument modified', nm, 'the caller\'s x array was changed by the call')
        # ---- histories on ONE object against a fresh object in the final configuration
        for meth in ('tangent', 'sampling') if quick else ('tangent', 'approximate', 'sampling', 'curvature'):
            stats['histories'] += 1
            old_ = make_therm(key, 'curvature' if meth != 'curvature' else 'tangent')
            xq = float(ref0[0] * 2) if ref0[0] > 0 else 1e-3
            df(old_, xq, T0 + 40.)                                    # calls in the first configuration, other temperature
            ich = old_.getInterfacialComposition(T0 + 40., float(gs[0]))
            with quiet():
                old_.setDrivingForceMethod(meth)                       # setter between the calls
            d_hist = df(old_, [xq, xq * 0.2], [T0, T0])
            with quiet():
                ia_h, _ = old_.getInterfacialComposition(T0, np.array(gs))
            fresh = make_therm(key, meth)
            d_fresh = df(fresh, [xq, xq * 0.2], [T0, T0])
            with quiet():
                ia_f, _ = fresh.getInterfacialComposition(T0, np.array(gs))
            if not _relclose(d_hist, d_fresh, 1e-6, 1e-3) or not _relclose(ia_h, ia_f):
                hits.append(('calling_convention', SITE_DF, 'history on one object', dict(case, what='calls at T0+40, setDrivingForceMethod(%s), calls at T0' % meth),
                             '%s: after calls at %g K and setDrivingForceMethod(%r): driving force %r, interfacial composition %r; a fresh object gives %r, %r' % (
                                 key, T0 + 40., meth, fl(d_hist), fl(ia_h), fl(d_fresh), fl(ia_f))))
    # ---- two differently configured objects alive at the same time, used alternately
    if plan is None:
        A, B = make_therm('alzr', 'sampling'), make_therm('almg', 'sampling')
        A2, B2 = make_therm('alzr', 'sampling'), make_therm('almg', 'sampling')
        with quiet():
            B.setDFSamplingDensity(500)
            B2.setDFSamplingDensity(500)
        qa = [(4e-3, 700.), (2e-3, 760.), (4e-3, 700.)]
        qb = [(0.16, 470.), (0.2, 500.), (0.16, 470.)]
        ra, rb, sa, sb = [], [], [], []
        with quiet():
            for (xa_, Ta_), (xb_, Tb_) in zip(qa, qb):
                ra.append(float(A.getDrivingForce(xa_, Ta_)[0]))
                rb.append(float(B.getDrivingForce(xb_, Tb_)[0]))
            for (xa_, Ta_) in qa:
                sa.append(float(A2.getDrivingForce(xa_, Ta_)[0]))
            for (xb_, Tb_) in qb:
                sb.append(float(B2.getDrivingForce(xb_, Tb_)[0]))
        stats['interleaved'] += 1
        if not (_relclose(ra, sa, 1e-6, 1e-3) and _relclose(rb, sb, 1e-6, 1e-3)):
            hits.append(('calling_convention', SITE_DF, 'two objects interleaved', {'queries': [qa, qb]},
                         'Al-Zr and Al-Mg objects used alternately give %r / %r, each alone gives %r / %r' % (ra, rb, sa, sb)))
    ctx.notes['calling_conventions'] = stats
    return hits


def sample_backend(ctx, quick, plan=None):
    from kawin.thermo import BinaryThermodynamics
    from kawin.tests.datasets import ALZR_TDB
    hits = []
    # plan (replay of a reported case): the same system, the same temperature sequence on one object per method, the same
    # Gibbs-Thomson energies at the last temperature
    rng = ctx.rng if plan is None else np.random.Generator(np.random.PCG64(0))
    systems = [('Al-Zr', lambda meth: BinaryThermodynamics(ALZR_TDB, ['AL', 'ZR'], ['FCC_A1', 'AL3ZR'], drivingForceMethod=meth), None,
                (550., 900.), 16000., True),
               ('Cu-Ti', lambda meth: BinaryThermodynamics(os.path.join(REPO, 'examples', 'CuTi.tdb'), ['CU', 'TI'], ['FCC_A1', 'CU4TI'], drivingForceMethod=meth), 0.15,
                (560., 760.), 4500., False),
               # BETA_AL3MG2 is written with 89 : 140 sites: 229 atoms per formula unit
               ('Al-Mg', lambda meth: make_therm('almg', meth), None, (420., 540.), 600., True)]
    nT = 3 if quick else 10
    ng = 14 if quick else 40
    stats = {'consistency': 0, 'bisection': 0, 'monotone_x': 0, 'solvus_sign': 0, 'xalpha_monotone': 0, 'sentinel': 0, 'methods': 0}
    for name, mk, guess, (Tlo, Thi), gmax, stoich in systems:
        if plan is not None and plan['system'] != name:
            continue
        with quiet():
            th = mk('tangent')
            if guess is not None:
                th.setGuessComposition(guess)
        off = float(th.gOffset)
        # ONE object per method for the whole temperature sequence, queried with the default removeCache=False: whatever a
        # method keeps between calls (composition sets, sampled precipitate points) must not leak from one temperature into the next
        objs = {'tangent': th}
        for meth in ('approximate', 'sampling', 'curvature'):
            with quiet():
                objs[meth] = mk(meth)
                if guess is not None:
                    objs[meth].setGuessComposition(guess)
        # one temperature from each nT-th of the range, in random order: consecutive queries differ by tens of kelvin
        Ts = [float(np.round(Tlo + (i + rng.uniform(0.1, 0.9)) * (Thi - Tlo) / nT, 1)) for i in rng.permutation(nT)]
        Ts = Ts + [Ts[0]]                       # ... and back to the first temperature
        if plan is not None:
            Ts = [float(t) for t in plan['Ts']]
        history = []
        for T in Ts:
            history.append(T)
            g = np.concatenate(([0.0], np.sort(np.round(rng.uniform(0, gmax, ng - 1), 2))))
            if plan is not None and len(history) == len(Ts):
                g = np.array(plan['g'], dtype=float)
            with quiet():
                xa, xb = th.getInterfacialComposition(T, g.copy())
            xa, xb = np.atleast_1d(xa).astype(float), np.atleast_1d(xb).astype(float)
            st = xa != -1
            case = {'system': name, 'T': T, 'g': fl(g), 'temperatures_queried_on_the_same_objects': list(history)}
            ctx.count(case, bool(np.sum(st) >= 2))
            ctx.hist('backend', name)
            # sentinel monotone: once unstable, unstable for every larger g ; matrix and precipitate agree
            stats['sentinel'] += 1
            if np.any(st[1:] & ~st[:-1]) or np.any((xb == -1) != (xa == -1)):
                k = int(np.argmax(st[1:] & ~st[:-1]))
                hits.append(('sentinel_monotone', SITE_TH, 'stable again', dict(case, xa=fl(xa)),
                             '%s T=%g: unstable (-1) at g=%g but stable again at g=%g' % (name, T, g[k], g[k + 1])))
            if not st[0]:
                continue
            gs, xs, xbs = g[st], xa[st], xb[st]
            # the matrix composition stays on the matrix side of the precipitate composition (where the planar solvus is)
            far = np.sign(xbs - xs) != np.sign(xbs[0] - xs[0])
            if np.any(far):
                k = int(np.argmax(far))
                hits.append(('xalpha_monotone', SITE_TH, 'matrix composition on the far side of the precipitate', dict(case, xa=fl(xa), xb=fl(xb)),
                             '%s T=%g: solvus x_alpha(0) = %r, precipitate %r, but x_alpha(g=%g) = %r lies beyond the precipitate composition (x_alpha(g=%g) = %r before it)' % (
                                 name, T, float(xs[0]), float(xbs[0]), float(gs[k]), float(xs[k]), float(gs[k - 1]), float(xs[k - 1]))))
                gs, xs, xbs = gs[~far], xs[~far], xbs[~far]
            # x_alpha rises strictly with g
            stats['xalpha_monotone'] += len(gs) - 1
            d = np.diff(xs)
            if np.any(d <= 0) and np.all(np.diff(gs) > 0):
                k = int(np.argmax(d <= 0))
                hits.append(('xalpha_monotone', SITE_TH, 'not increasing', dict(case, xa=fl(xa)),
                             '%s T=%g: x_alpha(g=%g) = %r >= x_alpha(g=%g) = %r' % (name, T, gs[k], xs[k], gs[k + 1], xs[k + 1])))
            # the composition returned for g is the composition at which the driving force is g (to the offset)
            with quiet():
                dg, _ = th.getDrivingForce(xs, T * np.ones(len(xs)))
            dg = np.atleast_1d(dg).astype(float)
            stats['consistency'] += len(gs)
            tol = 0.02 + 1e-6 * gs
            bad = np.where((dg - gs < -tol) | (dg - gs > off + tol))[0]
            if len(bad):
                k = int(bad[0])
                hits.append(('backend_consistency', SITE_TH, 'driving force at x_alpha(g)', dict(case, xa=fl(xa), dg=fl(dg)),
                             '%s T=%g: x_alpha(g=%g) = %r but the driving force there is %r (offset %g)' % (name, T, gs[k], xs[k], dg[k], off)))
            # independent root of DG(x) = g by bisection (monotone DG): must lie within the offset of x_alpha(g)
            for k in ([int(i) for i in rng.choice(len(gs), min(len(gs), 2 if quick else 5), replace=False)]):
                lo, hi = xs[k] * 0.5, min(xs[k] * 1.5, 0.999 * float(xbs[k]))
                with quiet():
                    flo, _ = th.getDrivingForce(lo, T)
                    fhi, _ = th.getDrivingForce(hi, T)
                if not (float(flo) < gs[k] < float(fhi)):
                    continue
                for _ in range(40):
                    mid = 0.5 * (lo + hi)
                    with quiet():
                        fm, _ = th.getDrivingForce(mid, T)
                    if float(fm) < gs[k]:
                        lo = mid
                    else:
                        hi = mid
                root = 0.5 * (lo + hi)
                with quiet():
                    f2, _ = th.getDrivingForce(root, T)
                    f3, _ = th.getDrivingForce(xs[k], T)
                stats['bisection'] += 1
                # root is where DG = g; x_alpha(g) is where DG = g + off: x_alpha >= root, and DG between them rises by <= off
                if xs[k] < root * (1 - 1e-7) or float(f3) - float(f2) > off + 0.05:
                    hits.append(('backend_consistency', SITE_TH, 'bisection root', dict(case, k=k, root=root, xalpha=float(xs[k])),
                                 '%s T=%g g=%g: bisection root of DG(x)=g is %r, getInterfacialComposition gives %r (DG %r vs %r)' % (name, T, gs[k], root, xs[k], float(f2), float(f3))))
            # driving force increases with supersaturation and changes sign (to the offset) at the solvus
            xsol = xs[0]
            xx = xsol * np.array([0.3, 0.6, 0.9, 0.97, 1.03, 1.1, 1.5, 3.0, 8.0])
            xx = xx[xx < 0.8 * xbs[0]]
            with quiet():
                dd, _ = th.getDrivingForce(xx, T * np.ones(len(xx)))
            dd = np.atleast_1d(dd).astype(float)
            stats['monotone_x'] += len(xx) - 1
            if np.any(np.diff(dd) <= 0):
                k = int(np.argmax(np.diff(dd) <= 0))
                hits.append(('dg_increasing', SITE_TH, 'not increasing', dict(case, x=fl(xx), dg=fl(dd)),
                             '%s T=%g: DG(x=%r) = %r >= DG(x=%r) = %r' % (name, T, xx[k], dd[k], xx[k + 1], dd[k + 1])))
            stats['solvus_sign'] += len(xx)
            for xv, dv in zip(xx, dd):
                if (xv < xsol and dv > off + 0.02) or (xv > xsol and dv < -0.02):
                    hits.append(('dg_sign_at_solvus', SITE_TH, 'sign', dict(case, x=float(xv), dg=float(dv), solvus=float(xsol)),
                                 '%s T=%g: solvus %r, DG(x=%r) = %r' % (name, T, xsol, xv, dv)))
                    break
            # kawin-free reference (stoichiometric precipitates): the tangent driving force is the tangent-plane distance, and the
            # composition returned for g is where that distance equals g (to the offset)
            if stoich and name in REF:
                for k in sorted(set(int(i) for i in rng.choice(len(xx), min(len(xx), 2), replace=False))):
                    ref = ref_dg(name, xx[k], T)
                    stats['reference'] = stats.get('reference', 0) + 1
                    if ref is not None and abs(dd[k] - ref) > 0.05 + 1e-6 * abs(ref):
                        hits.append(('dg_reference', SITE_TH, 'tangent', dict(case, x=float(xx[k]), tangent=float(dd[k]), reference=ref),
                                     '%s T=%g x=%r: tangent driving force %r, tangent-plane distance to the compound (pycalphad alone) %r (ratio %.4g)' % (name, T, float(xx[k]), float(dd[k]), ref, dd[k] / ref if ref else float('nan'))))
                for k in sorted(set(int(i) for i in rng.choice(len(gs), min(len(gs), 2), replace=False))):
                    ref = ref_dg(name, xs[k], T)
                    stats['reference'] = stats.get('reference', 0) + 1
                    if ref is not None and not (-0.05 - 1e-6 * gs[k] <= ref - gs[k] <= off + 0.05 + 1e-6 * gs[k]):
                        hits.append(('backend_consistency', SITE_TH, 'reference driving force at x_alpha(g)', dict(case, g=float(gs[k]), xalpha=float(xs[k]), reference=ref),
                                     '%s T=%g: x_alpha(g=%g) = %r but the tangent-plane distance to the compound there (pycalphad alone) is %r (offset %g)' % (name, T, float(gs[k]), float(xs[k]), ref, off)))
            # the four methods: sign away from the solvus, value to the offset for a stoichiometric precipitate; every method
            # is asked on its own long-lived object, in sequence over the temperatures (default removeCache=False)
            vals = {'tangent': dd}
            for meth in ('approximate', 'sampling', 'curvature'):
                with quiet():
                    v2, _ = objs[meth].getDrivingForce(xx, T * np.ones(len(xx)))
                vals[meth] = np.atleast_1d(v2).astype(float)
            stats['methods'] += 3 * len(xx)
            far = np.abs(dd) > 5 * off + 5
            for meth in ('approximate', 'sampling', 'curvature'):
                v2 = vals[meth]
                if np.any(far & (np.sign(v2) != np.sign(dd))):
                    k = int(np.argmax(far & (np.sign(v2) != np.sign(dd))))
                    hits.append(('methods_agree', SITE_TH, 'sign ' + meth, dict(case, x=float(xx[k]), tangent=float(dd[k]), other=float(v2[k])),
                                 '%s T=%g (temperatures so far %r) x=%r (solvus %r): tangent %r, %s %r' % (name, T, history, float(xx[k]), float(xsol), float(dd[k]), meth, float(v2[k]))))
                # value: approximate and sampling everywhere, curvature where it is documented to fall back to sampling
                # (below the solvus; above it is a first-order estimate)
                where = np.ones(len(xx), dtype=bool) if meth != 'curvature' else (xx < 0.98 * xsol)
                badv = where & (np.abs(v2 - dd) > 2 * off + 1e-3 * np.abs(dd))
                if stoich and np.any(badv):
                    k = int(np.argmax(badv))
                    hits.append(('methods_agree', SITE_TH, 'value ' + meth, dict(case, x=float(xx[k]), tangent=float(dd[k]), other=float(v2[k])),
                                 '%s T=%g (temperatures so far %r) x=%r: tangent %r, %s %r (offset %g)' % (name, T, history, float(xx[k]), float(dd[k]), meth, float(v2[k]), off)))
            # DG(x_alpha(g)) = g to the offset, for the other methods too (stoichiometric precipitate)
            if stoich:
                sel = sorted(set([0] + [int(i) for i in rng.choice(len(gs), min(len(gs), 3), replace=False)]))
                for meth in ('approximate', 'sampling'):
                    with quiet():
                        dm, _ = objs[meth].getDrivingForce(xs[sel], T * np.ones(len(sel)))
                    dm = np.atleast_1d(dm).astype(float)
                    stats['consistency'] += len(sel)
                    dev = dm - gs[sel]
                    badc = (dev < -2 * off - 0.05 - 1e-6 * gs[sel]) | (dev > 2 * off + 0.05 + 1e-6 * gs[sel])
                    if np.any(badc):
                        k = int(np.argmax(badc))
                        hits.append(('backend_consistency', SITE_TH, 'driving force at x_alpha(g), ' + meth,
                                     dict(case, method=meth, g=float(gs[sel][k]), xalpha=float(xs[sel][k]), dg=float(dm[k])),
                                     '%s T=%g (temperatures so far %r): x_alpha(g=%g) = %r but the %s driving force there is %r (offset %g)' % (name, T, history, float(gs[sel][k]), float(xs[sel][k]), meth, float(dm[k]), off)))
    ctx.notes['backend_sampling'] = stats
    return hits


# ==========================================================================================
# (f) ExtraGibbsModel: the precipitate model that carries the Gibbs-Thomson energy GE
SITE_XG = 'Thermodynamics.ExtraGibbsModel'
_THERM = {}
XG_SOURCES = [('alzr', 'AL3ZR'), ('almg', 'BETA_AL3MG2'), ('almgsi', 'MGSI_B_P'), ('almgsi', 'MG5SI6_B_DP'), ('almgsi', 'B_PRIME_L'),
              ('almgsi', 'U1_PHASE'), ('almgsi', 'U2_PHASE'), ('cuti', 'CU4TI'), ('nicral', 'FCC_L12')]
ALMGSI_PHASES = ['FCC_A1', 'MGSI_B_P', 'MG5SI6_B_DP', 'B_PRIME_L', 'U1_PHASE', 'U2_PHASE']


def make_therm(key, method='tangent'):
    """real kawin thermodynamics objects (pycalphad); formula units from 1 atom (AL3ZR, written 0.75 : 0.25) to 229 atoms
    (BETA_AL3MG2, written 89 : 140)"""
    from kawin.thermo import BinaryThermodynamics, MulticomponentThermodynamics
    from kawin.tests.datasets import ALZR_TDB, ALMGSI_DB, NICRAL_TDB
    with quiet():
        if key == 'alzr':
            return BinaryThermodynamics(ALZR_TDB, ['AL', 'ZR'], ['FCC_A1', 'AL3ZR'], drivingForceMethod=method)
        if key == 'almg':
            return BinaryThermodynamics(ALMGSI_DB, ['AL', 'MG'], ['FCC_A1', 'BETA_AL3MG2'], drivingForceMethod=method)
        if key == 'cuti':
            th = BinaryThermodynamics(os.path.join(REPO, 'examples', 'CuTi.tdb'), ['CU', 'TI'], ['FCC_A1', 'CU4TI'], drivingForceMethod=method)
            th.setGuessComposition(0.15)
            return th
        if key == 'almgsi':
            return MulticomponentThermodynamics(ALMGSI_DB, ['AL', 'MG', 'SI'], list(ALMGSI_PHASES), drivingForceMethod=method)
        if key == 'nicral':
            return MulticomponentThermodynamics(NICRAL_TDB, ['NI', 'AL', 'CR'], ['FCC_A1', 'FCC_L12'], drivingForceMethod=method)
    raise ValueError(key)


def therm_cached(key):
    if key not in _THERM:
        _THERM[key] = make_therm(key)
    return _THERM[key]


def gen_xg_case(rng):
    key, phase = XG_SOURCES[int(rng.integers(0, len(XG_SOURCES)))]
    return {'kind': 'xg', 'source': key, 'phase': phase, 'T': float(np.round(rng.uniform(400, 1100), 1)),
            'GE': float(rng.choice([0.0, float(np.round(rng.uniform(0, 20000), 2)), float(np.round(-rng.uniform(0, 2000), 2))], p=[0.1, 0.8, 0.1])),
            'u': [float(np.round(u, 4)) for u in rng.uniform(0.05, 1, 24)]}


def run_xg_impl(c):
    from pycalphad import variables as v
    try:
        m = therm_cached(c['source']).models[c['phase']]
        sub, k = {}, 0
        for sl, cons in enumerate(m.constituents):
            cons = sorted(cons, key=str)
            w = np.array(c['u'][k:k + len(cons)])
            k += len(cons)
            w = w / w.sum()
            for sp, wi in zip(cons, w):
                sub[v.Y(m.phase_name, sl, sp)] = float(wi)
        sub.update({v.T: c['T'], v.GE: c['GE'], v.P: 101325.0, v.N: 1.0})
        ev = lambda e: float(e.subs(sub).n()) if hasattr(e, 'subs') else float(e)
        return {'err': None, 'ast': ev(m.ast), 'GM': ev(m.GM), 'G': ev(m.G), 'n': ev(m._site_ratio_normalization), 'cls': type(m).__name__}
    except Exception as e:
        return {'err': type(e).__name__ + ': ' + str(e)}


def xg_term(c, im):
    return 'chk_extra %s %s %s %s %s %s' % (RT, qlit(im['ast']), qlit(c['GE']), qlit(im['n']), qlit(im['GM']), qlit(im['G']))


def xg_oracle(c, im):
    """the Gibbs-Thomson energy g is an energy per mole of atoms of the precipitate (Vm (2 gamma / R + strain) with the
    molar volume per mole of atoms): it must raise the molar energy by g, and the energy of the formula unit by g times
    the atoms in the formula unit - the two energy properties describe the same precipitate"""
    if im['err']:
        return [('extra_energy', 'exception', 'raised ' + im['err'])]
    sc = abs(im['ast']) + abs(c['GE'])
    if abs(im['GM'] - (im['ast'] + c['GE'])) > 1e-10 * sc:
        return [('extra_energy', 'molar energy', '%s %s: GM = %r, database energy %r + GE %r = %r' % (c['source'], c['phase'], im['GM'], im['ast'], c['GE'], im['ast'] + c['GE']))]
    if abs(im['G'] / im['n'] - im['GM']) > 1e-10 * sc:
        return [('extra_energy', 'formula energy', '%s %s (%g atoms per formula unit): G / atoms = %r but GM = %r at GE = %r (difference %r)' % (
            c['source'], c['phase'], im['n'], im['G'] / im['n'], im['GM'], c['GE'], im['G'] / im['n'] - im['GM']))]
    return []


# ==========================================================================================
def corpus_items():
    out = []
    p = os.path.join(VERIF, 'corpus', 'C12')
    if os.path.isdir(p):
        for f in sorted(os.listdir(p)):
            if f.endswith('.json'):
                c = json.load(open(os.path.join(p, f)))
                c['corpus'] = f
                out.append(c)
    return out


UNIT = {'ge': (gen_ge_case, run_ge_impl, ge_term, ge_oracle, SITE_GE),
        'curv': (gen_curv_case, run_curv_impl, curv_term, curv_oracle, SITE_CURV),
        'gt': (gen_gt_case, run_gt_impl, gt_term, gt_oracle, SITE_GT),
        'nb': (gen_nb_case, run_nb_impl, nb_term, nb_oracle, SITE_NB),
        'lk': (gen_lk_case, run_lk_impl, lk_term, lk_oracle, SITE_LK),
        'xg': (gen_xg_case, run_xg_impl, xg_term, xg_oracle, SITE_XG)}


def verdict_bad(kind, v):
    """Coq verdict -> list of disagreement descriptions"""
    def one(name, r):
        if r is None:
            return []
        k, ap = r[1]
        return ['%s[%d]: model value %.17g' % (name, k, float(tofrac(ap)))]
    if kind == 'ge':
        return [] if v is True else ['GE-index loop: implementation and model return different arrays / error status']
    if kind == 'curv':
        return one('growth_rate', v[0]) + one('c_alpha', v[1])
    if kind == 'gt':
        return one('gibbs_thomson', v)
    if kind == 'gtseen':
        return one('Gibbs-Thomson energy handed to getInterfacialComposition', v)
    if kind == 'nb':
        return one('volumetric driving force', v[0]) + one('Rcrit', v[1])
    if kind == 'xg':
        return one('ExtraGibbsModel.GM', v[0]) + one('ExtraGibbsModel.G', v[1])
    if kind == 'lk':
        return ([] if v[0] else ['RdrivingForceIndex differs']) + ([] if v[1] else ['PSDXalpha differs']) + ([] if v[2] else ['PSDXbeta differs'])
    if kind == 'bin':
        return one('growth (binary)', v)
    if kind == 'multi':
        return one('driving force handed to the backend', v[0]) + one('Gibbs-Thomson energy handed to the backend', v[1]) + one('growth (multicomponent)', v[2])
    raise ValueError(kind)


def nontrivial(c, im):
    k = c['kind']
    if im.get('err'):
        return False
    if k == 'ge':
        return any(len(cs) == 2 for _, _, cs in c['entries'])
    if k == 'curv':
        return any(g != 0 for g in im['growth'])
    if k == 'gt':
        return True
    if k == 'nb':
        return im['vol'] > 0
    if k == 'xg':
        return abs(im['n'] - 1) > 1e-9 and c['GE'] != 0
    if k == 'lk':
        return any(a == -1 for a in c['xa'])
    return True


def eval_unit(ctx, cases, label):
    """implementation + Coq model + oracle on unit cases; returns (disagreements, oracle hits)"""
    impls = [UNIT[c['kind']][1](c) for c in cases]
    terms, owner = [], []
    for i, (c, im) in enumerate(zip(cases, impls)):
        if im.get('err') and not (c['kind'] == 'ge' and im['err'] == 'IndexError'):
            continue
        vals = [v for k in ('growth', 'g', 'xm', 'xp', 'A', 'B') for v in im.get(k, [])] + [im.get(k, 0.0) for k in ('vol', 'rc', 'ast', 'GM', 'G', 'n')]
        if not all(math.isfinite(v) for v in vals):
            continue
        if c['kind'] == 'lk' and c['pattern'] == 'scattered':
            # sentinels after a stable class: outside the premise of C12_lookup_fix (the unstable classes are a
            # prefix); a pending repair of property C03 fills such entries from the class below
            ctx.notes['guarded_scattered_tables'] = ctx.notes.get('guarded_scattered_tables', 0) + 1
        else:
            terms.append(UNIT[c['kind']][2](c, im))
            owner.append((i, c['kind']))
        if c['kind'] == 'lk' and bin_ok(im):
            terms.append(bin_term(c['x'], c['D'], im))
            owner.append((i, 'bin'))
        if c['kind'] == 'lk':
            terms.append('chk_gt %s %s %s %s %s %s %s' % (RT, qlit(im['vmb']), qlit(im['gamma']), qlist(im['s']), qlist(im['f']), qlist(im['R']), qlist(im['g_seen'])))
            owner.append((i, 'gtseen'))
    res = ctx.coq_eval('unit_' + label, HEADER, terms) if terms else []
    dis, hits = [], []
    seen = set()
    for (i, kind), v in zip(owner, res):
        seen.add(i)
        for d in verdict_bad(kind, v):
            dis.append((cases[i], impls[i], kind, d))
    for i, (c, im) in enumerate(zip(cases, impls)):
        ctx.count(c, nontrivial(c, im))
        ctx.hist('unit', c['kind'] + (':' + c.get('order', c.get('pattern', '')) if c['kind'] in ('ge', 'lk') else ''))
        if i not in seen:
            if im.get('err'):
                dis.append((c, im, c['kind'], 'implementation raised ' + im['err']))
            else:
                ctx.notes['non_finite_cases'] = ctx.notes.get('non_finite_cases', 0) + 1
        for (clause, cls, msg) in UNIT[c['kind']][3](c, im):
            hits.append((c, im, clause, cls, msg))
        if i < 40 and c['kind'] in ('ge', 'curv'):
            ctx.sample({'case': c, 'impl': {k: im[k] for k in im if k in ('xm', 'xp', 'growth', 'err')}}, limit=3)
    return dis, hits


def report_unit(ctx, dis, hits):
    seen = set()
    for (c, im, clause, cls, msg) in hits:
        site = UNIT[c['kind']][4] if clause != 'growth_sign_binary' else SITE_GB
        if (clause, cls) in seen:
            continue
        seen.add((clause, cls))
        ctx.violation(clause, {'site': site, 'cls': cls},
                      {'kind': 'input', 'input': c, 'observed': msg, 'impl': {k: v for k, v in im.items() if k != 'err'},
                       'oracle': 'independent recomputation from the property text (harness/c12.py)'}, msg)
    if dis and not hits:
        c, im, kind, d = dis[0]
        site = {'bin': SITE_GB, 'multi': SITE_GM}.get(kind) or UNIT[c['kind']][4]
        ctx.violation('correspondence', {'site': site, 'cls': d.split(':')[0].split('[')[0]},
                      {'broken': {'correspondence': 'coq/C12/Model.v vs ' + site, 'first_disagreement': d}, 'kind': 'input', 'input': c,
                       'disagreements': len(dis)},
                      'model and implementation disagree (%d cases), e.g. %s' % (len(dis), d), no_input=True)


def run_traces(ctx, cfgs, label, sample_every):
    """runs + oracle on every step + trace refinement in Coq on sampled steps"""
    all_hits, terms, owners = [], [], []
    finals = {}
    for cfg in cfgs:
        t0 = time.time()
        try:
            m, steps, off = run_config(cfg)
        except Exception as e:
            all_hits.append((cfg, None, 'run', 'KWNBase.solve', 'exception', 'run raised %s: %s' % (type(e).__name__, e)))
            continue
        ctx.hist('runs', cfg['backend'])
        finals[cfg['name']] = steps
        tw = finals.get(cfg.get('twin_of'))
        if tw is not None:
            same = len(tw) == len(steps) and all(
                a['x'] == b['x'] and all(da['Rc'] == db['Rc'] and np.array_equal(da['growth'], db['growth']) for da, db in zip(a['phases'], b['phases']))
                for a, b in zip(tw[-3:], steps[-3:]))
            if not same:
                all_hits.append((cfg, len(steps), 'calling_convention', 'KWNBase (display names)', 'run differs from its twin',
                                 'run %s (%d steps) differs from its twin %s (%d steps) although only the display names of the precipitates differ' % (cfg['name'], len(steps), cfg['twin_of'], len(tw))))
        nh = 0
        for rec in steps:
            nt = any(d['dGv'] > 0 and d['Rc'] > 0 and np.any(d['growth'] > 0) and np.any(d['growth'] < 0) for d in rec['phases'])
            ctx.count({'cfg': cfg['name'], 'n': rec['n'], 'x': rec['x'], 'Rc': [d['Rc'] for d in rec['phases']]}, nt)
            for (clause, site, cls, msg) in trace_oracle(m, rec, off):
                nh += 1
                all_hits.append((cfg, rec['n'], clause, site, cls, msg))
        idx = list(range(0, len(steps), max(1, len(steps) // sample_every)))[:sample_every + 2]
        for i in idx:
            for (kind, p, t) in trace_terms(m, steps[i], off, full=not ctx.quick):
                terms.append(t)
                owners.append((cfg, steps[i]['n'], kind, p))
        ctx.notes.setdefault('runs', []).append({'name': cfg['name'], 'steps': len(steps), 'oracle_hits': nh, 'wall_s': round(time.time() - t0, 1)})
        if steps:
            r = steps[len(steps) // 2]
            d = r['phases'][0]
            ctx.sample({'run': cfg, 'step': r['n'], 'x': r['x'], 'Rcrit': d['Rc'], 'dG_v': d['dGv'],
                        'first_growing_boundary': float(d['R'][int(np.argmax(d['growth'] > 0))]) if np.any(d['growth'] > 0) else None}, limit=6)
    res = ctx.coq_eval('trace_' + label, HEADER, terms, shard=max(1, -(-len(terms) // 32))) if terms else []
    dis = []
    for (cfg, n, kind, p), v in zip(owners, res):
        ctx.cov['traces_validated_against_impl'] += 1
        for d in verdict_bad(kind, v):
            dis.append((cfg, n, kind, d))
    return all_hits, dis


def report_traces(ctx, hits, dis):
    seen = set()
    for (cfg, n, clause, site, cls, msg) in hits:
        if (clause, site, cls) in seen:
            continue
        seen.add((clause, site, cls))
        small = dict(cfg)
        small['maxsteps'] = (n or 0) + 2
        ctx.violation(clause, {'site': site, 'cls': cls},
                      {'kind': 'trace', 'config': small, 'step': n, 'observed': msg,
                       'oracle': 'trace oracle from the property text: classes above the recorded critical radius grow, below shrink (harness/c12.py: trace_oracle)'},
                      '%s [run %s]' % (msg, cfg['name']))
    if dis and not hits:
        cfg, n, kind, d = dis[0]
        site = SITE_GB if kind == 'bin' else SITE_GM
        ctx.violation('correspondence', {'site': site, 'cls': d.split(':')[0].split('[')[0]},
                      {'broken': {'correspondence': 'coq/C12/Model.v vs ' + site + ' on a recorded step', 'first_disagreement': d},
                       'kind': 'trace', 'config': cfg, 'step': n, 'disagreements': len(dis)},
                      'model and implementation disagree on recorded steps (%d), e.g. run %s step %s: %s' % (len(dis), cfg['name'], n, d), no_input=True)


def coqchk(ctx):
    """thorough tier: independent re-check of the compiled property file and its whole closure"""
    cmd = ['timeout', '2400', 'coqchk', '-silent', '-o', '-R', COQ, 'Kawin', '-R', ctx.build, 'KawinRun', 'KawinRun.Properties']
    r = subprocess.run(cmd, capture_output=True, text=True, cwd=ctx.build)
    out = r.stdout + r.stderr
    axioms = re.findall(r'^\s{4}(Coq\.[A-Za-z_0-9\.]+|[A-Z][A-Za-z_0-9\.]+)\s*$', out.split('* Axioms:')[1].split('* Constants')[0], re.M) if '* Axioms:' in out else []
    ctx.notes['coqchk'] = {'returncode': r.returncode, 'axioms': axioms}
    std = {'Coq.Logic.FunctionalExtensionality.functional_extensionality_dep', 'Coq.Reals.ClassicalDedekindReals.sig_not_dec',
           'Coq.Reals.ClassicalDedekindReals.sig_forall_dec', 'Coq.Logic.Classical_Prop.classic'}
    bad = [a for a in axioms if a not in std]
    if r.returncode != 0 or bad:
        ctx.violation('coqchk', {'site': 'coq/C12', 'cls': 'coqchk'}, {'broken': {'coqchk': out[-1500:], 'unexpected_axioms': bad}},
                      'coqchk does not accept the compiled property file (exit %d, unexpected axioms %r)' % (r.returncode, bad), no_input=True)


def run(ctx):
    quick = ctx.quick
    ctx.cov['rule'] = ('unit cases: scripted workspaces for the GE loop (orders GE-outer / X-outer / shuffled, phase sets, coordinate orders), '
                       'random and exact dyadic inputs for the growth / Gibbs-Thomson / critical-radius kernels with kawin shape and strain objects, '
                       'scripted lookup tables (prefix / none / scattered sentinels); non-trivial = has a two-phase entry / a non-zero growth rate / a positive '
                       'driving force / an unstable class.  Trace cases: every recorded step of runs on closed-form binary and ternary backends, Al-Zr and '
                       'Ni-Cr-Al; non-trivial = positive driving force with growing and shrinking classes; distinct by hash of (run, step, composition, Rcrit). '
                       'Backend cases: (system, T, g grid) on Al-Zr and Cu-Ti; non-trivial = at least two stable g.')
    tm = {}
    t0 = time.time()
    axioms, failed = ctx.prove(['C12/Properties.v'])
    if not quick and not failed:
        coqchk(ctx)
    tm['prove'] = round(time.time() - t0, 1)

    # ---- corpus first
    corp = corpus_items()
    corp_runs = [c for c in corp if c.get('kind') == 'trace']
    corp_unit = [c['input'] if 'input' in c and 'kind' in c.get('input', {}) else c for c in corp if c.get('kind') not in ('trace', 'backend')]
    corp_backend = [c for c in corp if c.get('kind') == 'backend']
    hits_t, dis_t = run_traces(ctx, [c['config'] for c in corp_runs], 'corpus', 6) if corp_runs else ([], [])
    # ---- unit correspondence + oracles
    nge, nother = (120, 60) if quick else (1500, 600)
    cases = list(corp_unit)
    cases += [gen_ge_case(ctx.rng) for _ in range(nge)]
    for k in ('curv', 'gt', 'nb', 'lk', 'xg'):
        cases += [UNIT[k][0](ctx.rng) for _ in range(nother if k != 'lk' else nother // 2)]
    t0 = time.time()
    dis_u, hits_u = eval_unit(ctx, cases, 'main')
    tm['unit'] = round(time.time() - t0, 1)
    t0 = time.time()
    # ---- runs
    cfgs = quick_configs()
    if not quick:
        for c in cfgs:
            c['maxsteps'] = c['maxsteps'] * 4
            c['tf'] = c['tf'] * 20
        cfgs += [random_config(ctx.rng, k) for k in range(24)]
    h2, d2 = run_traces(ctx, cfgs, 'main', 5 if quick else 20)
    hits_t += h2
    dis_t += d2
    tm['runs'] = round(time.time() - t0, 1)
    # ---- backend sampling
    t0 = time.time()
    hits_b = []
    for c in corp_backend:
        inp = c['input']
        hits_b += sample_backend(ctx, quick, {'system': inp['system'], 'Ts': inp['temperatures_queried_on_the_same_objects'], 'g': inp['g']})
    hits_b += sample_backend(ctx, quick)
    hits_b += sample_backend_multi(ctx, quick)
    hits_b += sample_conventions(ctx, quick)
    tm['backend'] = round(time.time() - t0, 1)
    ctx.notes['phase_wall_s'] = tm
    print('C12 phases (s):', tm)

    found = bool(hits_u or hits_t or hits_b)
    if (failed or dis_u or dis_t) and not found:
        # a theorem or the tie broke and the oracles saw nothing: search harder before giving up
        more = [random_config(ctx.rng, 100 + k) for k in range(6 if quick else 30)]
        h3, d3 = run_traces(ctx, more, 'search', 4)
        hits_t += h3
        dis_t += d3
        cases2 = [UNIT[k][0](ctx.rng) for k in ('ge', 'curv', 'gt', 'nb', 'lk', 'xg') for _ in range(150)]
        d4, h4 = eval_unit(ctx, cases2, 'search')
        dis_u += d4
        hits_u += h4
    report_unit(ctx, dis_u, hits_u)
    report_traces(ctx, hits_t, dis_t)
    seen = set()
    for (clause, site, cls, inp, msg) in hits_b:
        if (clause, cls) in seen:
            continue
        seen.add((clause, cls))
        ctx.violation(clause, {'site': site, 'cls': cls}, {'kind': 'backend', 'input': inp, 'observed': msg,
                                                          'oracle': 'sampling of the pycalphad backend against the property text (harness/c12.py: sample_backend)'}, msg)
    for t in failed:
        ctx.violation(t, {'site': 'coq/C12/Properties.v', 'cls': 'proof'}, {'broken': {'theorem': t, 'file': 'coq/C12/Properties.v'}},
                      'theorem %s no longer checks' % t, no_input=not (hits_u or hits_t or hits_b))
    ctx.notes['disagreements'] = len(dis_u) + len(dis_t)
    ctx.notes['oracle_hits'] = len(hits_u) + len(hits_t) + len(hits_b)
    ctx.notes['sampled_only'] = ('agreement of pycalphad parallel-tangent driving force with the shifted-energy equilibrium (backend_consistency), DG increasing in x, '
                                 'sign change at the solvus, x_alpha increasing in g, sentinel monotone on the real backend, agreement of the four methods: '
                                 'sampled on Al-Zr and Cu-Ti, not proved; they are the premises of the binary theorems')
    ctx.assumptions += [
        'premises of the binary theorems (sampled on Al-Zr and Cu-Ti, not proved): the driving force is strictly increasing in the matrix composition; the interfacial composition returned for g is a composition where the driving force is g + gOffset; stability is lost where the required matrix composition reaches a limit',
        'constant shape: thermodynamic factor f and strain energy do not depend on the size class (aspect ratio fixed); with a size-dependent aspect ratio the sign change is only approximately at Rcrit',
        'positive supersaturation denominator Vm_alpha x_beta / Vm_beta - x_alpha and positive effective diffusion distance (supersaturation < 1); kinetic factor, diffusivity, mc > 0',
        'shape, strain and kinetic factors of kawin and the effective diffusion distance are oracles: their values are shipped to the model',
        'binary64 rounding is not modelled: outputs compared with relative tolerance 2^-36 of the summed magnitudes (2^-48 for exact dyadic inputs); the GE loop and the lookup bookkeeping are compared exactly',
        'binary lookup tables computed at another temperature than the current one are exempt from the trace oracle only while the difference is within constraints.maxTempChange (the lag the user allows, C13); non-isothermal runs (heating, quench, hold after a jump, heating then cooling; closed-form backends and Al-Zr) use maxTempChange = 0 and one uses the default 1 K',
        'lookup table with no stable size class (argmax of an all-False mask) is excluded: repaired by a pending commit of property C03']
    ctx.cov['trusted_base'] += ['Coq 8.16.1 kernel and vm_compute', 'hand-written model coq/C12/Model.v + correspondence drivers coq/C12/Corr.v, harness/c12.py',
                                'float -> Q transport (float.as_integer_ratio) and output parser in harness/common.py',
                                'fake pycalphad Workspace / composition-set objects and the closed-form backends of harness/c12.py',
                                'pycalphad (not modelled): reached by sampling only']


def replay(ctx, obj):
    kind = obj.get('kind')
    bad = 0
    if kind == 'trace':
        hits, dis = run_traces(ctx, [obj['config']], 'replay', 6)
        for h in hits[:5]:
            print('replay:', h[2], h[4], h[5])
        for d in dis[:5]:
            print('replay: model/implementation disagreement', d[1:], )
        bad = len(hits) + len(dis)
    elif kind == 'input' and obj.get('input', {}).get('kind') in UNIT:
        dis, hits = eval_unit(ctx, [obj['input']], 'replay')
        for h in hits:
            print('replay:', h[2], h[3], h[4])
        for d in dis:
            print('replay: model/implementation disagreement:', d[3])
        bad = len(hits) + len(dis)
    elif kind == 'backend':
        inp = obj.get('input', {})
        plan = None
        if 'sys' in inp:
            hits = sample_conventions(ctx, True, {'sys': (inp['sys'][0], inp['sys'][1], tuple(inp['sys'][2])), 'T0': inp['T0'], 'g': inp['g']})
        elif inp.get('system') == 'Al-Mg-Si':
            hits = sample_backend_multi(ctx, True, {'Ts': inp['temperatures_queried_on_the_same_objects'], 'x': inp['x'], 'phase': inp['phase']})
        else:
            if 'temperatures_queried_on_the_same_objects' in inp:
                plan = {'system': inp['system'], 'Ts': inp['temperatures_queried_on_the_same_objects'], 'g': inp['g']}
            hits = sample_backend(ctx, True, plan)
        for h in hits:
            print('replay:', h[0], h[4])
        bad = len(hits)
    else:
        axioms, failed = ctx.prove(['C12/Properties.v'])
        for t in failed:
            print('replay: theorem %s does not check' % t)
        bad = len(failed)
    print('replay: %d violations / disagreements on this input' % bad)
    return 1 if bad else 0
