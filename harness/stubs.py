"""Closed-form stand-ins for the pycalphad-backed thermodynamics, and observers for precipitation
runs.  Everything here goes through kawin's public extension points: `setThermodynamics`,
`addCouplingModel`, the `solverType` argument of `solve`.
"""
import copy
import numpy as np

R = 8.314


class StubBinary:
    """Ideal dilute binary solution A-B with up to three stoichiometric precipitates.
    phase -> (x_beta, H, S):  x_eq(T) = exp(-H/RT + S)."""
    numElements = 2
    elements = ['A', 'B', 'VA']
    P = {'B1': (0.25, 60000., 2.0), 'B2': (0.5, 52000., 1.2), 'B3': (0.2, 65000., 2.6)}

    def __init__(self, phases=('B1',), D0=1e-5, Q=150000.):
        self.phases = ['ALPHA'] + list(phases)
        self.D0, self.Q = D0, Q
        self.log = []

    def xeq(self, T, ph):
        xb, H, S = self.P[ph]
        return np.exp(-H / (R * T) + S)

    def getInterfacialComposition(self, T, gExtra=0, precPhase=None):
        T = np.atleast_1d(T)
        g = np.array(np.atleast_1d(gExtra), dtype=float)
        xb0 = self.P[precPhase][0]
        xa = self.xeq(T[0], precPhase) * np.exp(g / (R * T[0] * xb0))
        xb = xb0 * np.ones(g.shape)
        bad = xa >= xb0
        self.log.append(('ic', float(T[0]), len(g)))
        return np.squeeze(np.where(bad, -1, xa)), np.squeeze(np.where(bad, -1, xb))

    def getDrivingForce(self, x, T, precPhase=None, removeCache=False, **k):
        x = np.atleast_2d(x)
        T = np.atleast_1d(T)
        xe = self.xeq(T, precPhase)
        xb = self.P[precPhase][0]
        dg = R * T * (xb * np.log(x[:, 0] / xe) + (1 - xb) * np.log((1 - x[:, 0]) / (1 - xe)))
        return np.squeeze(dg), np.squeeze(xb * np.ones(len(T)))

    def getInterdiffusivity(self, x, T, removeCache=True, phase=None):
        return np.squeeze(self.D0 * np.exp(-self.Q / (R * np.atleast_1d(T))))

    def getTracerDiffusivity(self, x, T, removeCache=True, phase=None):
        d = self.D0 * np.exp(-self.Q / (R * np.atleast_1d(T)))
        return np.squeeze(np.array([d, d]).T)


def make_binary_model(phases=('B1',), x0=2e-2, T=700., gamma=0.15, bins=(1e-10, 1e-8, 75, 50, 100), site='dislocations',
                      vratio=1.0, adaptive=True, therm=None, constraints=None, gammas=None, sites=None):
    """PrecipitateModel on the stub backend.  T may be a number, a (hours, kelvin) pair or a function."""
    from kawin.precipitation import PrecipitateModel, VolumeParameter
    phases = list(phases)
    m = PrecipitateModel(phases=phases, elements=['B'])
    cmin, cmax, nb, minb, maxb = bins
    m.setPBMParameters(cMin=cmin, cMax=cmax, bins=nb, minBins=minb, maxBins=maxb, adaptive=adaptive)
    m.setInitialComposition(x0)
    import io, contextlib
    with contextlib.redirect_stdout(io.StringIO()):
        if isinstance(T, tuple):
            m.setTemperature(*T)
        else:
            m.setTemperature(T)
    a = 0.4e-9
    m.setVolumeAlpha(a ** 3, VolumeParameter.ATOMIC_VOLUME, 4)
    for i, p in enumerate(phases):
        m.setInterfacialEnergy(gammas[i] if gammas else gamma, phase=p)
        m.setVolumeBeta(a ** 3 / vratio, VolumeParameter.ATOMIC_VOLUME, 4, phase=p)
        m.setNucleationSite(sites[i] if sites else site, phase=p)
    m.setNucleationDensity(grainSize=1, dislocationDensity=1e15)
    if constraints:
        m.setConstraints(**constraints)
    m.setThermodynamics(therm if therm is not None else StubBinary(phases))
    return m


class StepObserver:
    """registered with addCouplingModel: called once per accepted step after the PSD update"""
    def __init__(self, fn):
        self.fn = fn

    def updateCoupledModel(self, model):
        self.fn(model)


class IterWrap:
    """Iterator wrapper passed as solverType: records, for every step, the state given, every
    derivative evaluation (time, nucleation rate / radius in force), the state returned
    (before _processX / truncation) and dt."""
    def __init__(self, model, real, on_step=None):
        self.model, self.real, self.on_step = model, real, on_step
        self.steps = []

    def __call__(self, f, t, X, updateX):
        rec = {'t': float(t), 'X': np.array(X, dtype=float).copy(), 'evals': []}
        m = self.model

        def f2(tt, xx, *a):
            out = f(tt, xx, *a)
            cy = getattr(m, '_currY', None)
            ev = {'t': float(tt)}
            if cy is not None:
                ev['nucRate'] = np.array(cy.nucRate[0]).copy()
                ev['Rnuc'] = np.array(cy.Rnuc[0]).copy()
            rec['evals'].append(ev)
            return out
        Xn, dt = self.real(f2, t, X, updateX)
        rec['Xn'] = np.array(Xn, dtype=float).copy()
        rec['dt'] = float(dt)
        rec['X_after'] = np.array(X, dtype=float).copy()
        self.steps.append(rec)
        if self.on_step:
            self.on_step(rec)
        return Xn, dt
