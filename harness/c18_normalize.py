"""AST normaliser used by harness/c18_translate.py for the methods it accepts "in the shape the model mirrors".

Two method bodies are considered the same shape when their NORMAL FORMS are equal.  The normal form is
reached by semantics-preserving rewrites only (each guarded by the purity / non-interference conditions
stated at the rule); anything the rules cannot bring together stays different and the tie is reported
broken (fail-closed).  Rules:

  helpers      a call of a private method of the same class whose (normalised) body is one `return <expr>`
               is replaced by that expression with the arguments substituted (static methods included,
               tuple results split over a tuple assignment);
  loops        `for a, b in zip(X, Y)` / `for i, a in enumerate(X)`  ->  `for i in range(len(X))` with
               a := X[i], b := Y[i];
  control      `if not C: A else: B` -> `if C: B else: A`;  `if C: ...return/continue` followed by REST ->
               `if C: ... else: REST`;  branches that differ only in sub-expressions are merged into one
               statement list with conditional expressions at the differing places (this turns
               `if C: x = A else: x = B` into `x = A if C else B` and `if C: return A else: return B` into
               `return A if C else B`);  `A if not C else B` -> `B if C else A`;
  masks        `x[M] = c` / `x[M] = y[M]` on a local array x  ->  `x = np.where(M, c | y, x)`;
               `x = np.where(C, x, v)` -> `x = np.where(~C, v, x)`;  `np.where(~C, a, b)` -> `np.where(C, b, a)`
               elsewhere;  integer constants inside np.where become floats;  `np.zeros(len(v))` as a branch
               of an np.where whose condition is computed from v -> 0.0;
  idioms       np.minimum.reduce([..]) -> np.amin(np.array([..]), axis=0);  np.full(n, c) -> c*np.ones(n);
  temporaries  a local name assigned once with a pure expression is substituted at its uses when no
               statement between the assignment and the last use writes anything the expression reads;
  order        statements of a block that do not interfere (read / write sets, calls of impure methods are
               barriers) are put into a canonical order;
  names        locals are renamed in order of first binding; private attributes `self._x` are renamed in
               order of first appearance over the class' mirrored methods.
"""
import ast, copy

READONLY_EXTERNAL = {'ThirdMoment', 'ZeroMoment', 'FirstMoment', 'SecondMoment', 'Moment', 'MomentFromN', 'ZeroMomentFromN',
                     'FirstMomentFromN', 'SecondMomentFromN', 'ThirdMomentFromN', 'getDTEuler', 'getDissolutionIndex', 'index', 'lower', 'copy'}
PURE_BUILTINS = {'range', 'len', 'zip', 'enumerate', 'int', 'float', 'abs', 'min', 'max', 'list', 'tuple'}
WORLD = '<world>'
MUTATORS = {'append', 'extend', 'sort', 'insert', 'pop', 'remove', 'clear', 'update', 'fill', 'resize'}


def D(n):
    return ast.dump(n)


def strip_doc(body):
    return [s for s in body if not (isinstance(s, ast.Expr) and isinstance(s.value, ast.Constant) and isinstance(s.value.value, str))
            and not isinstance(s, ast.Pass)]


def is_self_attr(e):
    return isinstance(e, ast.Attribute) and isinstance(e.value, ast.Name) and e.value.id == 'self'


def np_call(e, *path):
    """e is a call of np.<path...>"""
    if not isinstance(e, ast.Call):
        return False
    f = e.func
    for p in reversed(path):
        if not (isinstance(f, ast.Attribute) and f.attr == p):
            return False
        f = f.value
    return isinstance(f, ast.Name) and f.id == 'np'


def mk_np(name, args, keywords=()):
    return ast.Call(func=ast.Attribute(value=ast.Name(id='np', ctx=ast.Load()), attr=name, ctx=ast.Load()), args=list(args), keywords=list(keywords))


class ClassInfo:
    """purity and read sets of the methods of one class"""
    def __init__(self, cls):
        self.name = cls.name
        self.methods = {s.name: s for s in cls.body if isinstance(s, ast.FunctionDef)}
        self._pure = {}
        self._busy = set()

    def is_static(self, m):
        return any(isinstance(d, ast.Name) and d.id == 'staticmethod' for d in self.methods[m].decorator_list)

    def is_property(self, m):
        return any(isinstance(d, ast.Name) and d.id == 'property' for d in self.methods[m].decorator_list)

    def purity(self, m):
        """(pure?, set of self attributes read) of method m, transitively"""
        if m in self._pure:
            return self._pure[m]
        if m in self._busy or m not in self.methods:
            return (False, {WORLD})
        self._busy.add(m)
        pure, reads = True, set()
        for n in ast.walk(self.methods[m]):
            if isinstance(n, (ast.Assign, ast.AugAssign, ast.AnnAssign, ast.Delete)):
                tg = n.targets if isinstance(n, (ast.Assign, ast.Delete)) else [n.target]
                for t in tg:
                    for el in (t.elts if isinstance(t, (ast.Tuple, ast.List)) else [t]):
                        if not isinstance(el, ast.Name) and loc_of(el).startswith('self.'):
                            pure = False
            if isinstance(n, (ast.Global, ast.Nonlocal, ast.With, ast.Raise, ast.Try)):
                if isinstance(n, ast.With):
                    continue
                pure = False
            if is_self_attr(n) and isinstance(n.ctx, ast.Load):
                if n.attr in self.methods and not self.is_property(n.attr):
                    continue
                reads.add('self.' + n.attr)
            if isinstance(n, ast.Call):
                p, r = self.call_effect(n)
                pure = pure and p
                reads |= r
        self._busy.discard(m)
        self._pure[m] = (pure, reads)
        return self._pure[m]

    def writes(self, m):
        """what a method of this class may write: set of 'self.attr' locations, WORLD when it cannot be bounded
        (unknown callee, mutation of an argument)"""
        if not hasattr(self, '_w'):
            self._w, self._wbusy = {}, set()
        if m in self._w:
            return self._w[m]
        if m in self._wbusy or m not in self.methods:
            return {WORLD}
        self._wbusy.add(m)
        fn = self.methods[m]
        params = {a.arg for a in fn.args.args} - {'self'}
        w = set()
        for n in ast.walk(fn):
            if isinstance(n, (ast.Assign, ast.AugAssign)):
                for t in (n.targets if isinstance(n, ast.Assign) else [n.target]):
                    for el in (t.elts if isinstance(t, (ast.Tuple, ast.List)) else [t]):
                        if isinstance(el, ast.Name):
                            continue
                        l = loc_of(el)
                        if l.startswith('self.'):
                            w.add(l)
                        elif l in params or l == WORLD:
                            w.add(WORLD)
            elif isinstance(n, ast.Call):
                f = n.func
                if isinstance(f, ast.Attribute) and (is_self_attr(f) or (isinstance(f.value, ast.Name) and f.value.id == self.name)) and f.attr in self.methods:
                    w |= self.writes(f.attr)
                elif isinstance(f, ast.Attribute) and f.attr in MUTATORS:
                    l = loc_of(f.value)
                    if l.startswith('self.'):
                        w.add(l)
                    elif l in params or l == WORLD:
                        w.add(WORLD)
                elif not self.call_effect(n)[0]:
                    w.add(WORLD)
            elif isinstance(n, (ast.Delete, ast.Global, ast.Nonlocal)):
                w.add(WORLD)
        self._wbusy.discard(m)
        self._w[m] = w
        return w

    def call_effect(self, c):
        """(pure?, extra reads) of one call node (arguments are walked separately)"""
        f = c.func
        if isinstance(f, ast.Name):
            return (f.id in PURE_BUILTINS, set())
        if isinstance(f, ast.Attribute):
            r = root_of(f)
            if isinstance(r, ast.Name) and r.id == 'np':
                return (True, set())
            if is_self_attr(f) or (isinstance(f.value, ast.Name) and f.value.id == self.name):
                if f.attr in self.methods:
                    return self.purity(f.attr)
                return (False, {WORLD})
            if f.attr in READONLY_EXTERNAL:
                return (True, set())
            if f.attr in MUTATORS:
                return (False, set())
        return (False, {WORLD})


def root_of(e):
    while isinstance(e, (ast.Attribute, ast.Subscript, ast.Call)):
        e = e.func if isinstance(e, ast.Call) else e.value
    return e


def loc_of(e):
    """storage location named by a load / store expression: 'x', 'self.a', or root name of other objects"""
    base = e
    while isinstance(base, ast.Subscript):
        base = base.value
    if is_self_attr(base):
        return 'self.' + base.attr
    chain = base
    while isinstance(chain, (ast.Attribute, ast.Subscript)):
        if is_self_attr(chain):
            return 'self.' + chain.attr
        chain = chain.value
    if isinstance(chain, ast.Name):
        return chain.id
    return WORLD


class Effects:
    """read / write sets of expressions and statements"""
    def __init__(self, info):
        self.info = info

    def expr(self, e):
        """(pure?, reads)"""
        pure, reads = True, set()
        bound = set()
        for n in ast.walk(e):
            if isinstance(n, ast.comprehension):
                for x in ast.walk(n.target):
                    if isinstance(x, ast.Name):
                        bound.add(x.id)
        for n in ast.walk(e):
            if isinstance(n, ast.Name) and isinstance(n.ctx, ast.Load) and n.id not in bound and n.id not in ('np', 'self'):
                reads.add(n.id)
            elif is_self_attr(n):
                if not (n.attr in self.info.methods and not self.info.is_property(n.attr)):
                    reads.add('self.' + n.attr)
            elif isinstance(n, ast.Call):
                p, r = self.info.call_effect(n)
                pure = pure and p
                reads |= r
            elif isinstance(n, (ast.Lambda, ast.Await, ast.Yield, ast.YieldFrom, ast.NamedExpr)):
                pure = False
        return pure, reads

    def stmt(self, s):
        """(reads, writes, barrier?)"""
        reads, writes, barrier = set(), set(), False
        for n in ast.walk(s):
            if isinstance(n, (ast.Return, ast.Continue, ast.Break, ast.Raise)):
                barrier = True
            if isinstance(n, (ast.Assign, ast.AugAssign)):
                tg = n.targets if isinstance(n, ast.Assign) else [n.target]
                for t in tg:
                    for el in (t.elts if isinstance(t, (ast.Tuple, ast.List)) else [t]):
                        writes.add(loc_of(el))
                        if isinstance(n, ast.AugAssign) or isinstance(el, ast.Subscript):
                            reads.add(loc_of(el))
            if isinstance(n, ast.For):
                for x in ast.walk(n.target):
                    if isinstance(x, ast.Name):
                        writes.add(x.id)
            if isinstance(n, ast.Call):
                p, r = self.info.call_effect(n)
                if not p:
                    f = n.func
                    if isinstance(f, ast.Attribute) and f.attr in MUTATORS:
                        writes.add(loc_of(f.value))
                        reads.add(loc_of(f.value))
                    elif isinstance(f, ast.Attribute) and is_self_attr(f) and f.attr in self.info.methods:
                        writes |= self.info.writes(f.attr)
                        reads |= self.info.purity(f.attr)[1]
                    else:
                        writes.add(WORLD)
                        reads.add(WORLD)
        p, r = self.expr(s) if not isinstance(s, (ast.FunctionDef,)) else (False, {WORLD})
        reads |= r
        return reads, writes, barrier


def conflicts(a, b):
    """two (reads, writes, barrier) triples interfere"""
    ra, wa, ba = a
    rb, wb, bb = b
    if ba or bb:
        return True
    if WORLD in wa and (rb or wb) or WORLD in wb and (ra or wa):
        # an impure call interferes with everything that touches non-local state; keep it simple: with everything
        return True
    return bool(wa & (rb | wb)) or bool(ra & wb)


class Subst(ast.NodeTransformer):
    def __init__(self, mapping):
        self.mapping = mapping
        self.shadow = []

    def visit_Name(self, n):
        if isinstance(n.ctx, ast.Load) and n.id in self.mapping and not any(n.id in s for s in self.shadow):
            return copy.deepcopy(self.mapping[n.id])
        return n

    def _comp(self, n):
        names = set()
        for g in n.generators:
            for x in ast.walk(g.target):
                if isinstance(x, ast.Name):
                    names.add(x.id)
        # the first iterable is evaluated in the enclosing scope
        n.generators[0].iter = self.visit(n.generators[0].iter)
        self.shadow.append(names)
        for i, g in enumerate(n.generators):
            if i:
                g.iter = self.visit(g.iter)
            g.ifs = [self.visit(x) for x in g.ifs]
        if isinstance(n, ast.DictComp):
            n.key, n.value = self.visit(n.key), self.visit(n.value)
        else:
            n.elt = self.visit(n.elt)
        self.shadow.pop()
        return n
    visit_ListComp = visit_SetComp = visit_GeneratorExp = visit_DictComp = _comp


def subst(node, mapping):
    return Subst(mapping).visit(copy.deepcopy(node))


def negate(c):
    if isinstance(c, ast.UnaryOp) and isinstance(c.op, (ast.Not, ast.Invert)):
        return c.operand
    return ast.UnaryOp(op=ast.Not(), operand=c)


def invert(c):
    if isinstance(c, ast.UnaryOp) and isinstance(c.op, ast.Invert):
        return c.operand
    return ast.UnaryOp(op=ast.Invert(), operand=c)


def ends_in_jump(body):
    return bool(body) and isinstance(body[-1], (ast.Return, ast.Continue, ast.Break, ast.Raise))


def merge(a, b, cond):
    """a and b as one node with conditional expressions where they differ, or None"""
    if D(a) == D(b):
        return a
    if isinstance(a, ast.expr) and isinstance(b, ast.expr):
        if type(a) is type(b) and not isinstance(a, (ast.Constant, ast.Name)):
            m = merge_fields(a, b, cond)
            if m is not None:
                return m
        if isinstance(getattr(a, 'ctx', ast.Load()), ast.Load):
            return ast.IfExp(test=copy.deepcopy(cond), body=a, orelse=b)
        return None
    if type(a) is type(b) and isinstance(a, (ast.Assign, ast.Expr, ast.Return, ast.AugAssign, ast.keyword)):
        return merge_fields(a, b, cond)
    return None


def merge_fields(a, b, cond):
    new = copy.copy(a)
    for f in a._fields:
        x, y = getattr(a, f, None), getattr(b, f, None)
        if isinstance(x, list) and isinstance(y, list):
            if len(x) != len(y):
                return None
            out = []
            for p, q in zip(x, y):
                if isinstance(p, ast.AST) and isinstance(q, ast.AST):
                    m = merge(p, q, cond)
                    if m is None:
                        return None
                    out.append(m)
                elif p == q:
                    out.append(p)
                else:
                    return None
            setattr(new, f, out)
        elif isinstance(x, ast.AST) and isinstance(y, ast.AST):
            if isinstance(x, (ast.expr_context, ast.operator, ast.unaryop, ast.cmpop, ast.boolop)):
                if D(x) != D(y):
                    return None
                continue
            # the callee and assignment targets must be the same on both sides
            if f in ('func', 'targets', 'target') and D(x) != D(y):
                return None
            m = merge(x, y, cond)
            if m is None:
                return None
            setattr(new, f, m)
        elif x != y:
            return None
    return new


class Normalizer:
    def __init__(self, info, priv_map=None, inline=True):
        self.info = info
        self.eff = Effects(info)
        self.priv_map = priv_map if priv_map is not None else {}
        self.inline = inline
        self.fresh = 0
        self.fresh_locals = set()

    # ---- expressions ------------------------------------------------------------------------------
    def helper_expr(self, name):
        """normalised `return` expression and parameter list of an inlinable private helper, or None"""
        if name not in self.info.methods or not name.startswith('_') or name.startswith('__'):
            return None
        fn = self.info.methods[name]
        if self.info.is_property(name) or fn.args.vararg or fn.args.kwarg or fn.args.kwonlyargs or fn.args.defaults:
            return None
        if not self.info.purity(name)[0]:
            return None
        body = Normalizer(self.info, self.priv_map).function_body(fn, rename=False)
        if len(body) != 1 or not isinstance(body[0], ast.Return) or body[0].value is None:
            return None
        params = [a.arg for a in fn.args.args]
        if not self.info.is_static(name):
            params = params[1:]
        return body[0].value, params

    def expr(self, e):
        e = copy.deepcopy(e)

        class T(ast.NodeTransformer):
            def visit_Call(s, n):
                n = s.generic_visit(n)
                f = n.func
                # private helper of the same class
                if self.inline and isinstance(f, ast.Attribute) and not n.keywords and (is_self_attr(f) or (isinstance(f.value, ast.Name) and f.value.id == self.info.name)):
                    h = self.helper_expr(f.attr)
                    if h is not None and len(h[1]) == len(n.args) and all(self.eff.expr(a)[0] for a in n.args):
                        return s.visit(subst(h[0], dict(zip(h[1], n.args))))
                # np.minimum.reduce([a, b, c]) -> np.amin(np.array([a, b, c]), axis=0)
                if np_call(n, 'minimum', 'reduce') and len(n.args) == 1 and not n.keywords:
                    return mk_np('amin', [mk_np('array', [n.args[0]])], [ast.keyword(arg='axis', value=ast.Constant(value=0))])
                # np.full(n, c) -> c * np.ones(n)
                if np_call(n, 'full') and len(n.args) == 2 and not n.keywords:
                    return ast.BinOp(left=n.args[1], op=ast.Mult(), right=mk_np('ones', [n.args[0]]))
                if np_call(n, 'where') and len(n.args) == 3 and not n.keywords:
                    c, a, b = n.args
                    isnum = lambda x: isinstance(x, ast.Constant) and isinstance(x.value, (int, float)) and not isinstance(x.value, bool)
                    if isnum(a) != isnum(b):
                        if isnum(b):
                            c, a, b = invert(c), b, a
                    elif isinstance(c, ast.UnaryOp) and isinstance(c.op, ast.Invert):
                        c, a, b = c.operand, b, a
                    names = {x.id for x in ast.walk(c) if isinstance(x, ast.Name)}

                    def branch(x):
                        if isinstance(x, ast.Constant) and isinstance(x.value, int) and not isinstance(x.value, bool):
                            return ast.Constant(value=float(x.value))
                        if np_call(x, 'zeros') and len(x.args) == 1 and isinstance(x.args[0], ast.Call) and isinstance(x.args[0].func, ast.Name) \
                                and x.args[0].func.id == 'len' and isinstance(x.args[0].args[0], ast.Name) and x.args[0].args[0].id in names:
                            return ast.Constant(value=0.0)
                        return x
                    n.args = [c, branch(a), branch(b)]
                    c, a, b = n.args
                    if isnum(b) and not isnum(a):
                        n.args = [invert(c), b, a]
                return n

            def visit_IfExp(s, n):
                n = s.generic_visit(n)
                if isinstance(n.test, ast.UnaryOp) and isinstance(n.test.op, ast.Not):
                    return ast.IfExp(test=n.test.operand, body=n.orelse, orelse=n.body)
                return n

            def visit_UnaryOp(s, n):
                n = s.generic_visit(n)
                if isinstance(n.op, ast.Not) and isinstance(n.operand, ast.UnaryOp) and isinstance(n.operand.op, ast.Not):
                    return n.operand.operand
                return n

            def visit_Attribute(s, n):
                n = s.generic_visit(n)
                if is_self_attr(n) and n.attr in self.priv_map:
                    n.attr = self.priv_map[n.attr]
                return n
        return T().visit(e)

    # ---- statements ---------------------------------------------------------------------------------
    def block(self, body, params):
        body = strip_doc(body)
        out = []
        i = 0
        while i < len(body):
            s = body[i]
            rest = body[i + 1:]
            if isinstance(s, ast.If):
                test = self.expr(s.test)
                b1, b2 = list(s.body), list(s.orelse)
                if isinstance(test, ast.UnaryOp) and isinstance(test.op, ast.Not):
                    test, b1, b2 = test.operand, (b2 if b2 else [ast.Pass()]), b1
                # a branch that jumps away swallows the rest of the block into the other branch
                if rest and ends_in_jump(strip_doc(b1)) and not ends_in_jump(strip_doc(b2)):
                    b2 = b2 + rest
                    rest = []
                elif rest and ends_in_jump(strip_doc(b2)) and not ends_in_jump(strip_doc(b1)):
                    b1 = b1 + rest
                    rest = []
                n1, n2 = self.block(b1, params), self.block(b2, params)
                n1 = [x for x in n1 if not isinstance(x, ast.Continue)] if n1 and isinstance(n1[-1], ast.Continue) and not self._has_loop_exit(n1[:-1]) else n1
                n2 = [x for x in n2 if not isinstance(x, ast.Continue)] if n2 and isinstance(n2[-1], ast.Continue) and not self._has_loop_exit(n2[:-1]) else n2
                merged = None
                if n1 and n2 and len(n1) == len(n2) and self.eff.expr(test)[0]:
                    ms = [merge(p, q, test) for p, q in zip(n1, n2)]
                    if all(m is not None for m in ms):
                        w = set()
                        for m in ms[:-1] if len(ms) > 1 else []:
                            w |= self.eff.stmt(m)[1]
                        creads = self.eff.expr(test)[1]
                        if not (w & creads) and not (WORLD in w and any(r == WORLD or r.startswith('self.') for r in creads)):
                            merged = [self.stmt_expr(m) for m in ms]
                if merged is not None:
                    out += merged
                elif not n1 and n2:
                    out.append(ast.If(test=negate(test), body=n2, orelse=[]))
                elif n1 or n2:
                    out.append(ast.If(test=test, body=n1, orelse=n2))
                body = body[:i + 1] + rest
                i += 1
                continue
            out += self.stmt(s, params)
            i += 1
        return out

    @staticmethod
    def _has_loop_exit(stmts):
        return any(isinstance(n, (ast.Continue, ast.Break)) for s in stmts for n in ast.walk(s))

    def stmt_expr(self, s):
        """re-normalise the expressions of a statement produced by a merge"""
        for f in ('value', 'test'):
            if isinstance(getattr(s, f, None), ast.expr):
                setattr(s, f, self.expr(getattr(s, f)))
        return s

    def stmt(self, s, params):
        if isinstance(s, ast.For):
            it = self.expr(s.iter)
            body = list(s.body)
            tgt = s.target
            idx = None
            if isinstance(it, ast.Call) and isinstance(it.func, ast.Name) and it.func.id in ('zip', 'enumerate') and not it.keywords:
                seqs = it.args
                names = [e for e in (tgt.elts if isinstance(tgt, ast.Tuple) else [tgt])]
                ok = all(isinstance(x, ast.Name) for x in names) and all(self.eff.expr(q)[0] for q in seqs) and not s.orelse
                assigned = {loc_of(t) for n in body for st in ast.walk(n) if isinstance(st, (ast.Assign, ast.AugAssign))
                            for t in (st.targets if isinstance(st, ast.Assign) else [st.target])}
                if ok and it.func.id == 'zip' and len(names) == len(seqs) and not ({x.id for x in names} & assigned):
                    self.fresh += 1
                    idx = ast.Name(id='_i%d' % self.fresh, ctx=ast.Store())
                    mp = {x.id: ast.Subscript(value=q, slice=ast.Name(id=idx.id, ctx=ast.Load()), ctx=ast.Load()) for x, q in zip(names, seqs)}
                elif ok and it.func.id == 'enumerate' and len(names) == 2 and len(seqs) == 1 and not ({x.id for x in names} & assigned):
                    idx = ast.Name(id=names[0].id, ctx=ast.Store())
                    mp = {names[1].id: ast.Subscript(value=seqs[0], slice=ast.Name(id=idx.id, ctx=ast.Load()), ctx=ast.Load())}
                if idx is not None:
                    body = [subst(b, mp) for b in body]
                    it = ast.Call(func=ast.Name(id='range', ctx=ast.Load()),
                                  args=[ast.Call(func=ast.Name(id='len', ctx=ast.Load()), args=[seqs[0]], keywords=[])], keywords=[])
                    tgt = idx
            return [ast.For(target=tgt, iter=it, body=self.block(body, params), orelse=self.block(s.orelse, params))]
        if isinstance(s, ast.With):
            new = copy.copy(s)
            new.items = [ast.withitem(context_expr=self.expr(w.context_expr), optional_vars=w.optional_vars) for w in s.items]
            new.body = self.block(s.body, params)
            return [new]
        if isinstance(s, ast.While):
            return [ast.While(test=self.expr(s.test), body=self.block(s.body, params), orelse=self.block(s.orelse, params))]
        if isinstance(s, ast.Assign) and len(s.targets) == 1:
            t, v = s.targets[0], self.expr(s.value)
            # tuple assignment from a tuple: one assignment per element when later elements do not read earlier targets
            if isinstance(t, ast.Tuple) and isinstance(v, ast.Tuple) and len(t.elts) == len(v.elts) and all(isinstance(x, ast.Name) for x in t.elts):
                names = [x.id for x in t.elts]
                if not any(n.id in names for e in v.elts for n in ast.walk(e) if isinstance(n, ast.Name)):
                    return [ast.Assign(targets=[x], value=e) for x, e in zip(t.elts, v.elts)]
            # masked assignment on a local array
            if isinstance(t, ast.Subscript) and isinstance(t.value, ast.Name) and t.value.id not in params and t.value.id in self.fresh_locals:
                m = self.expr(t.slice)
                if self._is_mask(m):
                    x = ast.Name(id=t.value.id, ctx=ast.Load())
                    src = None
                    if isinstance(v, ast.Constant) and isinstance(v.value, (int, float)) and not isinstance(v.value, bool):
                        src = v
                    elif isinstance(v, ast.Subscript) and D(self.expr(v.slice)) == D(m) and self.eff.expr(v.value)[0]:
                        src = v.value
                    if src is not None:
                        t, v = ast.Name(id=t.value.id, ctx=ast.Store()), self.expr(mk_np('where', [m, src, x]))
            new = ast.Assign(targets=[self.expr_target(t)], value=v)
            return [new]
        new = copy.deepcopy(s)
        for f in new._fields:
            x = getattr(new, f, None)
            if isinstance(x, ast.expr):
                setattr(new, f, self.expr(x) if isinstance(getattr(x, 'ctx', ast.Load()), ast.Load) else self.expr_target(x))
            elif isinstance(x, list) and x and all(isinstance(y, ast.expr) for y in x):
                setattr(new, f, [self.expr(y) if isinstance(getattr(y, 'ctx', ast.Load()), ast.Load) else self.expr_target(y) for y in x])
        return [new]

    def expr_target(self, t):
        t = copy.deepcopy(t)
        for n in ast.walk(t):
            if is_self_attr(n) and n.attr in self.priv_map:
                n.attr = self.priv_map[n.attr]
        if isinstance(t, ast.Subscript):
            t.slice = self.expr(t.slice)
            t.value = self.expr_target(t.value) if isinstance(t.value, (ast.Subscript, ast.Attribute)) else t.value
        return t

    @staticmethod
    def _is_mask(m):
        """a boolean mask expression (comparison / ~ / | / & / np.isfinite ...) or a name bound to one is accepted
        only in the first form: names are resolved by the temporaries pass before this matters"""
        if isinstance(m, ast.Compare):
            return True
        if isinstance(m, ast.UnaryOp) and isinstance(m.op, ast.Invert):
            return True
        if isinstance(m, ast.BinOp) and isinstance(m.op, (ast.BitOr, ast.BitAnd)):
            return True
        if isinstance(m, ast.Name):
            return m.id.isupper()          # a hole of a template
        return False

    # ---- temporaries ------------------------------------------------------------------------------------
    def flat(self, body):
        """statements in execution order with nesting flattened (for position bookkeeping)"""
        out = []
        for s in body:
            out.append(s)
            for f in ('body', 'orelse'):
                if isinstance(getattr(s, f, None), list):
                    out += self.flat(getattr(s, f))
        return out

    def temporaries(self, body, params):
        changed = True
        while changed:
            changed = False
            order = self.flat(body)
            counts, mutated, loopvars = {}, set(), set()
            for s in order:
                if isinstance(s, (ast.Assign, ast.AugAssign)):
                    for t in (s.targets if isinstance(s, ast.Assign) else [s.target]):
                        for el in (t.elts if isinstance(t, (ast.Tuple, ast.List)) else [t]):
                            if isinstance(el, ast.Name):
                                counts[el.id] = counts.get(el.id, 0) + (2 if isinstance(s, ast.AugAssign) or isinstance(t, (ast.Tuple, ast.List)) else 1)
                            else:
                                mutated.add(loc_of(el))
                if isinstance(s, ast.For):
                    for x in ast.walk(s.target):
                        if isinstance(x, ast.Name):
                            loopvars.add(x.id)
                if not isinstance(s, (ast.For, ast.If, ast.With, ast.While)):
                    for n in ast.walk(s):
                        if isinstance(n, ast.Call) and isinstance(n.func, ast.Attribute) and isinstance(n.func.value, ast.Name) and n.func.attr in MUTATORS:
                            mutated.add(n.func.value.id)
            for k, s in enumerate(order):
                if not (isinstance(s, ast.Assign) and len(s.targets) == 1 and isinstance(s.targets[0], ast.Name)):
                    continue
                name = s.targets[0].id
                if counts.get(name) != 1 or name in mutated or name in loopvars or name in params:
                    continue
                pure, reads = self.eff.expr(s.value)
                if not pure or name in reads:
                    continue
                uses = [j for j in range(len(order)) if j != k and self._uses(order[j], name)]
                if not uses:
                    continue
                if min(uses) < k:
                    continue
                last = max(uses)
                # the assignment must dominate the uses: it has to be a statement of `body` or of a block that contains them
                if not self._dominates(body, s, [order[j] for j in uses]):
                    continue
                between = [order[j] for j in range(k + 1, last) if not isinstance(order[j], (ast.For, ast.If, ast.With, ast.While))]
                # compound statements contribute through their parts (already in `order`); loops containing a use: all of the loop
                for j in range(k + 1, len(order)):
                    if isinstance(order[j], (ast.For, ast.While)) and any(self._uses(x, name) for x in self.flat(order[j].body)):
                        between += [x for x in self.flat(order[j].body) if not isinstance(x, (ast.For, ast.If, ast.With, ast.While))]
                        between += [ast.Assign(targets=[copy.deepcopy(order[j].target)], value=ast.Constant(value=0))] if isinstance(order[j], ast.For) else []
                writes = set()
                for b in between:
                    if b is order[last]:
                        continue
                    writes |= self.eff.stmt(b)[1]
                if WORLD in writes and any(r == WORLD or r.startswith('self.') for r in reads):
                    continue
                if writes & reads:
                    continue
                self._replace(body, s, name)
                changed = True
                break
        return body

    @staticmethod
    def _uses(s, name):
        own = s
        if isinstance(s, (ast.For, ast.If, ast.While, ast.With)):
            # only the header expressions: the parts are separate entries of the flattened order
            hdr = [s.iter] if isinstance(s, ast.For) else [s.test] if isinstance(s, (ast.If, ast.While)) else [w.context_expr for w in s.items]
            return any(isinstance(n, ast.Name) and n.id == name and isinstance(n.ctx, ast.Load) for h in hdr for n in ast.walk(h))
        return any(isinstance(n, ast.Name) and n.id == name and isinstance(n.ctx, ast.Load) for n in ast.walk(own))

    def _dominates(self, body, d, uses):
        """d is a direct statement of a block that (transitively) contains every use after d"""
        def find(block):
            if any(x is d for x in block):
                return block
            for s in block:
                for f in ('body', 'orelse'):
                    if isinstance(getattr(s, f, None), list):
                        r = find(getattr(s, f))
                        if r is not None:
                            return r
            return None
        blk = find(body)
        if blk is None:
            return False
        k = [i for i, x in enumerate(blk) if x is d][0]
        inside = self.flat(blk[k + 1:])
        return all(any(u is x for x in inside) for u in uses)

    def _replace(self, body, d, name):
        val = d.value

        def go(block):
            new = []
            for s in block:
                if s is d:
                    continue
                for f in ('body', 'orelse'):
                    if isinstance(getattr(s, f, None), list):
                        setattr(s, f, go(getattr(s, f)))
                if isinstance(s, (ast.For, ast.If, ast.While, ast.With)):
                    if isinstance(s, ast.For):
                        s.iter = subst(s.iter, {name: val})
                    elif isinstance(s, (ast.If, ast.While)):
                        s.test = subst(s.test, {name: val})
                    else:
                        for w in s.items:
                            w.context_expr = subst(w.context_expr, {name: val})
                    new.append(s)
                else:
                    new.append(subst(s, {name: val}))
            return new
        body[:] = go(body)

    # ---- canonical order -------------------------------------------------------------------------------------
    def reorder(self, body, local_names):
        for s in body:
            for f in ('body', 'orelse'):
                if isinstance(getattr(s, f, None), list):
                    setattr(s, f, self.reorder(getattr(s, f), local_names))
        effs = [self.eff.stmt(s) for s in body]

        def key(s):
            c = copy.deepcopy(s)
            for n in ast.walk(c):
                if isinstance(n, ast.Name) and n.id in local_names:
                    n.id = '_'
            return D(c)
        keys = [key(s) for s in body]
        n = len(body)
        preds = [[i for i in range(j) if conflicts(effs[i], effs[j])] for j in range(n)]
        done, out = set(), []
        while len(out) < n:
            ready = [j for j in range(n) if j not in done and all(p in done for p in preds[j])]
            j = min(ready, key=lambda q: (keys[q], q))
            done.add(j)
            out.append(body[j])
        return out

    # ---- names --------------------------------------------------------------------------------------------------
    def rename_locals(self, body, params):
        mapping = {}

        def bind(name):
            if name not in mapping and name not in params and name not in ('np', 'self'):
                mapping[name] = '_v%d' % len(mapping)
        for s in self.flat(body):
            hdr = s
            if isinstance(s, (ast.If, ast.While, ast.With)):
                continue
            if isinstance(s, ast.For):
                for x in ast.walk(s.target):
                    if isinstance(x, ast.Name):
                        bind(x.id)
                continue
            for n in ast.walk(hdr):
                if isinstance(n, ast.Name) and isinstance(n.ctx, ast.Store):
                    bind(n.id)
        for s in body:
            for n in ast.walk(s):
                if isinstance(n, ast.Name) and n.id in mapping:
                    n.id = mapping[n.id]
        return body

    def versions(self, body, params):
        """a local that is assigned several times, always by a statement of the function's top-level block, gets
        one name per assignment (x = e1; x = f(x); return x  ->  x1 = e1; x2 = f(x1); return x2)"""
        top, nested = {}, set()
        for k, s in enumerate(body):
            if isinstance(s, ast.Assign) and len(s.targets) == 1 and isinstance(s.targets[0], ast.Name):
                top.setdefault(s.targets[0].id, []).append(k)
                inner = [s.value]
            else:
                inner = [s]
            for st in inner:
                for n in ast.walk(st):
                    if isinstance(n, ast.Name) and isinstance(n.ctx, ast.Store):
                        nested.add(n.id)
                    if isinstance(n, ast.comprehension):
                        nested |= {x.id for x in ast.walk(n.target) if isinstance(x, ast.Name)}
        for name, defs in top.items():
            if len(defs) < 2 or name in nested or name in params:
                continue
            cur = None
            for k, s in enumerate(body):
                if k in defs:
                    if cur is not None:
                        s.value = subst(s.value, {name: ast.Name(id=cur, ctx=ast.Load())})
                    cur = '%s__%d' % (name, defs.index(k) + 1)
                    s.targets[0].id = cur
                elif cur is not None:
                    for n in ast.walk(s):
                        if isinstance(n, ast.Name) and n.id == name:
                            n.id = cur
        return body

    @staticmethod
    def _fresh_locals(fn):
        """locals every assignment of which binds the result of a call or of arithmetic (never an alias of another object)"""
        ok, bad = set(), set()

        def fresh(e):
            if isinstance(e, (ast.Call, ast.BinOp, ast.Compare, ast.UnaryOp)):
                return True
            if isinstance(e, ast.IfExp):
                return fresh(e.body) and fresh(e.orelse)
            return False
        for n in ast.walk(fn):
            if isinstance(n, ast.Assign):
                for t in n.targets:
                    els = t.elts if isinstance(t, (ast.Tuple, ast.List)) else [t]
                    for el in els:
                        if isinstance(el, ast.Name):
                            (ok if (fresh(n.value) and (len(els) == 1 or isinstance(n.value, ast.Call))) else bad).add(el.id)
            elif isinstance(n, (ast.For, ast.comprehension)):
                bad |= {x.id for x in ast.walk(n.target) if isinstance(x, ast.Name)}
            elif isinstance(n, (ast.AugAssign, ast.NamedExpr)) and isinstance(n.target, ast.Name):
                pass
        return ok - bad

    def function_body(self, fn, rename=True):
        params = [a.arg for a in fn.args.args] + [a.arg for a in fn.args.kwonlyargs]
        body = self.versions(strip_doc(copy.deepcopy(fn.body)), set(params))
        prev = None
        for _ in range(6):
            self.fresh_locals = self._fresh_locals(ast.Module(body=body, type_ignores=[]))
            body = self.block(body, set(params))
            body = self.versions(body, set(params))
            body = self.temporaries(body, set(params))
            cur = D(ast.Module(body=body, type_ignores=[]))
            if cur == prev:
                break
            prev = cur
        local_names = {n.id for s in body for n in ast.walk(s) if isinstance(n, ast.Name) and isinstance(n.ctx, ast.Store)}
        body = self.reorder(body, local_names)
        if rename:
            body = self.rename_locals(body, set(params))
        return body


def private_attrs(cls_methods, order):
    """canonical names of the private attributes self._x used by the given methods (first appearance)"""
    mp = {}
    for m in order:
        fn = cls_methods.get(m)
        if fn is None:
            continue
        for n in ast.walk(fn):
            if is_self_attr(n) and n.attr.startswith('_') and not n.attr.startswith('__') and n.attr not in cls_methods and n.attr not in mp:
                mp[n.attr] = '_p%d' % len(mp)
    return mp


def normal_form(fn, info, priv_map=None):
    """normalised copy of a FunctionDef (signature kept, body in normal form)"""
    new = copy.deepcopy(fn)
    new.body = Normalizer(info, priv_map).function_body(fn) or [ast.Pass()]
    new.decorator_list = [d for d in new.decorator_list]
    return new


def unify(t, s, holes, binds):
    """template node t against source node s; Names of the template listed in `holes` match any expression"""
    if isinstance(t, ast.Name) and t.id in holes:
        if not isinstance(s, ast.expr):
            return False
        if t.id in binds:
            return D(binds[t.id]) == D(s)
        binds[t.id] = s
        return True
    if type(t) is not type(s):
        return False
    for f in t._fields:
        x, y = getattr(t, f, None), getattr(s, f, None)
        if isinstance(x, list):
            if not isinstance(y, list) or len(x) != len(y):
                return False
            for p, q in zip(x, y):
                if isinstance(p, ast.AST):
                    if not isinstance(q, ast.AST) or not unify(p, q, holes, binds):
                        return False
                elif p != q:
                    return False
        elif isinstance(x, ast.AST):
            if not isinstance(y, ast.AST) or not unify(x, y, holes, binds):
                return False
        elif x != y:
            if isinstance(x, (int, float)) and isinstance(y, (int, float)) and not isinstance(x, bool) and not isinstance(y, bool) and float(x) == float(y) \
                    and isinstance(t, ast.Constant):
                continue
            return False
    return True


# ------------------------------------------------------------------------------------------------
# guards of the rewrite rules: pairs that must / must not have the same normal form (run by every check)
SELFTEST = [
    ('\nclass C:\n    def f(self, x):\n        t = self.a + 1\n        self.a = x\n        return t\n',
     '\nclass C:\n    def f(self, x):\n        self.a = x\n        return self.a + 1\n', False),
    ('\nclass C:\n    def g(self): self.a = 0\n    def f(self, x):\n        t = self.a + x\n        self.g()\n        return t\n',
     '\nclass C:\n    def g(self): self.a = 0\n    def f(self, x):\n        self.g()\n        return self.a + x\n', False),
    ('\nclass C:\n    def g(self): self.b = 0\n    def f(self, x):\n        t = self.a + x\n        self.g()\n        return t\n',
     '\nclass C:\n    def g(self): self.b = 0\n    def f(self, x):\n        self.g()\n        return self.a + x\n', True),
    ('\nclass C:\n    def f(self, x):\n        y = x\n        y[y < 0] = 0\n        return y\n',
     '\nclass C:\n    def f(self, x):\n        return np.where(x < 0, 0.0, x)\n', False),
    ('\nclass C:\n    def f(self, g, c):\n        out = np.zeros(len(g))\n        out[g - c > 0] = (g - c)[g - c > 0]\n        out[g + c < 0] = (g + c)[g + c < 0]\n        return out\n',
     '\nclass C:\n    def f(self, g, c):\n        out = np.zeros(len(g))\n        out[g + c < 0] = (g + c)[g + c < 0]\n        out[g - c > 0] = (g - c)[g - c > 0]\n        return out\n', False),
    ('\nclass C:\n    def f(self, x):\n        if x > 0:\n            x = -1\n            y = 1\n        else:\n            x = 5\n            y = 2\n        return x, y\n',
     '\nclass C:\n    def f(self, x):\n        x = -1 if x > 0 else 5\n        y = 1 if x > 0 else 2\n        return x, y\n', False),
    ('\nclass C:\n    def f(self, a):\n        if a == 0:\n            return 0\n        q = 2 * a\n        return q + 1\n',
     '\nclass C:\n    def f(self, a):\n        if a == 0:\n            res = 0\n        else:\n            twice = 2 * a\n            res = twice + 1\n        return res\n', True),
    ('\nclass C:\n    def f(self, A, B):\n        out = []\n        for a, b in zip(A, B):\n            out.append(a)\n            out.append(b)\n        return out\n',
     '\nclass C:\n    def f(self, A, B):\n        out = []\n        for i in range(len(A)):\n            out.append(B[i])\n            out.append(A[i])\n        return out\n', False),
    ('\nclass C:\n    def f(self, x):\n        self.a = x\n        self.a = self.a + 1\n',
     '\nclass C:\n    def f(self, x):\n        self.a = self.a + 1\n        self.a = x\n', False),
    ('\nclass C:\n    def f(self, x):\n        return np.where(np.isfinite(x), x, 0.0)\n',
     '\nclass C:\n    def f(self, x):\n        return np.where(np.isfinite(x), 0.0, x)\n', False),
]


def selftest():
    """indices of the pairs whose verdict is wrong (empty list = all guards behave)"""
    import textwrap
    bad = []
    for k, (a, b, same) in enumerate(SELFTEST):
        forms = []
        for src in (a, b):
            cls = ast.parse(textwrap.dedent(src)).body[0]
            info = ClassInfo(cls)
            forms.append(D(ast.Module(body=normal_form(info.methods['f'], info, {}).body, type_ignores=[])))
        if (forms[0] == forms[1]) != same:
            bad.append(k)
    return bad
