"""Fail-closed Python-ast -> Gallina translator for kawin/solver/Iterators.py and for the three
members of DESolver (kawin/solver/Solver.py) through which an iterator reaches the user's model:
_getdXdt, _updateX and the iterator call inside solve.

The output is ONE Coq file written over the scalar record `Ops` of Kawin.Common.Ops (so the same text
is the object of the theorems at `Rops` and is executed on exact rationals at `Qops`).

Accepted subset (anything else raises TranslationError, which the check reports as a broken tie):
  module Iterators.py : docstring + `def` statements only, no decorators; both built-in iterators
                        present with positional parameters (f, t, X_old, updateX); other functions are helpers
  statements          : docstring; `a, b = f(time, state, True)`; `name = expr`; `name op= expr`
                        (op in + - * /); `return vector_expr, scalar_expr`
  expressions         : names, int/float literals (exact decimals), + - * / with scalar/vector typing,
                        unary minus, `f(time, state)`, `updateX(state, derivative, step)`
  DESolver._getdXdt   : additionally scalar conditional expressions `a if x < y else b` (one comparison),
                        the builtins max / min on two scalars (Python's tie rule), and reads of the scalar
                        attributes self._dtmin / self._dtmax (absolute bounds in force) and self.dtmin /
                        self.dtmax (the constructor's fractions of the span) - four different binders
  normalisation       : the translator works on what the statements compute, not on their count or spelling:
                        every binding becomes a let (named temporaries, renamed locals, tuple targets of
                        `a, b = f(t, X, True)` under any names); a private helper - any other function of
                        Iterators.py, any other method of DESolver - is translated at its call site (callables
                        f / updateX may be passed on; no in-place update of an argument; no recursion);
                        `for a, b in <literal table of numbers>` (or a local name bound to one) is unrolled;
                        `if getDt:` / `if not getDt:` with else or early return is decided statically (the method
                        is translated once per value of the flag); the private attribute in which solve() keeps
                        the state of the step (`self._X0`) is discovered from solve, not assumed by name
  DESolver._updateX   : the in-place hook `self._correctdXdt(dt, self._X0, d)` is accepted in this exact form and
                        NOT modelled: the generated text is about models that do not correct derivatives
  numpy aliasing      : `a = b` between vector names binds both names to ONE array; an in-place
                        `a += e` then changes every alias (this is what numpy does and what the
                        iterator code relies on with `dxdtsum = k1`); scalars are immutable.
The time argument of every f call is translated verbatim: that is the point of the tie.
"""
import ast, hashlib
from fractions import Fraction
from decimal import Decimal


class TranslationError(Exception):
    def __init__(self, msg, node=None, where=''):
        line = getattr(node, 'lineno', None)
        super().__init__('%s%s%s' % (where + ': ' if where else '', msg, ' (line %d)' % line if line else ''))
        self.lineno = line


ITER_SIG = ['f', 't', 'X_old', 'updateX']
COMMON_BINDERS = '(O : Ops) (V : Type) (vadd : V -> V -> V) (smul : T O -> V -> V)'
ITER_BINDERS = COMMON_BINDERS + ' (f : T O -> V -> V) (getdt : T O -> V -> T O) (updateX : V -> V -> T O -> V)'
SOLVER_BINDERS = COMMON_BINDERS + ' (F : T O -> V -> V) (userdt : V -> T O) (dtminfrac dtmaxfrac dtmin dtmax : T O)'
SOLVER_ARGS = 'O V vadd smul F userdt dtminfrac dtmaxfrac dtmin dtmax'
# scalar attributes of DESolver that _getdXdt may read: the step bounds in force (_dtmin, _dtmax: absolute, set by
# solve) and the constructor's fractions of the simulated span (dtmin, dtmax) - different numbers
SOLVER_ATTRS = {'_dtmin': 'dtmin', '_dtmax': 'dtmax', 'dtmin': 'dtminfrac', 'dtmax': 'dtmaxfrac'}
REQUIRED = ['ExplicitEulerIterator', 'RK4Iterator']


def _num(v, node):
    """exact literal -> Gallina scalar over Ops"""
    if isinstance(v, bool) or not isinstance(v, (int, float)):
        raise TranslationError('unsupported constant %r' % (v,), node)
    if isinstance(v, int):
        fr = Fraction(v)
    else:
        if v != v or v in (float('inf'), float('-inf')):
            raise TranslationError('non-finite literal', node)
        fr = Fraction(Decimal(repr(v)))          # the decimal the programmer wrote, exactly
    if fr.denominator == 1:
        return '(ofZ O (%d)%%Z)' % fr.numerator
    return '(dvd O (ofZ O (%d)%%Z) (ofZ O (%d)%%Z))' % (fr.numerator, fr.denominator)


class _Fn:
    """translation state of one straight-line function body"""

    def __init__(self, name, params, callables):
        self.name = name
        self.env = {}        # python name -> current Gallina name
        self.ty = {}         # python name -> 'S' | 'V'
        self.alias = {}      # python vector name -> frozenset of names bound to the same array
        self.lets = []
        self.cnt = {}
        self.calls = callables     # name -> handler(args, node) -> (text, type)
        self.reserved = set(callables)
        self.fcalls = []     # (source text of time arg, source text of state arg) per derivative call
        self.attrs = {}      # 'attr' of self readable as a scalar -> Gallina name
        self.helpers = {}    # callee key -> FunctionDef of a private helper (inlined at the call)
        self.flags = {}      # python name -> bool: parameters whose value is known statically (getDt)
        self.consts = {}     # python name -> literal tuple of numeric constants (tableau-like tables)
        self.tuple_call = None   # handler(fn, st) for `a, b = call(...)`
        self.refattr = None  # the private attribute holding the shape reference of the state
        self.depth = 0
        self.params_v = set()    # vector parameters of an inlined helper (may not be updated in place)
        for p, (g, t) in params.items():
            self.env[p] = g
            self.ty[p] = t
            if t == 'V':
                self.alias[p] = frozenset([p])

    def fresh(self, n):
        self.cnt[n] = self.cnt.get(n, 0) + 1
        return '%s_%d' % (n, self.cnt[n])

    # -- expressions ---------------------------------------------------------------------
    def tr(self, e):
        if isinstance(e, ast.Name):
            if e.id in self.reserved:
                raise TranslationError('callable %s used as a value' % e.id, e, self.name)
            if e.id not in self.env:
                raise TranslationError('unknown name %s' % e.id, e, self.name)
            return self.env[e.id], self.ty[e.id]
        if isinstance(e, ast.Constant):
            return _num(e.value, e), 'S'
        if isinstance(e, ast.UnaryOp) and isinstance(e.op, ast.USub):
            a, ta = self.tr(e.operand)
            if ta == 'S':
                return '(sub O (zero O) %s)' % a, 'S'
            return '(smul (ofZ O (-1)%%Z) %s)' % a, 'V'
        if isinstance(e, ast.BinOp):
            a, ta = self.tr(e.left)
            b, tb = self.tr(e.right)
            op = type(e.op).__name__
            if ta == tb == 'S' and op in ('Add', 'Sub', 'Mult', 'Div'):
                return '(%s O %s %s)' % ({'Add': 'add', 'Sub': 'sub', 'Mult': 'mul', 'Div': 'dvd'}[op], a, b), 'S'
            if ta == tb == 'V' and op == 'Add':
                return '(vadd %s %s)' % (a, b), 'V'
            if ta == tb == 'V' and op == 'Sub':
                return '(vadd %s (smul (ofZ O (-1)%%Z) %s))' % (a, b), 'V'
            if op == 'Mult' and ta == 'S' and tb == 'V':
                return '(smul %s %s)' % (a, b), 'V'
            if op == 'Mult' and ta == 'V' and tb == 'S':
                return '(smul %s %s)' % (b, a), 'V'
            if op == 'Div' and ta == 'V' and tb == 'S':
                return '(smul (dvd O (one O) %s) %s)' % (b, a), 'V'
            raise TranslationError('unsupported operation %s on %s and %s' % (op, ta, tb), e, self.name)
        if isinstance(e, ast.Attribute) and isinstance(e.value, ast.Name) and e.value.id == 'self' and e.attr in self.attrs:
            return self.attrs[e.attr], 'S'
        if isinstance(e, ast.IfExp):
            # a if cond else b  on scalars, cond a single comparison of scalars
            c = e.test
            if not (isinstance(c, ast.Compare) and len(c.ops) == 1 and len(c.comparators) == 1):
                raise TranslationError('unsupported condition', e, self.name)
            l, tl = self.tr(c.left)
            r, tr_ = self.tr(c.comparators[0])
            a, ta = self.tr(e.body)
            b, tb = self.tr(e.orelse)
            if (tl, tr_, ta, tb) != ('S', 'S', 'S', 'S'):
                raise TranslationError('conditional expressions are supported on scalars only', e, self.name)
            op = type(c.ops[0]).__name__
            cond = {'Gt': '(ltb O %s %s)' % (r, l), 'Lt': '(ltb O %s %s)' % (l, r),
                    'GtE': '(leb O %s %s)' % (r, l), 'LtE': '(leb O %s %s)' % (l, r)}.get(op)
            if cond is None:
                raise TranslationError('unsupported comparison %s' % op, e, self.name)
            return '(if %s then %s else %s)' % (cond, a, b), 'S'
        if isinstance(e, ast.Call) and isinstance(e.func, ast.Name) and e.func.id in ('max', 'min') and self.attrs:
            # Python's builtins on two scalars: max(a, b) is b only if b > a, min(a, b) is b only if b < a
            if e.keywords or len(e.args) != 2:
                raise TranslationError('max / min are supported with two positional arguments', e, self.name)
            a, ta = self.tr(e.args[0])
            b, tb = self.tr(e.args[1])
            if (ta, tb) != ('S', 'S'):
                raise TranslationError('max / min are supported on scalars only', e, self.name)
            if e.func.id == 'max':
                return '(if (ltb O %s %s) then %s else %s)' % (a, b, b, a), 'S'
            return '(if (ltb O %s %s) then %s else %s)' % (b, a, b, a), 'S'
        if isinstance(e, ast.Call):
            if e.keywords:
                raise TranslationError('keyword arguments are not supported', e, self.name)
            key = _callee(e.func)
            if key in self.calls:
                return self.calls[key](self, e)
            if key in self.helpers:
                return self.inline(key, e)
            raise TranslationError('call to unknown function %s' % (key or ast.dump(e.func)[:40]), e, self.name)
        raise TranslationError('unsupported expression %s' % type(e).__name__, e, self.name)

    # -- statements ----------------------------------------------------------------------
    def bind(self, n, txt, t, node, alias_of=None):
        if n in self.reserved or n in self.consts:
            raise TranslationError('assignment to %s' % n, node, self.name)
        if n in self.ty and self.ty[n] != t:
            raise TranslationError('name %s changes type %s -> %s' % (n, self.ty[n], t), node, self.name)
        # leaving the old alias group
        if n in self.alias:
            for m in self.alias[n]:
                if m != n:
                    self.alias[m] = self.alias[m] - {n}
        v = self.fresh(n)
        self.lets.append('let %s := %s in' % (v, txt))
        self.env[n] = v
        self.ty[n] = t
        if t == 'V':
            if alias_of is not None:
                grp = self.alias[alias_of] | {n}
                for m in grp:
                    self.alias[m] = grp
            else:
                self.alias[n] = frozenset([n])
        return v

    def assign(self, st):
        if len(st.targets) != 1 or not isinstance(st.targets[0], ast.Name):
            raise TranslationError('unsupported assignment target', st, self.name)
        n = st.targets[0].id
        txt, t = self.tr(st.value)
        alias_of = st.value.id if (isinstance(st.value, ast.Name) and t == 'V') else None
        self.bind(n, txt, t, st, alias_of)

    def augassign(self, st):
        if not isinstance(st.target, ast.Name):
            raise TranslationError('unsupported augmented-assignment target', st, self.name)
        n = st.target.id
        if n not in self.env:
            raise TranslationError('unknown name %s' % n, st, self.name)
        txt, t = self.tr(ast.copy_location(ast.BinOp(left=ast.Name(id=n, ctx=ast.Load()), op=st.op, right=st.value), st))
        if t != self.ty[n]:
            raise TranslationError('augmented assignment changes the type of %s' % n, st, self.name)
        if t == 'S':
            self.bind(n, txt, t, st)
            return
        # in-place update of a numpy array: every alias sees the new value
        grp = self.alias[n]
        v = self.fresh(n)
        self.lets.append('let %s := %s in' % (v, txt))
        for m in grp:
            self.env[m] = v

    # -- inlining of a private helper (function of the module / method of the class) ------------
    def inline(self, key, e):
        """translate the call by translating the helper's straight-line body at the call site"""
        hd = self.helpers[key]
        if self.depth >= 4:
            raise TranslationError('helpers nested too deeply (recursion?)', e, self.name)
        a = hd.args
        if a.vararg or a.kwarg or a.kwonlyargs or a.posonlyargs or a.defaults or hd.decorator_list:
            raise TranslationError('helper %s: unsupported parameter kinds' % hd.name, hd, self.name)
        names = [x.arg for x in a.args]
        if key.startswith('self.'):
            if not names or names[0] != 'self':
                raise TranslationError('helper method %s has no self' % hd.name, hd, self.name)
            names = names[1:]
        if len(names) != len(e.args):
            raise TranslationError('helper %s called with %d arguments, takes %d' % (hd.name, len(e.args), len(names)), e, self.name)
        ch = _Fn(self.name + '/' + hd.name, {}, {k: v for k, v in self.calls.items() if k.startswith('self.')})
        ch.lets, ch.cnt, ch.fcalls = self.lets, self.cnt, self.fcalls          # shared: one let-chain
        ch.attrs, ch.helpers, ch.refattr, ch.depth = self.attrs, self.helpers, self.refattr, self.depth + 1
        for pn, arg in zip(names, e.args):
            if isinstance(arg, ast.Name) and arg.id in self.calls:
                ch.calls[pn] = self.calls[arg.id]                               # a callable passed on (f, updateX)
                continue
            txt, t = self.tr(arg)
            v = self.fresh(pn)
            self.lets.append('let %s := %s in' % (v, txt))
            ch.env[pn], ch.ty[pn] = v, t
            if t == 'V':
                ch.alias[pn] = frozenset([pn])
                ch.params_v.add(pn)
        ch.reserved = set(ch.calls)
        r = ch.run_block([st for i, st in enumerate(hd.body) if not (_is_doc(st) and i == 0)])
        if r is None:
            raise TranslationError('helper %s does not return a value' % hd.name, hd, self.name)
        if isinstance(r.value, ast.Tuple):
            raise TranslationError('helper %s returns a tuple' % hd.name, r, self.name)
        return ch.tr(r.value)

    # -- blocks --------------------------------------------------------------------------------
    def static_test(self, test):
        """value of an `if` test that only involves statically known flags, else None"""
        if isinstance(test, ast.Name) and test.id in self.flags:
            return self.flags[test.id]
        if isinstance(test, ast.UnaryOp) and isinstance(test.op, ast.Not):
            v = self.static_test(test.operand)
            return None if v is None else (not v)
        return None

    @staticmethod
    def literal_table(e):
        """a literal tuple / list of numbers or of equally long tuples / lists of numbers, else None"""
        if not isinstance(e, (ast.Tuple, ast.List)) or not e.elts:
            return None
        rows = []
        for el in e.elts:
            if isinstance(el, (ast.Tuple, ast.List)):
                if not el.elts or not all(isinstance(x, ast.Constant) and isinstance(x.value, (int, float)) and not isinstance(x.value, bool) for x in el.elts):
                    return None
                rows.append(tuple(el.elts))
            elif isinstance(el, ast.Constant) and isinstance(el.value, (int, float)) and not isinstance(el.value, bool):
                rows.append((el,))
            else:
                return None
        if len({len(r) for r in rows}) != 1:
            return None
        return rows

    def run_block(self, stmts, in_loop=False):
        """straight-line statements; returns the ast.Return reached (its value is translated by the caller,
        in this scope) or None.  `if` only on statically known flags; `for` only over literal tables (unrolled)."""
        for i, st in enumerate(stmts):
            if _is_doc(st):
                continue
            if isinstance(st, ast.Return):
                if in_loop:
                    raise TranslationError('return inside a loop', st, self.name)
                if st.value is None:
                    raise TranslationError('return without a value', st, self.name)
                return st
            if isinstance(st, ast.If):
                v = self.static_test(st.test)
                if v is None:
                    raise TranslationError('unsupported statement If (condition not known statically)', st, self.name)
                r = self.run_block(st.body if v else st.orelse, in_loop)
                if r is not None:
                    return r
                continue
            if isinstance(st, ast.For):
                if st.orelse:
                    raise TranslationError('for ... else is not supported', st, self.name)
                rows = self.literal_table(st.iter)
                if rows is None and isinstance(st.iter, ast.Name) and st.iter.id in self.consts:
                    rows = self.consts[st.iter.id]
                if rows is None:
                    raise TranslationError('unsupported statement For (only loops over a literal table of numbers are unrolled)', st, self.name)
                tg = st.target.elts if isinstance(st.target, ast.Tuple) else [st.target]
                if not all(isinstance(x, ast.Name) for x in tg) or len(tg) != len(rows[0]):
                    raise TranslationError('loop targets do not match the table', st, self.name)
                for row in rows:
                    for x, cst in zip(tg, row):
                        self.bind(x.id, _num(cst.value, cst), 'S', st)
                    self.run_block(st.body, True)
                continue
            if isinstance(st, ast.Assign) and len(st.targets) == 1 and isinstance(st.targets[0], ast.Tuple):
                if self.tuple_call is None:
                    raise TranslationError('unsupported tuple assignment', st, self.name)
                self.tuple_call(self, st)
                continue
            if isinstance(st, ast.Assign) and len(st.targets) == 1 and isinstance(st.targets[0], ast.Name) \
                    and self.literal_table(st.value) is not None:
                n = st.targets[0].id
                if n in self.env or n in self.reserved:
                    raise TranslationError('a table may not reuse the name %s' % n, st, self.name)
                self.consts[n] = self.literal_table(st.value)
                continue
            if isinstance(st, ast.Assign):
                self.assign(st)
                continue
            if isinstance(st, ast.AugAssign):
                if type(st.op).__name__ not in ('Add', 'Sub', 'Mult', 'Div'):
                    raise TranslationError('unsupported augmented operator', st, self.name)
                if isinstance(st.target, ast.Name) and st.target.id in self.alias and (self.alias[st.target.id] & self.params_v):
                    raise TranslationError('in-place update of an argument inside a helper', st, self.name)
                self.augassign(st)
                continue
            if isinstance(st, ast.Expr) and self.expr_stmt(st):
                continue
            raise TranslationError('unsupported statement %s' % type(st).__name__, st, self.name)
        return None

    def expr_stmt(self, st):
        return False


def _callee(fn):
    if isinstance(fn, ast.Name):
        return fn.id
    if isinstance(fn, ast.Attribute) and isinstance(fn.value, ast.Name) and fn.value.id == 'self':
        return 'self.' + fn.attr
    return None


def _is_doc(st):
    return isinstance(st, ast.Expr) and isinstance(st.value, ast.Constant) and isinstance(st.value.value, str)


def _params(fn, expected, where):
    a = fn.args
    if a.vararg or a.kwarg or a.kwonlyargs or a.posonlyargs:
        raise TranslationError('unsupported parameter kinds', fn, where)
    names = [x.arg for x in a.args]
    if names != expected:
        raise TranslationError('signature changed: %r, expected %r' % (names, expected), fn, where)
    if fn.decorator_list:
        raise TranslationError('decorators are not supported', fn, where)
    return a


# ---------------------------------------------------------------------------------------------
# Iterators.py
def _iter_call_f(fn, e):
    # two-argument form: derivative only
    if len(e.args) != 2:
        raise TranslationError('f must be called as f(time, state) here', e, fn.name)
    a, ta = fn.tr(e.args[0])
    b, tb = fn.tr(e.args[1])
    if (ta, tb) != ('S', 'V'):
        raise TranslationError('f expects (scalar time, vector state)', e, fn.name)
    fn.fcalls.append((ast.unparse(e.args[0]), ast.unparse(e.args[1])))
    return '(f %s %s)' % (a, b), 'V'


def _iter_call_updateX(fn, e):
    if len(e.args) != 3:
        raise TranslationError('updateX expects three arguments', e, fn.name)
    args = [fn.tr(x) for x in e.args]
    if [t for _, t in args] != ['V', 'V', 'S']:
        raise TranslationError('updateX expects (state, derivative, step)', e, fn.name)
    return '(updateX %s %s %s)' % tuple(a for a, _ in args), 'V'


def _iter_tuple_call(fn, st):
    """a, b = f(time, state, True)"""
    c = st.value
    tg = st.targets[0].elts
    if not (isinstance(c, ast.Call) and _callee(c.func) in fn.calls and fn.calls[_callee(c.func)] is _iter_call_f
            and not c.keywords and len(c.args) == 3
            and isinstance(c.args[2], ast.Constant) and c.args[2].value is True
            and len(tg) == 2 and all(isinstance(x, ast.Name) for x in tg)):
        raise TranslationError('only `dxdt, dt = f(time, state, True)` may unpack a tuple', st, fn.name)
    a0, t0 = fn.tr(c.args[0])
    a1, t1 = fn.tr(c.args[1])
    if (t0, t1) != ('S', 'V'):
        raise TranslationError('f expects (scalar time, vector state)', st, fn.name)
    fn.fcalls.append((ast.unparse(c.args[0]), ast.unparse(c.args[1])))
    fn.bind(tg[0].id, '(f %s %s)' % (a0, a1), 'V', st)
    fn.bind(tg[1].id, '(getdt %s %s)' % (a0, a1), 'S', st)


def _translate_iterator(fdef, helpers):
    _params(fdef, ITER_SIG, fdef.name)
    if fdef.args.defaults:
        raise TranslationError('default arguments are not supported', fdef, fdef.name)
    fn = _Fn(fdef.name, {'t': ('t', 'S'), 'X_old': ('X_old', 'V')}, {'f': _iter_call_f, 'updateX': _iter_call_updateX})
    fn.helpers = helpers
    fn.tuple_call = _iter_tuple_call
    body = [st for i, st in enumerate(fdef.body) if not (_is_doc(st) and i == 0)]
    r = fn.run_block(body)
    if r is None:
        raise TranslationError('no return statement', fdef, fdef.name)
    if r is not body[-1]:
        pass        # an early return reached through statically decided branches: later statements are dead
    v = r.value
    if not (isinstance(v, ast.Tuple) and len(v.elts) == 2):
        raise TranslationError('an iterator must return (new state, step)', r, fdef.name)
    a, ta = fn.tr(v.elts[0])
    b, tb = fn.tr(v.elts[1])
    if (ta, tb) != ('V', 'S'):
        raise TranslationError('an iterator must return (vector, scalar)', r, fdef.name)
    ret = '(%s, %s)' % (a, b)
    text = 'Definition %s_gen %s (t : T O) (X_old : V) : V * T O :=\n  %s\n  %s.' % (fdef.name, ITER_BINDERS, '\n  '.join(fn.lets), ret)
    return text, fn.fcalls


def translate_iterators(src):
    """returns (list of definition texts, info dict)"""
    try:
        mod = ast.parse(src)
    except SyntaxError as e:
        raise TranslationError('Iterators.py does not parse: %s' % e)
    defs, info, seen = [], {}, set()
    fdefs = []
    for i, st in enumerate(mod.body):
        if _is_doc(st) and i == 0:
            continue
        if not isinstance(st, ast.FunctionDef):
            raise TranslationError('unsupported top-level statement %s' % type(st).__name__, st, 'Iterators.py')
        if st.name in seen:
            raise TranslationError('function %s defined twice' % st.name, st, 'Iterators.py')
        seen.add(st.name)
        fdefs.append(st)
    # functions other than the two built-in iterators are private helpers: inlined where they are called
    helpers = {st.name: st for st in fdefs if st.name not in REQUIRED}
    for st in fdefs:
        if st.name in REQUIRED:
            text, fcalls = _translate_iterator(st, helpers)
            defs.append(text)
            info[st.name] = {'derivative_calls': [{'time': a, 'state': b} for a, b in fcalls], 'line': st.lineno}
    info['helpers'] = sorted(helpers)
    for r in REQUIRED:
        if r not in seen:
            raise TranslationError('built-in iterator %s is missing' % r, None, 'Iterators.py')
    return defs, info


# ---------------------------------------------------------------------------------------------
# Solver.py : DESolver._getdXdt, DESolver._updateX, the iterator call in DESolver.solve, setIterator
def _find_class(mod, name):
    hits = [st for st in mod.body if isinstance(st, ast.ClassDef) and st.name == name]
    if len(hits) != 1:
        raise TranslationError('class %s not found exactly once' % name, None, 'Solver.py')
    return hits[0]


def _find_method(cls, name):
    hits = [st for st in cls.body if isinstance(st, ast.FunctionDef) and st.name == name]
    if len(hits) != 1:
        raise TranslationError('method %s not found exactly once' % name, None, 'Solver.py')
    return hits[0]


def _is_self_attr(e, attr):
    return isinstance(e, ast.Attribute) and isinstance(e.value, ast.Name) and e.value.id == 'self' and e.attr == attr


def _reshape_call(fn, e):
    """self._unflattenX(a, self.<ref>) / self._flattenX(a): a change of shape only, identity on the
    flat vector the iterator works with (assumption, sampled by the harness with multi-array states);
    <ref> is the private attribute in which solve() stores the state of the current step"""
    key = _callee(e.func)
    if key == 'self._unflattenX':
        if len(e.args) != 2 or fn.refattr is None or not _is_self_attr(e.args[1], fn.refattr):
            raise TranslationError('_unflattenX must be called with (array, self.%s)' % (fn.refattr or '<state reference>'), e, fn.name)
    elif len(e.args) != 1:
        raise TranslationError('_flattenX must be called with one argument', e, fn.name)
    a, ta = fn.tr(e.args[0])
    if ta != 'V':
        raise TranslationError('reshape of a non-vector', e, fn.name)
    return a, 'V'


def _call_model_f(fn, e):
    if len(e.args) != 2:
        raise TranslationError('self._f must be called as self._f(time, state)', e, fn.name)
    a, ta = fn.tr(e.args[0])
    b, tb = fn.tr(e.args[1])
    if (ta, tb) != ('S', 'V'):
        raise TranslationError('self._f expects (scalar time, vector state)', e, fn.name)
    fn.fcalls.append((ast.unparse(e.args[0]), ast.unparse(e.args[1])))
    return '(F %s %s)' % (a, b), 'V'


def _call_model_dt(fn, e):
    if len(e.args) != 1:
        raise TranslationError('self._getDt expects one argument', e, fn.name)
    a, ta = fn.tr(e.args[0])
    if ta != 'V':
        raise TranslationError('self._getDt expects the derivative', e, fn.name)
    return '(userdt %s)' % a, 'S'


def translate_solver(src):
    try:
        mod = ast.parse(src)
    except SyntaxError as e:
        raise TranslationError('Solver.py does not parse: %s' % e)
    cls = _find_class(mod, 'DESolver')
    info = {}
    defs = []

    # ---- the call in solve:  <a>, dt = self.iterator(self._getdXdt, <time>, self._flattenX(<X>), self._updateX)
    #      and the private attribute in which solve keeps <X> as the shape reference of the step
    s = _find_method(cls, 'solve')
    calls_found = [n for n in ast.walk(s) if isinstance(n, ast.Call) and _is_self_attr(n.func, 'iterator')]
    if len(calls_found) != 1:
        raise TranslationError('expected exactly one call of self.iterator in solve', s, 'solve')
    c = calls_found[0]
    if not (len(c.args) == 4 and not c.keywords and _is_self_attr(c.args[0], '_getdXdt') and isinstance(c.args[1], ast.Name)
            and isinstance(c.args[2], ast.Call) and _is_self_attr(c.args[2].func, '_flattenX') and len(c.args[2].args) == 1
            and isinstance(c.args[2].args[0], ast.Name) and _is_self_attr(c.args[3], '_updateX')):
        raise TranslationError('iterator is not called as self.iterator(self._getdXdt, time, self._flattenX(X), self._updateX)', c, 'solve')
    state_var = c.args[2].args[0].id
    refs = sorted({n.targets[0].attr for n in ast.walk(s)
                   if isinstance(n, ast.Assign) and len(n.targets) == 1 and isinstance(n.targets[0], ast.Attribute)
                   and isinstance(n.targets[0].value, ast.Name) and n.targets[0].value.id == 'self'
                   and isinstance(n.value, ast.Name) and n.value.id == state_var})
    refs = [r for r in refs if r not in SOLVER_ATTRS]
    if len(refs) != 1:
        raise TranslationError('solve does not store the state of the step in exactly one attribute: %r' % refs, s, 'solve')
    refattr = refs[0]
    info['solve'] = {'iterator_call': ast.unparse(c), 'time_variable': c.args[1].id, 'state_reference': 'self.' + refattr, 'line': c.lineno}

    # private helper methods (straight-line, inlined where called): every method of the class that is not one
    # of the translated entry points; only those actually called are looked at
    entry = {'_getdXdt', '_updateX', 'solve', 'setIterator'}
    helpers = {'self.' + st.name: st for st in cls.body if isinstance(st, ast.FunctionDef) and st.name not in entry}

    def new_fn(name, params, calls):
        fn = _Fn(name, params, calls)
        fn.attrs = dict(SOLVER_ATTRS)
        fn.reserved |= {'max', 'min'}
        fn.refattr = refattr
        fn.helpers = {k: v for k, v in helpers.items() if k not in calls}
        return fn

    # ---- _getdXdt(self, t, x, getDt=False): translated twice, with getDt known
    g = _find_method(cls, '_getdXdt')
    a = _params(g, ['self', 't', 'x', 'getDt'], '_getdXdt')
    if not (len(a.defaults) == 1 and isinstance(a.defaults[0], ast.Constant) and a.defaults[0].value is False):
        raise TranslationError('getDt must default to False', g, '_getdXdt')
    calls = {'self._unflattenX': _reshape_call, 'self._flattenX': _reshape_call, 'self._f': _call_model_f,
             'self._getDt': _call_model_dt}
    body = [st for i, st in enumerate(g.body) if not (_is_doc(st) and i == 0)]

    def run(flag):
        fn = new_fn('_getdXdt', {'t': ('t', 'S'), 'x': ('x', 'V')}, dict(calls))
        fn.flags = {'getDt': flag}
        r = fn.run_block(body)
        if r is None:
            raise TranslationError('no return statement (getDt=%r)' % flag, g, '_getdXdt')
        v = r.value
        if flag:
            if not (isinstance(v, ast.Tuple) and len(v.elts) == 2):
                raise TranslationError('expected `return derivative, dt`', r, '_getdXdt')
            p_, tp = fn.tr(v.elts[0])
            q_, tq = fn.tr(v.elts[1])
            if (tp, tq) != ('V', 'S'):
                raise TranslationError('expected (vector, scalar)', r, '_getdXdt')
            return fn, (p_, q_)
        p_, tp = fn.tr(v)
        if tp != 'V':
            raise TranslationError('expected a vector', r, '_getdXdt')
        return fn, (p_,)
    fn1, (d1,) = run(False)
    fn2, (d2, dt2) = run(True)
    defs.append('Definition getdXdt_gen %s (t : T O) (x : V) : V :=\n  %s\n  %s.' % (SOLVER_BINDERS, '\n  '.join(fn1.lets), d1))
    defs.append('Definition getdXdt_dt_gen %s (t : T O) (x : V) : V * T O :=\n  %s\n  (%s, %s).' % (SOLVER_BINDERS, '\n  '.join(fn2.lets), d2, dt2))
    info['_getdXdt'] = {'model_calls': [{'time': p_, 'state': q_} for p_, q_ in fn1.fcalls + fn2.fcalls], 'line': g.lineno}

    # ---- _updateX(self, x, dxdt, dt)
    u = _find_method(cls, '_updateX')
    a = _params(u, ['self', 'x', 'dxdt', 'dt'], '_updateX')
    if a.defaults:
        raise TranslationError('default arguments are not supported', u, '_updateX')
    fn = new_fn('_updateX', {'x': ('x', 'V'), 'dxdt': ('dxdt', 'V'), 'dt': ('dt', 'S')},
                {'self._unflattenX': _reshape_call, 'self._flattenX': _reshape_call})
    hook_seen = []

    def hook(st):
        # in-place correction hook: self._correctdXdt(dt, self.<ref>, unflatdxdt)
        if not (isinstance(st.value, ast.Call) and _callee(st.value.func) == 'self._correctdXdt'):
            return False
        c_ = st.value
        if not (len(c_.args) == 3 and not c_.keywords and _is_self_attr(c_.args[1], refattr) and isinstance(c_.args[2], ast.Name)):
            raise TranslationError('_correctdXdt must be called with (dt, self.%s, derivative name)' % refattr, st, '_updateX')
        h, th = fn.tr(c_.args[0])
        d, td = fn.tr(c_.args[2])
        if (th, td) != ('S', 'V'):
            raise TranslationError('_correctdXdt expects (scalar, state, vector)', st, '_updateX')
        # The hook corrects the derivative IN PLACE (and, because _unflattenX of GenericModel returns
        # views, also the array the iterator holds).  The generated model covers models that do
        # not correct derivatives (the hook is the default no-op): the call is recorded, not modelled.
        hook_seen.append(ast.unparse(c_))
        return True
    fn.expr_stmt = hook
    r = fn.run_block([st for i, st in enumerate(u.body) if not (_is_doc(st) and i == 0)])
    if r is None:
        raise TranslationError('no return statement', u, '_updateX')
    ret, tr_ = fn.tr(r.value)
    if tr_ != 'V':
        raise TranslationError('expected a vector', r, '_updateX')
    defs.append('Definition updateX_gen %s (x dxdt : V) (dt : T O) : V :=\n  %s\n  %s.' % (SOLVER_BINDERS, '\n  '.join(fn.lets), ret))
    info['_updateX'] = {'line': u.lineno, 'correction_hook_assumed_noop': hook_seen}

    # ---- setIterator maps the two enum members to the two translated functions
    si = _find_method(cls, 'setIterator')
    mapping = {}
    for n in ast.walk(si):
        if isinstance(n, ast.If) and isinstance(n.test, ast.Compare) and len(n.test.ops) == 1 and isinstance(n.test.ops[0], ast.Eq):
            rhs = n.test.comparators[0]
            if isinstance(rhs, ast.Attribute) and isinstance(rhs.value, ast.Name) and rhs.value.id == 'SolverType' and len(n.body) == 1:
                b = n.body[0]
                if isinstance(b, ast.Assign) and _is_self_attr(b.targets[0], 'iterator') and isinstance(b.value, ast.Name):
                    mapping[rhs.attr] = b.value.id
    if mapping != {'EXPLICITEULER': 'ExplicitEulerIterator', 'RK4': 'RK4Iterator'}:
        raise TranslationError('setIterator does not map EXPLICITEULER/RK4 to the built-in iterators: %r' % mapping, si, 'setIterator')
    imp = [st for st in mod.body if isinstance(st, ast.ImportFrom) and st.module == 'kawin.solver.Iterators']
    names = sorted((al.name, al.asname or al.name) for st in imp for al in st.names)
    if names != [('ExplicitEulerIterator', 'ExplicitEulerIterator'), ('RK4Iterator', 'RK4Iterator')]:
        raise TranslationError('Solver.py does not import the two built-in iterators under their own names: %r' % names, None, 'Solver.py')
    info['setIterator'] = mapping
    return defs, info


# ---------------------------------------------------------------------------------------------
HEADER = '''(* GENERATED by harness/c06_translate.py - do not edit.
   source: kawin/solver/Iterators.py sha256=%s
           kawin/solver/Solver.py    sha256=%s
   Every definition takes the same explicit binders (used or not), so that its arity does not
   depend on its body:
     iterators : O V vadd smul  f getdt updateX       (f(t,X) derivative; f(t,X,True) = (f t X, getdt t X))
     solver    : O V vadd smul  F userdt dtminfrac dtmaxfrac dtmin dtmax   (the user's getdXdt and getDt; the
                 attributes dtmin / dtmax (fractions of the span) and _dtmin / _dtmax (absolute bounds); the
                 in-place hook correctdXdt is assumed to be the default no-op) *)
From Coq Require Import ZArith.
Require Import Kawin.Common.Ops.

%s
'''

SOLVER_SECTION = '''
%s

(* what DESolver.solve runs for the two built-in solver types *)
Definition solver_Euler_gen SOLVER_BINDERS (t : T O) (x : V) : V * T O :=
  ExplicitEulerIterator_gen O V vadd smul (getdXdt_gen SOLVER_ARGS) (fun t x => snd (getdXdt_dt_gen SOLVER_ARGS t x))
    (updateX_gen SOLVER_ARGS) t x.
Definition solver_RK4_gen SOLVER_BINDERS (t : T O) (x : V) : V * T O :=
  RK4Iterator_gen O V vadd smul (getdXdt_gen SOLVER_ARGS) (fun t x => snd (getdXdt_dt_gen SOLVER_ARGS t x))
    (updateX_gen SOLVER_ARGS) t x.
'''.replace('SOLVER_BINDERS', SOLVER_BINDERS).replace('SOLVER_ARGS', SOLVER_ARGS)


def translate(iter_src, solver_src=None):
    """returns (coq text, info).  Raises TranslationError."""
    defs, info = translate_iterators(iter_src)
    h1 = hashlib.sha256(iter_src.encode()).hexdigest()
    h2 = hashlib.sha256(solver_src.encode()).hexdigest() if solver_src is not None else '-'
    text = HEADER % (h1, h2, '\n\n'.join(defs))
    if solver_src is not None:
        sdefs, sinfo = translate_solver(solver_src)
        info.update(sinfo)
        text += SOLVER_SECTION % '\n\n'.join(sdefs)
    info['sha256'] = {'Iterators.py': h1, 'Solver.py': h2, 'generated': hashlib.sha256(text.encode()).hexdigest()}
    return text, info


if __name__ == '__main__':
    import sys, os, json
    repo = sys.argv[1] if len(sys.argv) > 1 else os.environ.get('KAWIN_REPO', '/repo')
    t, i = translate(open(os.path.join(repo, 'kawin/solver/Iterators.py')).read(),
                     open(os.path.join(repo, 'kawin/solver/Solver.py')).read())
    sys.stdout.write(t)
    sys.stderr.write(json.dumps(i, indent=1) + '\n')
