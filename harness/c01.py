"""C01 - precipitation conserves solute between matrix and precipitates.

proof:          coq/C01/Properties.v (solute balance for any phases / solutes / grids, recorded sums are
                the size-distribution sums, clamp and saturation cases, lifted over trajectories)
correspondence: (a) PrecipitateModel._calcMassBalance on synthetic states vs the model on exact
                rationals; (b) every _calcMassBalance call of real runs (stub backend; Euler and RK4;
                1-3 phases; split solve calls) vs the model, sampled.
search:         independent recomputation of the balance from public run data (iterator wrapper's new
                distribution, grid midpoints, table, user-supplied molar volumes, 4*pi/3).
"""
import json, math, io, contextlib
from fractions import Fraction
import numpy as np
from common import *
import kwn_trace, stubs

LEVEL = 'proof'
SITE = 'KWNEuler._calcMassBalance'

HEADER = '''From Coq Require Import QArith List ZArith.
Require Import Kawin.Common.Ops Kawin.Common.Vec Kawin.Common.Out Kawin.C07.Model Kawin.C01.Model Kawin.C01.Corr.
Import ListNotations.
Open Scope Q_scope.
'''
RT = '(1 # 68719476736)'   # 2^-36


# ------------------------------------------------------------------------------------------
def phase_term(va, vb, vf, x, size, xbeta, prevFull, infinite, prevFconc, psd):
    return ('(mkPhaseIn Qops (Qred (%s / %s)) %s %s %s %s %s %s %s %s)' % (
        qlit(va), qlit(vb), qlit(vf), qlist(x), qlist(size), qlistlist(xbeta), boollit(prevFull), boollit(infinite),
        qlist(prevFconc), qlist(psd)))


def check_term(case):
    phs = '[' + '; '.join(phase_term(*p) for p in case['phases']) + ']'
    iph = '[' + '; '.join('{| ip_dens := %s; ip_ravg := %s; ip_fv := %s; ip_fconc := %s |}' % (
        qlit(o[0]), qlit(o[1]), qlit(o[2]), qlist(o[3])) for o in case['out_ph']) + ']'
    return 'check01 %s %s %s %s %s %s %s %s' % (RT, qlit(case['minDens']), qlit(case['minComp']), qlist(case['x0']),
                                                 qlist(case['prev']), phs, iph, qlist(case['out_comp']))


def verdicts(res):
    """-> (list of disagreement strings, indeterminate)"""
    pv, indet, vcomp, sat = res
    dis = []
    for p, v in enumerate(pv):
        vd, vr, vf, vc, tie = v
        for name, r in (('precipitateDensity', vd), ('Ravg', vr), ('volFrac', vf), ('fconc', vc)):
            if r is not None:
                k, ap = r[1]
                dis.append('%s[phase %d][%d]: model %r' % (name, p, k, float(tofrac(ap))))
    if vcomp is not None:
        k, ap = vcomp[1]
        dis.append('composition[%d]: model %r' % (k, float(tofrac(ap))))
    return dis, bool(indet), bool(sat)


# ------------------------------------------------------------------------------------------
# (a) synthetic states
def synth_case(rng, quick):
    from kawin.precipitation import PrecipitateModel, VolumeParameter
    from kawin.precipitation.PopulationBalance import PopulationBalanceModel
    from kawin.precipitation.PrecipitationParameters import PrecipitationData
    P = int(rng.integers(1, 4))
    E = int(rng.integers(1, 4))
    phases = ['P%d' % i for i in range(P)]
    elements = ['E%d' % i for i in range(E)]
    m = PrecipitateModel(phases=phases, elements=elements)
    vaA = float(rng.uniform(0.3, 0.5) * 1e-9) ** 3
    m.setVolumeAlpha(vaA, VolumeParameter.ATOMIC_VOLUME, 4)
    kind = str(rng.choice(['normal', 'normal', 'dense', 'empty', 'saturated', 'negative', 'nodiff']))
    x0 = rng.uniform(1e-3, 0.2, E)
    m.pData.composition[0] = x0
    m.PSDXbeta = []
    case_ph = []
    x = []
    site_names = ['bulk', 'dislocations', 'grain boundaries', 'grain edges', 'grain corners']
    for p in range(P):
        n = int(rng.integers(1, 13 if quick else 40))
        cmin = float(10 ** rng.uniform(-10, -9))
        pbm = PopulationBalanceModel(cmin, cmin * float(10 ** rng.uniform(1, 2)), n)
        pbm.PSD = 10 ** rng.uniform(0, 20, n) * (rng.random(n) < 0.7)
        m.PBM[p] = pbm
        vb = float(rng.uniform(0.3, 0.5) * 1e-9) ** 3
        m.setVolumeBeta(vb, VolumeParameter.ATOMIC_VOLUME, 4, phase=phases[p])
        m.setInterfacialEnergy(float(rng.uniform(0.1, 0.5)), phase=phases[p])
        site = str(rng.choice(site_names))
        m.setNucleationSite(site, phase=phases[p])
        m.precipitateParameters[p].nucleation.gbEnergy = float(rng.uniform(0.05, 0.15))
        infinite = not (kind == 'nodiff')
        m.precipitateParameters[p].infinitePrecipitateDiffusion = infinite
        xb = rng.uniform(0.05, 0.6, (n + 1, E))
        m.PSDXbeta.append(xb)
        r = pbm.PSDsize
        target = {'normal': 10 ** rng.uniform(-6, -1), 'dense': rng.uniform(0.2, 0.45), 'empty': 0.0,
                  'saturated': rng.uniform(0.6, 2.0), 'negative': 10 ** rng.uniform(-4, -1), 'nodiff': 10 ** rng.uniform(-5, -2)}[kind]
        shape = np.exp(-(np.log(r / r[n // 2])) ** 2 / 0.3) * (rng.random(n) < 0.8)
        if shape.sum() == 0:
            shape[0] = 1.0
        vf = m.precipitateParameters[p].nucleation.volumeFactor
        k = m.matrixParameters.volume.Vm / m.precipitateParameters[p].volume.Vm * vf
        xp = shape * target / (k * np.sum(shape * r ** 3)) if target > 0 else np.zeros(n)
        if kind == 'empty' and rng.random() < 0.5:
            xp = np.full(n, 1e-12 / n)       # below minNucleateDensity
        if kind != 'empty' and P > 1 and rng.random() < 0.3:
            # a phase without precipitates among populated ones (its early-out must not touch the others)
            xp = np.zeros(n) if rng.random() < 0.5 else np.full(n, 1e-12 / n)
        if kind == 'negative':
            xp[int(rng.integers(0, n))] *= -0.5
        x.append(xp)
        prevFull = bool(rng.random() < 0.05)
        m.pData.volFrac[0, p] = 1.0 if prevFull else float(rng.uniform(0, 0.3))
        m.pData.fconc[0, p] = rng.uniform(0, 1e-3, E)
        case_ph.append((m.matrixParameters.volume.Vm, m.precipitateParameters[p].volume.Vm, vf, xp.copy(), r.copy(), xb.copy(),
                        prevFull, infinite, m.pData.fconc[0, p].copy(), pbm.PSD.copy(), site))
    if kind == 'negative':
        # drive the raw composition of one element negative
        x0[int(rng.integers(0, E))] *= 1e-4
        m.pData.composition[0] = x0
    m.constraints.minComposition = float(rng.choice([0.0, 1e-8, 1e-5]))
    Y = PrecipitationData(phases, elements, N=1)
    prev = rng.uniform(1e-3, 0.2, E)
    Y.composition[0] = prev
    xin = [xx.copy() for xx in x]
    Yo = m._calcMassBalance(0.0, xin, Y)
    mutated = any(not np.array_equal(a, b) for a, b in zip(xin, x))
    case = {'kind': kind, 'P': P, 'E': E, 'minDens': m.constraints.minNucleateDensity, 'minComp': m.constraints.minComposition,
            'x0': x0.copy(), 'prev': prev.copy(), 'phases': [c[:10] for c in case_ph], 'sites': [c[10] for c in case_ph],
            'out_ph': [(float(Yo.precipitateDensity[0, p]), float(Yo.Ravg[0, p]), float(Yo.volFrac[0, p]), Yo.fconc[0, p].copy()) for p in range(P)],
            'out_comp': Yo.composition[0].copy(), 'mutated': mutated}
    return case


def finite_case(case):
    vals = [case['out_comp']] + [np.array([o[0], o[1], o[2]]) for o in case['out_ph']] + [o[3] for o in case['out_ph']]
    return all(np.all(np.isfinite(v)) for v in vals)


# independent oracle for one evaluation: the balance of the property text
def vol_factor_oracle(site, gamma=None, gb=None):
    if site in ('bulk', 'dislocations'):
        return 4 * math.pi / 3
    return None      # grain-boundary type factors are the subject of C14; taken from the object there


def oracle_case(case, tol=1e-9):
    """returns list of (clause, cls, msg): checks x0 = comp*(1-sum fv) + sum_p k_p sum_i N_i R_i^3 xbar_i
    with k from the user-supplied molar volumes and 4*pi/3 (spherical sites)"""
    v = []
    P, E = case['P'], case['E']
    ftot = 0.0
    sol = np.zeros(E)
    mag = np.zeros(E)
    for p in range(P):
        va, vb, vf, x, size, xb, prevFull, infinite, prevFc, psd = case['phases'][p]
        if not infinite or prevFull:
            return []      # history-dependent / forced-saturation modes are outside the claim
        vfo = vol_factor_oracle(case['sites'][p])
        k = va / vb * (vfo if vfo is not None else vf)
        dens = float(np.sum(x))
        if dens < case['minDens']:
            continue
        rmid = size
        m3 = float(np.sum(x * rmid ** 3))
        if k * m3 > 1:
            return []
        ftot += k * m3
        xbar = 0.5 * (xb[:-1] + xb[1:])
        for e in range(E):
            sol[e] += k * float(np.sum(x * rmid ** 3 * xbar[:, e]))
            mag[e] += k * float(np.sum(np.abs(x) * rmid ** 3 * xbar[:, e]))
        # recorded statistics
        o = case['out_ph'][p]
        if abs(o[2] - k * m3) > tol * k * float(np.sum(np.abs(x) * rmid ** 3)):
            v.append(('recorded_are_sums', 'volFrac', 'phase %d: recorded volume fraction %r, k*M3 = %r (k = Vm_alpha/Vm_beta * 4pi/3)' % (p, o[2], k * m3)))
    if ftot >= 1:
        return v
    comp = case['out_comp']
    for e in range(E):
        raw = (case['x0'][e] - sol[e]) / (1 - ftot)
        sc = (abs(case['x0'][e]) + mag[e]) / (1 - ftot)
        if raw < -tol * sc:
            if comp[e] != case['minComp']:
                v.append(('clamp', 'composition', 'solute %d: raw matrix composition %r is negative but %r was recorded instead of the clamp value %r' % (e, raw, comp[e], case['minComp'])))
            continue
        if abs(raw) <= tol * sc:
            continue
        resid = case['x0'][e] - (comp[e] * (1 - ftot) + sol[e])
        if abs(resid) > tol * (abs(case['x0'][e]) + mag[e] + abs(comp[e])):
            v.append(('conservation', 'balance', 'solute %d: x0 = %r but matrix*(1-fv) + precipitates = %r (residual %.3e)' % (e, case['x0'][e], comp[e] * (1 - ftot) + sol[e], resid)))
    if case.get('mutated'):
        v.append(('arguments_unchanged', 'mutation', 'the distribution passed to the mass balance was modified'))
    return v


def case_json(case):
    def h(a):
        return [hexf(z) for z in np.ravel(a)]
    return {'kind': case['kind'], 'P': case['P'], 'E': case['E'], 'minDens': case['minDens'], 'minComp': case['minComp'],
            'x0': h(case['x0']), 'prev': h(case['prev']), 'sites': case.get('sites'),
            'phases': [{'VmAlpha': hexf(p[0]), 'VmBeta': hexf(p[1]), 'volFactor': hexf(p[2]), 'x': h(p[3]), 'size': h(p[4]),
                        'xbeta': [h(r) for r in p[5]], 'prevFull': p[6], 'infinite': p[7], 'prevFconc': h(p[8]), 'psd': h(p[9])} for p in case['phases']],
            'out_ph': [[hexf(o[0]), hexf(o[1]), hexf(o[2]), h(o[3])] for o in case['out_ph']], 'out_comp': h(case['out_comp'])}


# ------------------------------------------------------------------------------------------
# (b) traces
def trace_cfgs(quick, rng):
    cfgs = [
        {'name': 'euler-1phase', 'phases': ('B1',), 'iterator': 'euler', 'segments': [3e3]},
        {'name': 'rk4-1phase-split', 'phases': ('B1',), 'iterator': 'rk4', 'segments': [20.0, 30.0]},
        {'name': 'euler-2phase-split-vratio', 'phases': ('B1', 'B2'), 'gammas': [0.15, 0.12], 'iterator': 'euler', 'segments': [300.0, 700.0, 2000.0], 'vratio': 1.25},
        {'name': 'euler-ramp', 'phases': ('B1',), 'iterator': 'euler', 'segments': [2e3], 'T': (lambda t: 650.0 + 0.05 * t)},
        {'name': 'euler-grain-boundary', 'phases': ('B1',), 'iterator': 'euler', 'segments': [2e3], 'site': 'grain boundaries', 'gamma': 0.22},
        # no diffusion in the precipitate: the precipitate content is accumulated from step to step
        {'name': 'rk4-nodiffusion', 'phases': ('B1',), 'iterator': 'rk4', 'segments': [15.0, 15.0], 'infinite': False},
        {'name': 'euler-nodiffusion', 'phases': ('B1',), 'iterator': 'euler', 'segments': [600.0], 'infinite': False},
        # several coarsening and refining re-meshes of the size classes while the content is being accumulated
        {'name': 'euler-nodiffusion-remesh', 'phases': ('B1',), 'iterator': 'euler', 'segments': [2e3, 2e3], 'infinite': False, 'bins': (1e-10, 1e-9, 40, 30, 50)},
        # molar volume of the precipitate changed between two solve calls, with and without a reset in between
        {'name': 'euler-volume-change', 'phases': ('B1',), 'iterator': 'euler', 'segments': [300.0, 300.0],
         'between': [[('setVolumeBeta', ((0.4e-9) ** 3 / 1.2, 1, 4, 'B1'))]]},
        {'name': 'euler-volume-change-alpha', 'phases': ('B1', 'B2'), 'gammas': [0.15, 0.12], 'iterator': 'euler', 'segments': [200.0, 200.0, 200.0],
         'between': [[('setVolumeAlpha', ((0.4e-9) ** 3 * 1.15, 1, 4))], [('setVolumeBeta', ((0.4e-9) ** 3 / 1.3, 1, 4, 'B2'))]]},
    ]
    if not quick:
        cfgs += [
            {'name': 'euler-3phase-bulk', 'phases': ('B1', 'B2', 'B3'), 'gammas': [0.15, 0.12, 0.17], 'sites': ['bulk', 'dislocations', 'bulk'], 'iterator': 'euler', 'segments': [1e4]},
            {'name': 'euler-fixedgrid', 'phases': ('B1',), 'iterator': 'euler', 'segments': [1e4, 1e4], 'adaptive': False, 'bins': (1e-10, 2e-8, 120, 50, 150)},
            {'name': 'rk4-2phase', 'phases': ('B1', 'B3'), 'gammas': [0.15, 0.17], 'iterator': 'rk4', 'segments': [100.0]},
            {'name': 'euler-cooling', 'phases': ('B1',), 'iterator': 'euler', 'segments': [5e3], 'T': ([0, 1, 2], [750.0, 650.0, 700.0])},
            {'name': 'euler-highx', 'phases': ('B2',), 'gamma': 0.12, 'x0': 5e-2, 'iterator': 'euler', 'segments': [1e5]},
        ]
    return cfgs


def case_from_mbcall(m, rec):
    P = len(m.phases)
    E = m.numberOfElements
    phs = []
    for p in range(P):
        pp = m.precipitateParameters[p]
        phs.append((rec['vmA'], rec['vmB'][p], rec['volFactor'][p], rec['x'][p], rec['size'][p], rec['xbeta'][p],
                    bool(rec['prevVolFrac'][p] == 1), bool(pp.infinitePrecipitateDiffusion), rec['prevFconc'][p], rec['psd'][p]))
    o = rec['out']
    return {'kind': 'trace', 'P': P, 'E': E, 'minDens': m.constraints.minNucleateDensity, 'minComp': m.constraints.minComposition,
            'x0': rec['x0'], 'prev': rec['compIn'], 'phases': phs,
            'sites': [type(m.precipitateParameters[p].nucleation.description).name for p in range(P)],
            'out_ph': [(float(o['precipitateDensity'][p]), float(o['Ravg'][p]), float(o['volFrac'][p]), o['fconc'][p]) for p in range(P)],
            'out_comp': o['composition'], 'mutated': False}


def oracle_trace(tr, tol=1e-9):
    """independent check along a run: for each accepted step, the recorded slice must balance the
    distribution the step produced (iterator wrapper) after the documented zeroing, on the grid and
    table in force, with k from user-supplied volumes; also the histories are what the last mass
    balance call of the step returned"""
    m = tr.model
    v = []
    P = len(m.phases)
    for si, st in enumerate(tr.steps):
        bef, aft, it = st['before'], st['after'], st['iter']
        if bef is None or it is None:
            continue
        # split the flat state the iterator returned into phases (bins of the grid before the step)
        xs, pos = [], 0
        for p in range(P):
            nb = bef['bins'][p]
            xs.append(it['Xn'][pos:pos + nb].copy())
            pos += nb
        # documented zeroing (_processX)
        for p in range(P):
            xs[p][:bef['rdfi'][p] + 1] = 0
            xs[p][bef['size'][p] < m.constraints.minRadius] = 0
        mb = tr.mb_calls[st['mb_last']]
        # table in force: Euler isothermal runs keep the table of the previous callback
        sites = [type(m.precipitateParameters[p].nucleation.description).name for p in range(P)]
        case = {'kind': 'trace', 'P': P, 'E': m.numberOfElements, 'minDens': m.constraints.minNucleateDensity, 'minComp': m.constraints.minComposition,
                'x0': np.array(m.pData.composition[0]), 'prev': mb['compIn'],
                'phases': [(aft['vmA'], aft['vmB'][p], aft['volFactor'][p],
                            xs[p], 0.5 * (bef['bounds'][p][1:] + bef['bounds'][p][:-1]), mb['xbeta'][p], bool(bef['slice']['volFrac'][p] == 1),
                            bool(m.precipitateParameters[p].infinitePrecipitateDiffusion), bef['slice']['fconc'][p], bef['psd'][p]) for p in range(P)],
                'sites': sites,
                'out_ph': [(float(aft['slice']['precipitateDensity'][p]), float(aft['slice']['Ravg'][p]), float(aft['slice']['volFrac'][p]), aft['slice']['fconc'][p]) for p in range(P)],
                'out_comp': aft['slice']['composition']}
        # user-supplied volumes: both phases built from a^3 with 4 atoms per cell in the stub runs
        for (cl, cls, msg) in oracle_case(case, tol):
            v.append((cl, cls, 'step %d of run %s: %s' % (aft['n'], tr.meta.get('name'), msg), si))
            break
        # no-diffusion mode: recorded precipitate content = previous record + k * sum R^3 (x_new - stored PSD) * xbar
        for p in range(P):
            if m.precipitateParameters[p].infinitePrecipitateDiffusion:
                continue
            if float(np.sum(xs[p])) < m.constraints.minNucleateDensity:
                continue
            k = aft['vmA'] / aft['vmB'][p] * aft['volFactor'][p]
            r3 = (0.5 * (bef['bounds'][p][1:] + bef['bounds'][p][:-1])) ** 3
            xbar = 0.5 * (mb['xbeta'][p][:-1] + mb['xbeta'][p][1:])
            for e in range(m.numberOfElements):
                inc = k * float(np.sum(r3 * (xs[p] - bef['psd'][p]) * xbar[:, e]))
                want = float(bef['slice']['fconc'][p][e]) + inc
                got = float(aft['slice']['fconc'][p][e])
                mag = abs(float(bef['slice']['fconc'][p][e])) + k * float(np.sum(r3 * (np.abs(xs[p]) + np.abs(bef['psd'][p])) * xbar[:, e]))
                if abs(got - want) > 1e-9 * mag + 1e-300:
                    v.append(('no_diffusion_accumulates', 'increment', 'step %d of run %s: precipitate content of phase %d (no diffusion in the precipitate) recorded as %r, previous record + increment of this step = %r' % (aft['n'], tr.meta.get('name'), p, got, want), si))
                    break
        # no-diffusion mode with a precipitate of fixed composition (every row of the interfacial table equal): what was
        # accumulated is then history independent, and the property text applies literally - the recorded precipitate
        # content is the sum of particle volume times precipitate composition over the new distribution
        for p in range(P):
            if m.precipitateParameters[p].infinitePrecipitateDiffusion or bool(bef['slice']['volFrac'][p] == 1):
                continue
            if float(np.sum(xs[p])) < m.constraints.minNucleateDensity:
                continue
            tab = np.asarray(mb['xbeta'][p], dtype=float)
            if tab.shape[0] != len(xs[p]) + 1 or np.max(np.abs(tab - tab[0])) > 1e-15:
                continue
            k = aft['vmA'] / aft['vmB'][p] * aft['volFactor'][p]
            r3 = (0.5 * (bef['bounds'][p][1:] + bef['bounds'][p][:-1])) ** 3
            for e in range(m.numberOfElements):
                want = k * float(np.sum(r3 * xs[p])) * float(tab[0, e])
                got = float(aft['slice']['fconc'][p][e])
                if abs(got - want) > 1e-9 * abs(want) + 1e-13 * float(m.pData.composition[0][e]):
                    x0 = float(m.pData.composition[0][e])
                    v.append(('conservation', 'no_diffusion_fixed_composition',
                              'step %d of run %s: solute %d held in precipitates of phase %d (no diffusion in the precipitate, fixed precipitate composition %r) is recorded as %r, '
                              'but particle volume times composition summed over the distribution is %r: the balance x0 = %r is off by %.3e'
                              % (aft['n'], tr.meta.get('name'), e, p, float(tab[0, e]), got, want, x0, got - want), si))
                    break
        # the distribution handed to the mass balance is the new distribution
        for p in range(P):
            if mb['x'][p].shape != xs[p].shape or not np.allclose(mb['x'][p], xs[p], rtol=1e-12, atol=0):
                v.append(('trajectory', 'distribution', 'step %d of run %s: mass balance of phase %d was not taken over the new distribution' % (aft['n'], tr.meta.get('name'), p), si))
                break
        if len(v) > 5:
            break
    return v


def run(ctx):
    quick = ctx.quick
    ctx.cov['rule'] = ('(a) synthetic _calcMassBalance states: 1-3 phases, 1-3 solutes, 1-12 (quick) / 1-39 classes, kinds normal/dense/empty/'
                       'saturated/negative/no-diffusion, five site types; (b) every mass-balance call of stub-backend runs (Euler/RK4, 1-3 phases, '
                       'split solve calls, ramps), sampled; non-trivial = at least one phase above the density threshold with total fraction < 1; '
                       'distinct by hash of the exact inputs')
    axioms, failed = ctx.prove(['C01/Properties.v'])
    # (a)
    nsyn = 120 if quick else 2500
    cases = []
    p = os.path.join(VERIF, 'corpus', 'C01')
    for i in range(nsyn):
        try:
            with contextlib.redirect_stdout(io.StringIO()):
                c = synth_case(ctx.rng, quick)
            cases.append(c)
        except Exception as e:
            ctx.violation('no_internal_error', {'site': SITE, 'cls': type(e).__name__}, {'error': repr(e), 'case_index': i},
                          '_calcMassBalance raised %r on a synthetic state' % e)
    hits = []
    for c in cases:
        for h in oracle_case(c):
            hits.append((c, h))
    # (b)
    traces = []
    for cfg in trace_cfgs(quick, ctx.rng):
        try:
            tr = kwn_trace.run_binary(cfg)
        except kwn_trace.RunTimeout as e:
            ctx.violation('run_terminates', {'site': SITE, 'cls': 'run did not finish'}, {'kind': 'trace', 'run': cfg['name'], 'observed': str(e)},
                          'precipitation run %s did not finish: %s' % (cfg['name'], e))
            continue
        traces.append(tr)
        ctx.cov['traces_validated_against_impl'] += 1
        ctx.hist('trace_steps', '%s:%d' % (cfg['name'], len(tr.steps)))
        for h in oracle_trace(tr):
            hits.append(({'kind': 'trace', 'run': cfg['name'], 'step_index': h[3]}, h[:3]))
        ncalls = len(tr.mb_calls)
        take = min(ncalls, 18 if quick else 400)
        idx = sorted(set(int(i) for i in np.linspace(0, ncalls - 1, take))) if ncalls else []
        for i in idx:
            c = case_from_mbcall(tr.model, tr.mb_calls[i])
            c['run'] = cfg['name']
            c['call'] = i
            cases.append(c)
    fin = [c for c in cases if finite_case(c)]
    for c in cases:
        if not finite_case(c):
            ctx.violation('finite', {'site': SITE, 'cls': c['kind']}, {'input': case_json(c)}, 'mass balance returned a non-finite value (%s case)' % c['kind'])
    res = ctx.coq_eval('mb', HEADER, [check_term(c) for c in fin])
    dis_all = []
    for c, r in zip(fin, res):
        dis, indet, sat = verdicts(r)
        nontriv = (not sat) and any(o[0] >= c['minDens'] for o in c['out_ph'])
        ctx.count(case_json(c), nontriv)
        ctx.hist('kind', c['kind'])
        ctx.hist('phases', c['P'])
        ctx.hist('solutes', c['E'])
        ctx.hist('saturated', sat)
        if indet:
            ctx.notes['indeterminate_near_tie'] = ctx.notes.get('indeterminate_near_tie', 0) + 1
        for d in dis:
            dis_all.append((c, d))
    for c in fin[:2] + [c for c in fin if c['kind'] == 'trace'][:2]:
        ctx.sample({'kind': c['kind'], 'P': c['P'], 'E': c['E'], 'x0': [float(z) for z in c['x0']], 'recorded_composition': [float(z) for z in c['out_comp']],
                    'recorded_volFrac': [o[2] for o in c['out_ph']], 'classes': [len(p[3]) for p in c['phases']]})
    seen = set()
    for c, (cl, cls, msg) in hits:
        if (cl, cls) in seen:
            continue
        seen.add((cl, cls))
        ctx.violation(cl, {'site': SITE, 'cls': cls}, {'kind': 'input' if 'phases' in c else 'trace', 'input': case_json(c) if 'phases' in c else c,
                                                       'observed': msg, 'oracle': 'harness/c01.py: oracle_case / oracle_trace'}, msg)
    if dis_all and not hits:
        c, d = dis_all[0]
        ctx.violation('correspondence', {'site': SITE, 'cls': d.split('[')[0]},
                      {'broken': {'correspondence': 'coq/C01/Model.v vs KWNEuler._calcMassBalance', 'first_disagreement': d},
                       'input': case_json(c), 'implementation': {'composition': [float(z) for z in c['out_comp']], 'phases': [[o[0], o[1], o[2]] for o in c['out_ph']]},
                       'disagreements': len(dis_all)},
                      'model and implementation disagree (%d cases), e.g. %s (%s case)' % (len(dis_all), d, c['kind']), no_input=True)
    for t in failed:
        ctx.violation(t, {'site': 'coq/C01/Properties.v', 'cls': 'proof'}, {'broken': {'theorem': t}}, 'theorem %s no longer checks' % t, no_input=True)
    ctx.notes['disagreements'] = len(dis_all)
    ctx.notes['oracle_hits'] = len(hits)
    ctx.assumptions += [
        'claimed for the default infinite-precipitate-diffusion mode; the no-diffusion mode is history dependent (documented) and only its arithmetic is compared',
        'that the run feeds the new distribution and the table in force into the balance rests on the trace correspondence (stub thermodynamics backend; pycalphad not involved)',
        'grain-boundary type volume factors are taken from the nucleation object (their geometry is C14); spherical sites use 4*pi/3 independently',
        'binary64 rounding is not modelled: relative tolerance 2^-36 of summed magnitudes; near-tie branch conditions are indeterminate']
    ctx.cov['trusted_base'] += ['Coq 8.16.1 kernel and vm_compute', 'hand-written model coq/C01/Model.v + correspondence harness harness/c01.py, harness/kwn_trace.py',
                                'stub thermodynamics harness/stubs.py (drives the runs; not part of the claim)']


def replay(ctx, obj):
    print('replay: re-run ./check C01; the replay file holds the exact inputs (hex floats) of the failing evaluation')
    return 0
